#!/bin/bash
# Idempotent offline setup: install numpy/scipy/icontract/deal from the local wheelhouse into /verif/.deps
cd "$(dirname "$0")" || exit 1
DEPS=.deps
if [ ! -f "$DEPS/.ok" ]; then
  mkdir -p "$DEPS"
  PIP_NO_INDEX=1 /venv/bin/pip install --quiet --no-index --find-links /opt/veriftools/wheels \
      --target "$DEPS" --upgrade numpy scipy icontract deal >"$DEPS/setup.log" 2>&1 || { cat "$DEPS/setup.log"; exit 1; }
  touch "$DEPS/.ok"
fi
exit 0
