"""Order-precise reference typing of hail's *relational* IR (TableIR / MatrixIR), transcribed from the ENGINE.

The Scala engine cannot run in the sandbox, but its sources are in /repo.  For every relational node class the
Python front end emits, the engine derives the node's type (``typ``) from the children; those definitions are
transcribed here, one by one, from

    hail/hail/src/is/hail/expr/ir/TableIR.scala        (``lazy val typ`` of each TableIR case class)
    hail/hail/src/is/hail/expr/ir/MatrixIR.scala       (``lazy val typ`` of each MatrixIR case class)
    hail/hail/src/is/hail/types/virtual/TableType.scala   (keyType / valueType / key-in-row requirement)
    hail/hail/src/is/hail/types/virtual/MatrixType.scala  (rowsTableType / colsTableType / entriesTableType /
                                                           toTableType / fromTableType / rowKeyStruct ...)
    hail/hail/src/is/hail/types/virtual/TStruct.scala     (++ / insertFields / insert(structInsert) / appendKey /
                                                           deleteKey / rename / select / filterSet)
    hail/hail/src/is/hail/expr/ir/InferType.scala         (MakeStruct / SelectFields / InsertFields / GetField /
                                                           Let / Ref / TableGetGlobals / TableCollect)
    hail/hail/src/is/hail/expr/ir/TypeCheck.scala         (what the engine ASSERTS about the children of the nodes that
                                                           combine several relational children -- their ``typ`` only looks
                                                           at the first one: TableUnion, TableMultiWayZipJoin,
                                                           MatrixUnionRows, MatrixUnionCols, TableJoin,
                                                           TableLeftJoinRightDistinct)

This is a REFERENCE (an oracle), used by vf/monitors/c36.py: nothing here is the code under test and none of the
Python front end's own struct algebra (``tstruct._concat / _insert_fields / _insert / _rename / _select_fields /
_drop_fields``, ``ttable.key_type / value_type``, ``tmatrix.row_key_type`` ...) is used -- a bug there is exactly what
must stay visible.  Of a Python ``tstruct`` only the constructor (keyword order = field order) and ``items()`` are
used; equality is decided on an own order-preserving canonical form (``canon``).

Types of *value* IR children (``new_row``, ``expr``, ...) are the Python expression types, except along the struct
"spine" that decides the field ORDER of a relational type: ``InsertFields`` / ``SelectFields`` / ``MakeStruct`` /
``GetField`` / ``Let`` / references to ``row`` / ``global`` / ``va`` / ``sa`` / ``g``, which follow InferType.scala with
the engine's environment (the child's *reference* type).
"""
from collections import namedtuple

RefT = namedtuple('RefT', 'row key globals')                              # TableType(rowType, key, globalType)
RefM = namedtuple('RefM', 'globals col_key col row_key row entry')         # MatrixType(globalType, colKey, colType, rowKey, rowType, entryType)


class EngineRejects(Exception):
    """the engine's own ``typ`` definition throws / asserts on this node"""


class NotTranscribed(Exception):
    """no transcription for this node (variant): not judged"""


def canon(hl, t):
    """order-preserving canonical form of a type (struct field order INCLUDED)"""
    if isinstance(t, hl.tstruct):
        return ('struct', tuple((k, canon(hl, v)) for k, v in t.items()))
    if isinstance(t, hl.tarray):
        return ('array', canon(hl, t.element_type))
    if isinstance(t, hl.tset):
        return ('set', canon(hl, t.element_type))
    if isinstance(t, hl.tdict):
        return ('dict', canon(hl, t.key_type), canon(hl, t.value_type))
    if isinstance(t, hl.ttuple):
        return ('tuple', tuple(canon(hl, x) for x in t.types))
    if isinstance(t, hl.tinterval):
        return ('interval', canon(hl, t.point_type))
    if isinstance(t, hl.tstream):
        return ('stream', canon(hl, t.element_type))
    if isinstance(t, hl.tndarray):
        return ('ndarray', canon(hl, t.element_type), str(t.ndim))
    return str(t)


class EngineTyper:
    """bottom-up evaluation of the transcribed rules over emitted relational IR, with comparison against the Python nodes"""

    def __init__(self, hl, ir, count=None, seen=None):
        self.hl = hl
        self.ir = ir
        self.count = count or (lambda *a, **k: None)
        self.seen = seen or (lambda *a, **k: None)
        self.memo = {}
        self.findings = []       # (node class, [parts], message, node)
        self.RULES = {n[3:]: getattr(self, n) for n in dir(self) if n.startswith('_r_')}

    COVERED = property(lambda self: sorted(self.RULES))

    def reset(self):
        self.memo = {}
        self.findings = []

    def take_findings(self):
        f, self.findings = self.findings, []
        return f

    # ---------------------------------------------------------------------------------------------
    # TStruct.scala
    # ---------------------------------------------------------------------------------------------
    def S(self, pairs):
        """TStruct(args: (String, Type)*) -- `fieldNames` asserts that names are unique"""
        pairs = list(pairs)
        names = [n for n, _ in pairs]
        if len(set(names)) != len(names):
            raise EngineRejects(f'duplicate field name in struct {names}')
        return self.hl.tstruct(**dict(pairs))

    def is_struct(self, t):
        return isinstance(t, self.hl.tstruct)

    def need_struct(self, t, what):
        if not self.is_struct(t):
            raise EngineRejects(f'{what}: expected a struct, found {t}')      # tcoerce[TStruct] / asInstanceOf[TStruct]
        return t

    def s_names(self, s):
        return [n for n, _ in s.items()]

    def s_field(self, s, name):
        """TStruct.field / fieldType"""
        for n, t in s.items():
            if n == name:
                return t
        raise EngineRejects(f'{name} not in {s}')

    def s_concat(self, a, b):
        """TStruct.++ : fatal on overlapping names; fields of `a` then fields of `b`"""
        over = set(self.s_names(a)) & set(self.s_names(b))
        if over:
            raise EngineRejects(f'overlapping fields in struct concatenation: {sorted(over)}')
        return self.S(list(a.items()) + list(b.items()))

    def s_select(self, s, names):
        """TStruct.select / typeAfterSelect / typeAfterSelectNames: the fields `names`, in the order of `names`"""
        return self.S([(n, self.s_field(s, n)) for n in names])

    def s_filter_out(self, s, names):
        """TStruct.filterSet(names, include = false): the other fields, in struct order; fatal if a name is not a field"""
        names = set(names)
        missing = names - set(self.s_names(s))
        if missing:
            raise EngineRejects(f'invalid struct filter operation: fields {sorted(missing)} not found in {s}')
        return self.S([(n, t) for n, t in s.items() if n not in names])

    def s_append(self, s, name, t):
        """TStruct.appendKey: assert(!fieldIdx.contains(key)); new field LAST"""
        if name in self.s_names(s):
            raise EngineRejects(f'appendKey: {name} is already a field of {s}')
        return self.S(list(s.items()) + [(name, t)])

    def s_update(self, s, name, t):
        """TStruct.updateKey: the field keeps its position"""
        if name not in self.s_names(s):
            raise EngineRejects(f'updateKey: {name} is not a field of {s}')
        return self.S([(n, t if n == name else t0) for n, t0 in s.items()])

    def s_delete(self, s, name):
        """TStruct.deleteKey: assert(fieldIdx.contains(key))"""
        if name not in self.s_names(s):
            raise EngineRejects(f'deleteKey: {name} is not a field of {s}')
        return self.S([(n, t) for n, t in s.items() if n != name])

    def s_insert_fields(self, s, pairs):
        """TStruct.insertFields: an existing name is replaced IN PLACE, a new name is appended; later duplicates see earlier ones
        (`fieldIdx` is the ORIGINAL struct's index: a name inserted twice that is not an original field is appended twice ->
        the TStruct constructor's uniqueness assertion fires)"""
        orig = self.s_names(s)
        ab = list(s.items())
        for name, t in pairs:
            if name in orig:
                ab[orig.index(name)] = (name, t)
            else:
                ab.append((name, t))
        return self.S(ab)

    def s_struct_insert(self, s, sig, path):
        """TStruct.structInsert(signature, path) = insert(signature, path)._1: walk `path`; an existing field is updated in place
        (updateKey), a missing one is appended (appendKey); an intermediate field that is not a struct is replaced by a struct"""
        path = list(path)
        if not path:
            raise EngineRejects('structInsert: empty path')
        name, rest = path[0], path[1:]
        existing = dict(s.items()).get(name)
        if rest:
            inner = existing if self.is_struct(existing) else self.S([])
            new = self.s_struct_insert(inner, sig, rest)
        else:
            new = sig
        if name in self.s_names(s):
            return self.s_update(s, name, new)
        return self.s_append(s, name, new)

    def s_rename(self, s, m):
        """TStruct.rename: names mapped, order kept (the TStruct constructor rejects duplicates)"""
        return self.S([(m.get(n, n), t) for n, t in s.items()])

    def s_field_option(self, s, path):
        """TStruct.fieldOption(path): descend through struct fields; None if anything is missing"""
        path = list(path)
        if not path:
            return None
        t = s
        for p in path:
            if not self.is_struct(t) or p not in self.s_names(t):
                return None
            t = self.s_field(t, p)
        return t

    def query_typed(self, s, path):
        """Type.queryTyped(path)._1: AnnotationPathException if a field is missing / the type is not a struct"""
        t = s
        for p in path:
            if not self.is_struct(t) or p not in self.s_names(t):
                raise EngineRejects(f'struct has no field {p}')
            t = self.s_field(t, p)
        return t

    def container_elt(self, t, what):
        """tcoerce[TContainer](t).elementType / TIterable.elementType(t)"""
        hl = self.hl
        if isinstance(t, (hl.tarray, hl.tset, hl.tstream)):
            return t.element_type
        if isinstance(t, hl.tdict):
            # TDict.elementType = TStruct("key" -> keyType, "value" -> valueType)
            return self.S([('key', t.key_type), ('value', t.value_type)])
        raise EngineRejects(f'{what}: {t} is not a container')

    # ---------------------------------------------------------------------------------------------
    # TableType.scala / MatrixType.scala
    # ---------------------------------------------------------------------------------------------
    def T(self, row, key, globals_):
        """case class TableType(rowType, key, globalType): every key field must be a row field"""
        key = list(key)
        self.need_struct(row, 'row type')
        self.need_struct(globals_, 'global type')
        for k in key:
            if k not in self.s_names(row):
                raise EngineRejects(f'key field {k} not in row type: {row}')
        return RefT(row, key, globals_)

    def M(self, globals_, col_key, col, row_key, row, entry):
        """case class MatrixType(...): assert colKey subset of colType fields, rowKey subset of rowType fields"""
        col_key, row_key = list(col_key), list(row_key)
        for t, what in ((globals_, 'global'), (col, 'col'), (row, 'row'), (entry, 'entry')):
            self.need_struct(t, what + ' type')
        for k in col_key:
            if k not in self.s_names(col):
                raise EngineRejects(f'col key {col_key}: {col}')
        for k in row_key:
            if k not in self.s_names(row):
                raise EngineRejects(f'row key {row_key}: {row}')
        return RefM(globals_, col_key, col, row_key, row, entry)

    def key_type(self, row, key):
        """TableType.keyType(ts, key) = ts.typeAfterSelect(key.map(ts.fieldIdx)): key fields in KEY order"""
        return self.s_select(row, key)

    def value_type(self, row, key):
        """TableType.valueType(ts, key) = ts.filterSet(key.toSet, include = false)._1: the rest in ROW order"""
        return self.s_filter_out(row, key)

    # ---------------------------------------------------------------------------------------------
    # InferType.scala along the struct spine
    # ---------------------------------------------------------------------------------------------
    def vtype(self, x, env, _memo=None):
        """type the engine infers for value IR `x`; `env` maps the names the enclosing relational node binds to the engine's types"""
        if _memo is None:
            _memo = {}
        k = (id(x), id(env))
        if k in _memo:
            return _memo[k]
        r = self._vtype(x, env, _memo)
        _memo[k] = r
        return r

    def _py_type(self, x):
        t = x.typ
        if t is None:
            raise NotTranscribed(f'untyped {type(x).__name__}')
        return t

    def _vtype(self, x, env, memo):
        ir = self.ir
        if isinstance(x, ir.Join):                                   # front-end bookkeeping only: renders as its virtual_ir
            return self.vtype(x.virtual_ir, env, memo)
        if isinstance(x, ir.ProjectedTopLevelReference):            # renders as (GetField f (Ref name))
            base = env.get(x.ref.name)
            if base is None:
                return self._py_type(x)
            return self.s_field(self.need_struct(base, 'GetField'), x.field)
        if isinstance(x, ir.SelectedTopLevelReference):             # renders as (SelectFields (f ...) (Ref name))
            base = env.get(x.ref.name)
            if base is None:
                return self._py_type(x)
            return self.s_select(self.need_struct(base, 'SelectFields'), x.fields)
        if isinstance(x, ir.Ref):                                    # case Ref(_, t) => t ; t comes from the binder
            t = env.get(x.name)
            return t if t is not None else self._py_type(x)
        if isinstance(x, ir.Let):                                    # case Block(_, body) => body.typ
            env2 = dict(env)
            env2[x.name] = self.vtype(x.value, env, memo)
            return self.vtype(x.body, env2, memo)
        if isinstance(x, ir.InsertFields):
            old = self.need_struct(self.vtype(x.old, env, memo), 'InsertFields')
            s = self.s_insert_fields(old, [(f, self.vtype(v, env, memo)) for f, v in x.fields])
            if x.field_order is not None:
                # fieldOrder.map { fds => assert(fds.length == s.size); TStruct(fds.map(f => f -> s.fieldType(f))) }
                # (the Python node tests `if self.field_order:` -- an empty list counts as absent there; the renderer writes
                #  the empty list as "()" which the parser reads as Some(empty): only reachable for an empty struct)
                if len(x.field_order) != len(s):
                    raise EngineRejects(f'InsertFields: field order {x.field_order} != {s}')
                s = self.s_select(s, x.field_order)
            return s
        if isinstance(x, ir.SelectFields):
            return self.s_select(self.need_struct(self.vtype(x.old, env, memo), 'SelectFields'), x.fields)
        if isinstance(x, ir.MakeStruct):
            return self.S([(f, self.vtype(v, env, memo)) for f, v in x.fields])
        if isinstance(x, ir.GetField):
            o = self.vtype(x.o, env, memo)
            return self.s_field(self.need_struct(o, 'GetField'), x.name)
        if isinstance(x, ir.TableGetGlobals):                        # case TableGetGlobals(child) => child.typ.globalType
            return self.rtype(x.child).globals
        if isinstance(x, ir.TableCollect):                           # TStruct("rows" -> TArray(rowType), "global" -> globalType)
            c = self.rtype(x.child)
            return self.S([('rows', self.hl.tarray(c.row)), ('global', c.globals)])
        return self._py_type(x)

    # ---------------------------------------------------------------------------------------------
    # driver
    # ---------------------------------------------------------------------------------------------
    def from_py(self, typ):
        if isinstance(typ, self.hl.ttable):
            return RefT(typ.row_type, list(typ.row_key), typ.global_type)
        return RefM(typ.global_type, list(typ.col_key), typ.col_type, list(typ.row_key), typ.row_type, typ.entry_type)

    def diff(self, ref, other):
        """names of the parts in which two RefT / RefM differ (order of struct fields included)"""
        hl = self.hl
        out = []
        for part in ref._fields:
            a, b = getattr(ref, part), getattr(other, part)
            if part in ('key', 'row_key', 'col_key'):
                if list(a) != list(b):
                    out.append(part)
            elif canon(hl, a) != canon(hl, b):
                out.append(part)
        return out

    def is_relational(self, x):
        return isinstance(x, (self.ir.TableIR, self.ir.MatrixIR))

    def visit(self, x, _seen=None):
        """evaluate every relational node reachable from `x` (value or relational IR)"""
        if _seen is None:
            _seen = set()
        if id(x) in _seen:
            return
        _seen.add(id(x))
        if self.is_relational(x):
            self.rtype(x)
            return
        for ch in x.children:
            if isinstance(ch, self.ir.BaseIR):
                self.visit(ch, _seen)

    def rtype(self, x):
        """reference type of relational node `x`: the transcribed rule applied to the children's reference types; where the
        Python node disagrees a finding is recorded ONCE (at its origin) and evaluation continues from the Python type; a node
        without transcription is recorded and passes its Python type upwards unjudged"""
        m = self.memo.get(id(x))
        if m is not None:
            return m[1]
        cls = type(x).__name__
        # children first (also those inside value-IR children that the rule itself never looks at)
        seen = set()
        for ch in x.children:
            if isinstance(ch, self.ir.BaseIR):
                self.visit(ch, seen)
        try:
            py = self.from_py(x.typ)
        except Exception as err:  # the Python rule itself needs the engine (TableRead ...)
            self.seen('relational_rule_not_transcribed', f'{cls} (python type unavailable: {type(err).__name__})')
            self.memo[id(x)] = (x, None)
            return None
        rule = self.RULES.get(cls)
        ref = None
        if rule is None:
            self.seen('relational_rule_not_transcribed', cls)
            self.count('relational_rule_skipped')
        else:
            try:
                ref = rule(x)
            except NotTranscribed as err:
                self.seen('relational_rule_not_transcribed', f'{cls} ({err})')
                self.count('relational_rule_skipped')
            except EngineRejects as err:
                self.count('relational_rule_checked')
                self.count('relational_rule_checked:' + cls)
                self.seen('relational_rule_classes_checked', cls)
                self.findings.append((cls, ['rejected'], f'{cls}: the engine rule rejects this node ({str(err)[:300]}) but the front end typed it {x.typ}', x))
                self.memo[id(x)] = (x, py)
                return py
        if ref is None:
            self.memo[id(x)] = (x, py)
            return py
        self.count('relational_rule_checked')
        self.count('relational_rule_checked:' + cls)
        self.seen('relational_rule_classes_checked', cls)
        parts = self.diff(ref, py)
        if parts:
            msg = '; '.join(f'{p}: engine rule gives {self._show(getattr(ref, p))}, the Python node says {self._show(getattr(py, p))}' for p in parts)
            self.findings.append((cls, parts, f'{cls}.typ differs from the engine rule in {"/".join(parts)} -- {msg}', x))
            ref = py
        self.memo[id(x)] = (x, ref)
        return ref

    @staticmethod
    def _show(v):
        return str(v)[:400]

    def child(self, c):
        r = self.rtype(c)
        if r is None:
            raise NotTranscribed('child type unavailable')
        return r

    def was_judged(self, x):
        """the node's own rule was evaluated (its memoized type is a judged one)"""
        return type(x).__name__ in self.RULES and self.memo.get(id(x), (None, None))[1] is not None

    # ---------------------------------------------------------------------------------------------
    # TableIR.scala
    # ---------------------------------------------------------------------------------------------
    def _r_TableRange(self, x):
        hl = self.hl          # TableType(TStruct("idx" -> TInt32), ArraySeq("idx"), TStruct.empty)
        return self.T(self.S([('idx', hl.tint32)]), ['idx'], self.S([]))

    def _r_TableParallelize(self, x):
        t = self.need_struct(self.vtype(x.rows_and_global, {}), 'rowsAndGlobal')
        rows = self.s_field(t, 'rows')
        if not isinstance(rows, self.hl.tarray):
            raise EngineRejects(f'rows is {rows}')
        return self.T(self.need_struct(rows.element_type, 'rows element'), [], self.need_struct(self.s_field(t, 'global'), 'global'))

    def _r_TableKeyBy(self, x):                 # child.typ.copy(key = keys)
        c = self.child(x.child)
        return self.T(c.row, list(x.keys), c.globals)

    def _same_as_child(self, x):                # override def typ: TableType = child.typ
        return self.child(x.child)

    _r_TableFilter = _r_TableHead = _r_TableTail = _r_TableRepartition = _r_TableDistinct = _r_TableFilterIntervals = _same_as_child

    # ---- TypeCheck.scala: agreement of the children of nodes with several relational children -------------------
    def same(self, a, b):
        """Type == Type (struct field names, order and types)"""
        return canon(self.hl, a) == canon(self.hl, b)

    def compatible(self, a, b):
        """TBaseStruct.isCompatibleWith: forallZippedFields(other)(_.typ == _.typ) -- positional, names ignored, the shorter length"""
        return all(self.same(t1, t2) for (_, t1), (_, t2) in zip(a.items(), b.items()))

    def nary(self, x, children):
        """counters: the agreement rule of an n-ary node was evaluated; ... over children that are not all one and the same node
        (where a disagreement can show at all); ... over three or more children"""
        cls = type(x).__name__
        self.count('nary_children_rule_checked')
        self.count('nary_children_rule_checked:' + cls)
        if len({id(c) for c in children}) > 1:
            self.count('nary_children_rule_checked_distinct_children:' + cls)
        if len(children) > 2:
            self.count('nary_children_rule_checked_3plus_children:' + cls)

    def _r_TableUnion(self, x):                 # childrenSeq(0).typ
        cs = [self.child(c) for c in x.children]
        self.nary(x, list(x.children))
        # TypeCheck.scala: assert(childrenSeq.tail.forall(_.typ.rowType == childrenSeq(0).typ.rowType));
        #                  assert(childrenSeq.tail.forall(_.typ.key == childrenSeq(0).typ.key))
        for i, c in enumerate(cs[1:], 1):
            if not self.same(c.row, cs[0].row):
                raise EngineRejects(f'TableUnion: row type of child {i} is {c.row}, of child 0 {cs[0].row}')
            if list(c.key) != list(cs[0].key):
                raise EngineRejects(f'TableUnion: key of child {i} is {c.key}, of child 0 {cs[0].key}')
        return cs[0]

    def _r_TableJoin(self, x):
        l, r = self.child(x.left), self.child(x.right)
        jk = x.join_key
        # TypeCheck.scala: key lengths >= joinKey; left.keyType.truncate(joinKey) isJoinableWith right.keyType.truncate(joinKey)
        # (same size, positionally equal types); global field names disjoint
        if len(l.key) < jk or len(r.key) < jk:
            raise EngineRejects(f'TableJoin: join key {jk} longer than a key ({l.key}, {r.key})')
        if not self.compatible(self.key_type(l.row, l.key[:jk]), self.key_type(r.row, r.key[:jk])):
            raise EngineRejects(f'TableJoin: keys not joinable: {self.key_type(l.row, l.key[:jk])} / {self.key_type(r.row, r.key[:jk])}')
        left_key, right_key = l.key[:jk], r.key[:jk]
        left_key_type = self.key_type(l.row, left_key)
        left_value_type = self.value_type(l.row, left_key)
        right_value_type = self.value_type(r.row, right_key)
        if set(self.s_names(left_value_type)) & set(self.s_names(right_value_type)):
            raise EngineRejects(f'invalid join: left value {left_value_type} right value {right_value_type}')
        new_row = self.s_concat(self.s_concat(left_key_type, left_value_type), right_value_type)
        return self.T(new_row, l.key + r.key[jk:], self.s_concat(l.globals, r.globals))

    def _r_TableIntervalJoin(self, x):          # left.typ.copy(rowType = left.typ.rowType.appendKey(root, rightType))
        l, r = self.child(x.left), self.child(x.right)
        rv = self.value_type(r.row, r.key)
        return self.T(self.s_append(l.row, x.root, self.hl.tarray(rv) if x.product else rv), l.key, l.globals)

    def _r_TableMultiWayZipJoin(self, x):
        cs = [self.child(c) for c in x.children]
        self.nary(x, list(x.children))
        # TypeCheck.scala: "all rows must have the same type", "all keys must be the same", "all globals must have the same type"
        for i, c in enumerate(cs[1:], 1):
            if not self.same(c.row, cs[0].row):
                raise EngineRejects(f'TableMultiWayZipJoin: row type of child {i} is {c.row}, of child 0 {cs[0].row}')
            if list(c.key) != list(cs[0].key):
                raise EngineRejects(f'TableMultiWayZipJoin: key of child {i} is {c.key}, of child 0 {cs[0].key}')
            if not self.same(c.globals, cs[0].globals):
                raise EngineRejects(f'TableMultiWayZipJoin: globals of child {i} are {c.globals}, of child 0 {cs[0].globals}')
        f = cs[0]
        hl = self.hl
        new_global = self.S([(x.global_name, hl.tarray(f.globals))])
        new_value = self.S([(x.data_name, hl.tarray(self.value_type(f.row, f.key)))])
        return self.T(self.s_concat(self.key_type(f.row, f.key), new_value), f.key, new_global)

    def _r_TableLeftJoinRightDistinct(self, x):  # left.typ.copy(rowType = left.rowType.structInsert(right.typ.valueType, FastSeq(root)))
        l, r = self.child(x.left), self.child(x.right)
        # TypeCheck.scala: assert(right.typ.keyType isPrefixOf left.typ.keyType)   (size <=, positionally equal types)
        if len(r.key) > len(l.key) or not self.compatible(self.key_type(r.row, r.key), self.key_type(l.row, l.key)):
            raise EngineRejects(f'TableLeftJoinRightDistinct: right key {self.key_type(r.row, r.key)} is not a prefix of the left key {self.key_type(l.row, l.key)}')
        return self.T(self.s_struct_insert(l.row, self.value_type(r.row, r.key), [x.root]), l.key, l.globals)

    def _r_TableMapPartitions(self, x):         # child.typ.copy(rowType = body.typ.asInstanceOf[TStream].elementType.asInstanceOf[TStruct])
        c = self.child(x.child)
        bt = self._py_type(x.body)
        if not isinstance(bt, self.hl.tstream):
            raise EngineRejects(f'body is {bt}')
        return self.T(self.need_struct(bt.element_type, 'body element'), c.key, c.globals)

    def _r_TableMapRows(self, x):               # child.typ.copy(rowType = newRow.typ.asInstanceOf[TStruct])
        c = self.child(x.child)
        return self.T(self.need_struct(self.vtype(x.new_row, {'row': c.row, 'global': c.globals}), 'newRow'), c.key, c.globals)

    def _r_TableMapGlobals(self, x):            # child.typ.copy(globalType = newGlobals.typ.asInstanceOf[TStruct])
        c = self.child(x.child)
        return self.T(c.row, c.key, self.need_struct(self.vtype(x.new_globals, {'global': c.globals}), 'newGlobals'))

    def _r_TableExplode(self, x):
        c = self.child(x.child)
        elt = self.container_elt(self.query_typed(c.row, x.path), 'TableExplode')
        return self.T(self.s_struct_insert(c.row, elt, x.path), c.key, c.globals)

    def _r_MatrixRowsTable(self, x):            # child.typ.rowsTableType = TableType(rowType, rowKey, globalType)
        c = self.child(x.child)
        return self.T(c.row, c.row_key, c.globals)

    def _r_MatrixColsTable(self, x):            # child.typ.colsTableType = TableType(colType, colKey, globalType)
        c = self.child(x.child)
        return self.T(c.col, c.col_key, c.globals)

    def _r_MatrixEntriesTable(self, x):         # entriesTableType: TStruct(rowType.fields ++ colType.fields ++ entryType.fields), rowKey ++ colKey
        c = self.child(x.child)
        return self.T(self.S(list(c.row.items()) + list(c.col.items()) + list(c.entry.items())), c.row_key + c.col_key, c.globals)

    def _r_TableKeyByAndAggregate(self, x):     # TableType(rowType = keyType ++ expr.typ, globalType = child.globalType, key = keyType.fieldNames)
        c = self.child(x.child)
        env = {'row': c.row, 'global': c.globals}
        key_type = self.need_struct(self.vtype(x.new_key, env), 'newKey')
        return self.T(self.s_concat(key_type, self.need_struct(self.vtype(x.expr, env), 'expr')), self.s_names(key_type), c.globals)

    def _r_TableAggregateByKey(self, x):        # child.typ.copy(rowType = child.typ.keyType ++ expr.typ)
        c = self.child(x.child)
        e = self.need_struct(self.vtype(x.expr, {'row': c.row, 'global': c.globals}), 'expr')
        return self.T(self.s_concat(self.key_type(c.row, c.key), e), c.key, c.globals)

    def _r_TableOrderBy(self, x):               # child.typ.copy(key = FastSeq())
        c = self.child(x.child)
        return self.T(c.row, [], c.globals)

    def _r_CastMatrixToTable(self, x):          # child.typ.toTableType(entriesFieldName, colsFieldName)
        c = self.child(x.child)
        hl = self.hl
        return self.T(self.s_append(c.row, x.entries_field_name, hl.tarray(c.entry)), c.row_key,
                      self.s_append(c.globals, x.cols_field_name, hl.tarray(c.col)))

    def _r_TableRename(self, x):
        c = self.child(x.child)
        return self.T(self.s_rename(c.row, x.row_map), [x.row_map.get(k, k) for k in c.key], self.s_rename(c.globals, x.global_map))

    def _r_TableToTableApply(self, x):
        if x.config.get('name') == 'TableFilterPartitions':       # TableFilterPartitions.typ(childType) = childType
            return self.child(x.child)
        raise NotTranscribed('function ' + str(x.config.get('name')))

    # ---------------------------------------------------------------------------------------------
    # MatrixIR.scala
    # ---------------------------------------------------------------------------------------------
    def _r_MatrixRead(self, x):
        hl = self.hl
        if type(x.reader).__name__ == 'MatrixRangeReader' and x.drop_row_uids and x.drop_col_uids:
            # MatrixRangeReader.fullMatrixTypeWithoutUIDs
            return self.M(self.S([]), ['col_idx'], self.S([('col_idx', hl.tint32)]), ['row_idx'], self.S([('row_idx', hl.tint32)]), self.S([]))
        if type(x.reader).__name__ == 'MatrixRangeReader':
            # Parser.scala "MatrixRead": requested type = reader.fullMatrixType (MatrixReader.fullMatrixType: rowType.appendKey(
            # rowUIDFieldName = "__row_uid", rowUIDType = TInt64), colType.appendKey(colUIDFieldName = "__col_uid", colUIDType = TInt64))
            # with deleteKey of the uid field(s) named by DropRowUIDs / DropColUIDs
            row = self.S([('row_idx', hl.tint32)])
            col = self.S([('col_idx', hl.tint32)])
            if not x.drop_row_uids:
                row = self.s_append(row, '__row_uid', hl.tint64)
            if not x.drop_col_uids:
                col = self.s_append(col, '__col_uid', hl.tint64)
            return self.M(self.S([]), ['col_idx'], col, ['row_idx'], row, self.S([]))
        raise NotTranscribed('reader ' + type(x.reader).__name__)

    def _msame_as_child(self, x):
        return self.child(x.child)

    _r_MatrixFilterCols = _r_MatrixFilterRows = _r_MatrixChooseCols = _r_MatrixFilterEntries = _r_MatrixRepartition = _msame_as_child
    _r_MatrixDistinctByRow = _r_MatrixRowsHead = _r_MatrixColsHead = _r_MatrixRowsTail = _r_MatrixColsTail = _r_MatrixFilterIntervals = _msame_as_child

    def _r_MatrixUnionRows(self, x):            # childrenSeq.head.typ
        cs = [self.child(c) for c in x.children]
        self.nary(x, list(x.children))
        # TypeCheck.scala compatible(t1, t2): colKeyStruct ==, rowType ==, rowKey ==, entryType ==
        f = cs[0]
        for i, c in enumerate(cs[1:], 1):
            if not self.same(self.s_select(c.col, c.col_key), self.s_select(f.col, f.col_key)):
                raise EngineRejects(f'MatrixUnionRows: col key struct of child {i} is {self.s_select(c.col, c.col_key)}, of child 0 {self.s_select(f.col, f.col_key)}')
            if not self.same(c.row, f.row):
                raise EngineRejects(f'MatrixUnionRows: row type of child {i} is {c.row}, of child 0 {f.row}')
            if list(c.row_key) != list(f.row_key):
                raise EngineRejects(f'MatrixUnionRows: row key of child {i} is {c.row_key}, of child 0 {f.row_key}')
            if not self.same(c.entry, f.entry):
                raise EngineRejects(f'MatrixUnionRows: entry type of child {i} is {c.entry}, of child 0 {f.entry}')
        return f

    def _menv(self, c):
        return {'global': c.globals, 'va': c.row, 'sa': c.col, 'g': c.entry}

    def _r_MatrixCollectColsByKey(self, x):
        c = self.child(x.child)
        hl = self.hl
        col_key_struct = self.s_select(c.col, c.col_key)
        col_value_struct = self.s_filter_out(c.col, c.col_key)
        new_col_value = self.S([(n, hl.tarray(t)) for n, t in col_value_struct.items()])
        new_entry = self.S([(n, hl.tarray(t)) for n, t in c.entry.items()])
        return self.M(c.globals, c.col_key, self.s_concat(col_key_struct, new_col_value), c.row_key, c.row, new_entry)

    def _r_MatrixAggregateRowsByKey(self, x):   # rowType = rowKeyStruct ++ rowExpr.typ, entryType = entryExpr.typ
        c = self.child(x.child)
        env = self._menv(c)
        row = self.s_concat(self.s_select(c.row, c.row_key), self.need_struct(self.vtype(x.row_expr, env), 'rowExpr'))
        return self.M(c.globals, c.col_key, c.col, c.row_key, row, self.need_struct(self.vtype(x.entry_expr, env), 'entryExpr'))

    def _r_MatrixAggregateColsByKey(self, x):   # entryType = entryExpr.typ, colType = colKeyStruct ++ colExpr.typ
        c = self.child(x.child)
        env = self._menv(c)
        col = self.s_concat(self.s_select(c.col, c.col_key), self.need_struct(self.vtype(x.col_expr, env), 'colExpr'))
        return self.M(c.globals, c.col_key, col, c.row_key, c.row, self.need_struct(self.vtype(x.entry_expr, env), 'entryExpr'))

    def _r_MatrixUnionCols(self, x):
        l, r = self.child(x.left), self.child(x.right)
        self.nary(x, [x.left, x.right])
        # TypeCheck.scala: rowKeyStruct ==, colType ==, entryType ==
        if not self.same(self.s_select(l.row, l.row_key), self.s_select(r.row, r.row_key)):
            raise EngineRejects(f'MatrixUnionCols: row key structs {self.s_select(l.row, l.row_key)} != {self.s_select(r.row, r.row_key)}')
        if not self.same(l.col, r.col):
            raise EngineRejects(f'MatrixUnionCols: col types {l.col} != {r.col}')
        if not self.same(l.entry, r.entry):
            raise EngineRejects(f'MatrixUnionCols: entry types {l.entry} != {r.entry}')
        left_key_type = self.s_select(l.row, l.row_key)              # left.typ.rowKeyStruct
        left_value_type = self.s_filter_out(l.row, l.row_key)        # left.typ.rowValueStruct
        right_value_type = self.s_filter_out(r.row, r.row_key)
        if set(self.s_names(left_value_type)) & set(self.s_names(right_value_type)):
            raise EngineRejects(f'invalid MatrixUnionCols: left value {left_value_type} right value {right_value_type}')
        new_row = self.s_concat(self.s_concat(left_key_type, left_value_type), right_value_type)
        # inner: left.typ.copy(rowType = newRowType); outer: the same with col / entry fields copied unchanged
        return self.M(l.globals, l.col_key, l.col, l.row_key, new_row, l.entry)

    def _r_MatrixMapEntries(self, x):           # child.typ.copy(entryType = newEntries.typ)
        c = self.child(x.child)
        return self.M(c.globals, c.col_key, c.col, c.row_key, c.row, self.need_struct(self.vtype(x.new_entry, self._menv(c)), 'newEntries'))

    def _r_MatrixKeyRowsBy(self, x):            # child.typ.copy(rowKey = keys)
        c = self.child(x.child)
        return self.M(c.globals, c.col_key, c.col, list(x.keys), c.row, c.entry)

    def _r_MatrixMapRows(self, x):              # child.typ.copy(rowType = newRow.typ)
        c = self.child(x.child)
        return self.M(c.globals, c.col_key, c.col, c.row_key, self.need_struct(self.vtype(x.new_row, self._menv(c)), 'newRow'), c.entry)

    def _r_MatrixMapCols(self, x):              # child.typ.copy(colKey = newKey.getOrElse(child.typ.colKey), colType = newCol.typ)
        c = self.child(x.child)
        new_key = list(x.new_key) if x.new_key is not None else c.col_key
        return self.M(c.globals, new_key, self.need_struct(self.vtype(x.new_col, self._menv(c)), 'newCol'), c.row_key, c.row, c.entry)

    def _r_MatrixMapGlobals(self, x):           # child.typ.copy(globalType = newGlobals.typ)
        c = self.child(x.child)
        return self.M(self.need_struct(self.vtype(x.new_global, {'global': c.globals}), 'newGlobals'), c.col_key, c.col, c.row_key, c.row, c.entry)

    def _r_MatrixAnnotateColsTable(self, x):    # colType = child.colType.structInsert(table.typ.valueType, FastSeq(root))
        c, t = self.child(x.child), self.child(x.table)
        return self.M(c.globals, c.col_key, self.s_struct_insert(c.col, self.value_type(t.row, t.key), [x.root]), c.row_key, c.row, c.entry)

    def _r_MatrixAnnotateRowsTable(self, x):    # rowType = child.rowType.appendKey(root, annotationType)
        c, t = self.child(x.child), self.child(x.table)
        v = self.value_type(t.row, t.key)
        return self.M(c.globals, c.col_key, c.col, c.row_key, self.s_append(c.row, x.root, self.hl.tarray(v) if x.product else v), c.entry)

    def _r_MatrixExplodeRows(self, x):
        c = self.child(x.child)
        f = self.s_field_option(c.row, x.path)
        if f is None:
            raise EngineRejects(f'No such row field at path {x.path} in matrix row type {c.row}')
        return self.M(c.globals, c.col_key, c.col, c.row_key, self.s_struct_insert(c.row, self.container_elt(f, 'MatrixExplodeRows'), x.path), c.entry)

    def _r_MatrixExplodeCols(self, x):
        c = self.child(x.child)
        f = self.s_field_option(c.col, x.path)
        if f is None:
            raise EngineRejects(f'No such column field at path {x.path} in matrix col type {c.col}')
        return self.M(c.globals, c.col_key, self.s_struct_insert(c.col, self.container_elt(f, 'MatrixExplodeCols'), x.path), c.row_key, c.row, c.entry)

    def _r_CastTableToMatrix(self, x):          # MatrixType.fromTableType(child.typ, colsFieldName, entriesFieldName, colKey)
        c = self.child(x.child)
        hl = self.hl
        cols = self.s_field(c.globals, x.cols_field_name)
        if not (isinstance(cols, hl.tarray) and self.is_struct(cols.element_type)):
            raise EngineRejects(f'expected cols field to be an array of structs, found {cols}')
        ents = self.s_field(c.row, x.entries_field_name)
        if not (isinstance(ents, hl.tarray) and self.is_struct(ents.element_type)):
            raise EngineRejects(f'entries field is {ents}')
        return self.M(self.s_delete(c.globals, x.cols_field_name), list(x.col_key), cols.element_type, c.key,
                      self.s_delete(c.row, x.entries_field_name), ents.element_type)

    def _r_MatrixRename(self, x):
        c = self.child(x.child)
        return self.M(self.s_rename(c.globals, x.global_map), [x.col_map.get(k, k) for k in c.col_key], self.s_rename(c.col, x.col_map),
                      [x.row_map.get(k, k) for k in c.row_key], self.s_rename(c.row, x.row_map), self.s_rename(c.entry, x.entry_map))

    def _r_MatrixToMatrixApply(self, x):
        if x.config.get('name') == 'MatrixFilterPartitions':      # MatrixFilterPartitions.typ(childType) = childType
            return self.child(x.child)
        raise NotTranscribed('function ' + str(x.config.get('name')))


# ---------------------------------------------------------------------------------------------------------------------
# Primitive operators of VALUE IR: an ABSOLUTE reference transcribed from the engine
#   hail/hail/src/is/hail/expr/ir/UnaryOp.scala        (object UnaryOp: returnType, fromString)
#   hail/hail/src/is/hail/expr/ir/BinaryOp.scala       (object BinaryOp: returnType, fromString)
#   hail/hail/src/is/hail/expr/ir/ComparisonOp.scala   (checkCompatible, fromString) + InferType / TypeCheck (Compare => TInt32, else TBoolean)
# The Python IR node's own `_compute_type` is the code under test here, not the reference.
# ---------------------------------------------------------------------------------------------------------------------
UNARY_OPS = {'-': 'Negate', 'Negate': 'Negate', '!': 'Bang', 'Bang': 'Bang', '~': 'BitNot', 'BitNot': 'BitNot', 'BitCount': 'BitCount'}
BINARY_OPS = {'+': 'Add', 'Add': 'Add', '-': 'Subtract', 'Subtract': 'Subtract', '*': 'Multiply', 'Multiply': 'Multiply',
              '/': 'FloatingPointDivide', 'FloatingPointDivide': 'FloatingPointDivide', '//': 'RoundToNegInfDivide', 'RoundToNegInfDivide': 'RoundToNegInfDivide',
              '|': 'BitOr', 'BitOr': 'BitOr', '&': 'BitAnd', 'BitAnd': 'BitAnd', '^': 'BitXOr', 'BitXOr': 'BitXOr',
              '<<': 'LeftShift', 'LeftShift': 'LeftShift', '>>': 'RightShift', 'RightShift': 'RightShift', '>>>': 'LogicalRightShift', 'LogicalRightShift': 'LogicalRightShift'}
COMPARISON_OPS = {'==': 'EQ', 'EQ': 'EQ', '!=': 'NEQ', 'NEQ': 'NEQ', '>=': 'GTEQ', 'GTEQ': 'GTEQ', '<=': 'LTEQ', 'LTEQ': 'LTEQ', '>': 'GT', 'GT': 'GT',
                  '<': 'LT', 'LT': 'LT', 'Compare': 'Compare'}


def unary_prim_type(hl, op, t):
    """UnaryOp.getReturnType(op, t); EngineRejects where the engine throws ("Cannot apply $op to values of type $t") or does not parse the op"""
    o = UNARY_OPS.get(op)
    if o is None:
        raise EngineRejects(f'unknown unary operator {op!r}')
    num, ints = (hl.tint32, hl.tint64, hl.tfloat32, hl.tfloat64), (hl.tint32, hl.tint64)
    if o == 'Negate' and t in num:          # case (Negate, t @ (TInt32 | TInt64 | TFloat32 | TFloat64)) => t
        return t
    if o == 'Bang' and t == hl.tbool:       # case (Bang, TBoolean) => TBoolean
        return hl.tbool
    if o == 'BitNot' and t in ints:         # case (BitNot, t @ (TInt32 | TInt64)) => t
        return t
    if o == 'BitCount' and t in ints:       # case (BitCount, TInt32 | TInt64) => TInt32
        return hl.tint32
    raise EngineRejects(f'Cannot apply {o} to values of type {t}')


def binary_prim_type(hl, op, l, r):
    """BinaryOp.getReturnType(op, l, r)"""
    o = BINARY_OPS.get(op)
    if o is None:
        raise EngineRejects(f'unknown binary operator {op!r}')
    ints, floats = (hl.tint32, hl.tint64), (hl.tfloat32, hl.tfloat64)
    if o == 'FloatingPointDivide' and l == r:
        if l in ints:                       # (FloatingPointDivide(), TInt32, TInt32) => TFloat64 ; TInt64 likewise
            return hl.tfloat64
        if l in floats:                     # TFloat32 => TFloat32 ; TFloat64 => TFloat64
            return l
    if o in ('Add', 'Subtract', 'Multiply', 'RoundToNegInfDivide') and l == r and l in ints + floats:
        return l
    if o in ('BitAnd', 'BitOr', 'BitXOr') and l == r and l in ints:
        return l
    if o in ('LeftShift', 'RightShift', 'LogicalRightShift') and l in ints and r == hl.tint32:   # (.., t @ (TInt32 | TInt64), TInt32) => t
        return l
    raise EngineRejects(f'Cannot apply {o} to {l} and {r}')


def comparison_type(hl, op, l, r):
    """ComparisonOp.checkCompatible(l, r) (lt != rt throws); InferType: Compare => TInt32, every other comparison => TBoolean"""
    o = COMPARISON_OPS.get(op)
    if o is None:
        raise EngineRejects(f'unknown comparison operator {op!r}')
    if canon(hl, l) != canon(hl, r):
        raise EngineRejects(f'Cannot compare types {l} and {r}')
    return hl.tint32 if o == 'Compare' else hl.tbool
