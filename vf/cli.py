import argparse
import sys

from vf.harness import run_check


def main():
    ap = argparse.ArgumentParser()
    ap.add_argument('pid')
    ap.add_argument('--tier', default=None)
    ap.add_argument('--seed', default=None)
    ap.add_argument('--replay', default=None)
    a = ap.parse_args()
    modname = 'vf.monitors.' + a.pid.lower()
    sys.exit(run_check(modname, a.tier, a.seed, a.replay))


if __name__ == '__main__':
    main()
