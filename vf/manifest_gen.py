"""Regenerates MANIFEST.json from the table below (keeps it schema-valid at all times)."""
import json
import os

VERIF = os.path.dirname(os.path.dirname(os.path.abspath(__file__)))

# pid -> (category, technique, level text, level note, design ref)
CHECKS = {}
NOT_APPLICABLE = {}


def check(pid, category, technique, text, note, ref=None):
    CHECKS[pid] = (category, technique, text, note, ref or f'DESIGN.md section 4 / {pid}')


def na(pid, reason):
    NOT_APPLICABLE[pid] = reason


from vf.manifest_table import declare  # noqa: E402

declare(check, na)


def main():
    props = [json.loads(l)['id'] for l in open(os.path.join(VERIF, 'properties.jsonl'))]
    checks = []
    for pid in props:
        if pid in CHECKS:
            cat, tech, text, note, ref = CHECKS[pid]
            checks.append({
                'property_id': pid,
                'quick_cmd': f'./check {pid} --tier quick',
                'thorough_cmd': f'./check {pid} --tier thorough',
                'evidence_file': f'/verif/evidence/{pid}.json',
                'replay_cmd_template': f'./check {pid} --replay {{path}}',
                'engine': 'vf',
                'level_claimed': {'category': cat, 'text': text, 'design_ref': ref},
                'level_note': note,
                'technique': tech,
            })
    nas = [{'property_id': pid, 'reason': NOT_APPLICABLE.get(pid, 'check not built yet in this session (planned, see DESIGN.md section 4)')}
           for pid in props if pid not in CHECKS]
    m = {
        'version': 1,
        'setup_cmd': './setup.sh',
        'hooks': {
            'guard': 'HAIL_VERIF',
            'enable': 'no hooks in /repo: all instrumentation attaches from /verif (wrappers, module-attribute redirection, the minimysql interpreter); HAIL_VERIF=1 is reserved',
            'baseline_off_cmd': 'cd /repo && /venv/bin/python -m pytest -ra -q -p no:cacheprovider --timeout=900 --continue-on-collection-errors',
            'source_commits': [],
            'add_only': True,
        },
        'engines': [{
            'name': 'vf', 'path': '/verif/vf', 'serves_properties': sorted(CHECKS),
            'kind_free_text': 'runtime monitoring: real repo code executed under generated/hostile workloads with oracles (invariant hooks, reference models, history checkers, icontract contracts); SQL executed by the in-tree minimysql interpreter; virtual-time asyncio loop',
        }],
        'checks': checks,
        'not_applicable': nas,
        'notes': 'exit codes: 0 held, 1 violation (VIOLATION line), 2 inconclusive (INCONCLUSIVE line). known_findings.json lists genuine defects by mechanism key. See DESIGN.md.',
    }
    with open(os.path.join(VERIF, 'MANIFEST.json'), 'w') as f:
        json.dump(m, f, indent=1)
        f.write('\n')
    print(f'{len(checks)} checks, {len(nas)} not_applicable')


if __name__ == '__main__':
    main()
