"""Shared generators for the Hail type/value monitors (C31..C34).

* hostile identifier pool (``gen_name``) -- every category the C31 design entry lists;
* random nested Hail types (``gen_type``), either "any printable type" (C31) or "types that have Python values" (C32/C33);
* type-directed values (``gen_value``): missing anywhere the API allows it, NaN / +-inf / -0.0, integer extremes,
  empty containers, containers of 8/9/16/17 elements (missing-byte boundaries), nested intervals, calls, loci,
  sets / dict keys built from hashable (frozen) variants only, n-d arrays in C / Fortran / strided layout with 0-length dims;
* NaN-aware, container-aware, type-directed equality (``veq``);
* backend-free reference genomes (``install_reference_backend``): real ``ReferenceGenome`` objects (``_builtin=True`` so
  the constructor never talks to a backend) registered in a tiny stand-in for ``Env._hc`` whose ``add_reference`` /
  ``get_reference`` are the *real* ``hail.backend.Backend`` methods.

Nothing here is an oracle: the module only builds inputs and compares values.  Import it after ``vf.bootstrap``.
"""
import math
import struct
from collections.abc import Mapping

# ------------------------------------------------------------------------------------------------
# names
# ------------------------------------------------------------------------------------------------
NAME_POOLS = {
    'ascii': ['a', 'b', 'x1', '_', '__', '_1', 'foo', 'GT', 'AD', 'info', 'f_0', 'A1b2', 'camelCase', 'key', 'value', 'start', 'end',
              'contig', 'position', 'includes_start', 'a' * 200],
    'keyword': ['int32', 'int', 'float', 'float64', 'str', 'struct', 'tuple', 'array', 'set', 'dict', 'locus', 'interval', 'ndarray',
                'call', 'bool', 'void', 'tint32', 'tstruct', 'True', 'False', 'None', 'nan', 'inf', 'neginf', 'Struct', 'Array', 'Int32',
                'Locus', 'class', 'def', 'self', '_fields', 'items', 'keys', 'annotate', 'nat', 'rng_state', 'stream'],
    'empty': [''],
    'space': [' ', 'a b', ' a', 'a ', '  ', '\t', '\n', 'a\nb', '\r', '\r\n', '\x0b', '\x0c', '\x00', 'a\x00b', '\x1f', '\x7f', '\x85',
              '\xa0', '\u2028', '\u3000', 'field with spaces'],
    'backtick': ['`', 'a`b', '``', '`a`', '\\`', '`\\', '`\\`', 'a`', '`a'],
    'backslash': ['\\', '\\\\', 'a\\b', '\\n', '\\x41', '\\u0041', '\\U0001F600', 'a\\', '\\a', '\\\\`', '\\N{DIGIT ONE}', '\\0'],
    'quote': ['"', "'", 'a"b', "a'b", '"a"', "'a'", '"""', '\\"', "\\'"],
    'punct': [':', ',', '{', '}', '<', '>', '(', ')', '[', ']', 'a:b', 'a,b', 'a-b', 'a.b', 'a/b', '+', '@', '=', '?', '?a', '#', '$',
              'a$b', '$a', '-inf', '-1', '1.5', 'a:int32', '}, b: int32', '>', 'a>b', '|', '!', '~', '%', '&', '*', ';'],
    'latin1': ['\u00e9', '\u00f1', 'a\u00e9', '\u00e9a', '\u00df', '\u00b5', 'a\u00b5', '\u00aa', 'a\u00aa', '\u00ba', '\u00ff', 'a\u00ff', '\u00d7', 'a\u00d7', '\xad', 'a\xad', '\u00c5', 'a\u00c5b'],
    'number_other': ['\u00b2', 'a\u00b2', '\u00b9', 'a\u00b9', '\u00bc', 'a\u00bc', 'a\u00bdb', '\u2460', 'a\u2460', '\u2082', 'a\u2082', 'a\u2070', 'a\u3220', 'x\u00b3y', 'a\u0bf0', 'a\u2189'],
    'bmp': ['\u03b1', 'a\u03b1', '\u0430', 'a\u0430', '\u4e2d', 'a\u4e2d', '\u01c6', 'a\u01c6', 'a\u02b0', 'a\u1f88', '\u0663', 'a\u0663', '\u2167', 'a\u2167', 'a\u203f', '\u203fa', '\u20ac', 'a\u20ac', '\ufeff', 'a\ufeff',
            'a\u200b', 'a\u200d', '\uffff', 'a\uffff', '\ufffd', '\uff41', 'a\uff41', 'a\u0e01', 'a\uac00', 'a\u05d0', 'a\u0660', 'a\u3007', 'a\u16ee'],
    'astral': ['\U0001f600', 'a\U0001f600', '\U0001d41a', 'a\U0001d41a', 'a\U0001d7d8', '\U00010330', 'a\U00010330', '\U00010000', 'a\U00010000', '\U0010ffff', 'a\U0010ffff', 'a\U0001f004', 'a\U00020000',
               'a\U0001d7ce', 'a\U00010140', 'a\U0001f100', 'a\U000e0100'],
    'combining': ['a\u0301', '\u0301', 'e\u0301\u0323', 'a\u20dd', '\u0915\u094d\u0937', 'a\u093e', 'a\u0300b', 'n\u0303', 'a\u0483', 'a\ufe0f'],
    'digits_first': ['0', '1kg', '1', '00', '1_000', '9a', '\u0663a', '\u00b2a', '0x1', '1e5', '007', '1a\u00b2'],
    'surrogate': ['\ud800', 'a\ud800', '\udc00', 'a\udfff', '\udc00\ud800'],
}
NAME_CATEGORIES = sorted(NAME_POOLS) + ['random']

_RANDOM_RANGES = [
    (0x00, 0x20), (0x20, 0x7f), (0x7f, 0xa0), (0xa0, 0x100), (0x100, 0x250), (0x2b0, 0x370), (0x370, 0x530), (0x590, 0x700),
    (0x900, 0xa00), (0x2000, 0x2070), (0x2070, 0x20a0), (0x20a0, 0x20d0), (0x20d0, 0x2100), (0x2150, 0x2190), (0x2460, 0x2500),
    (0x3000, 0x3040), (0x3040, 0x3100), (0x4e00, 0x4f00), (0xa000, 0xa100), (0xe000, 0xe010), (0xfe00, 0xfe10), (0xff00, 0xfff0),
    (0x10000, 0x10100), (0x10140, 0x10190), (0x1d400, 0x1d800), (0x1f100, 0x1f110), (0x1f600, 0x1f650), (0x20000, 0x20100), (0xe0100, 0xe0110),
]


def random_char(rng, allow_surrogates=False):
    while True:
        lo, hi = rng.choice(_RANDOM_RANGES)
        c = rng.randrange(lo, hi)
        if 0xD800 <= c <= 0xDFFF and not allow_surrogates:
            continue
        return chr(c)


_JOINED = __import__('re').compile('[\ud800-\udbff][\udc00-\udfff]')


def gen_name(rng, allow_surrogates=True):
    """-> (name, category).  Never a high surrogate directly followed by a low one: for a JVM that *is* the astral
    character, so such a Python string is not a distinct name."""
    while True:
        s, cat = _gen_name(rng, allow_surrogates)
        if not _JOINED.search(s):
            return s, cat


def _gen_name(rng, allow_surrogates=True):
    while True:
        cat = rng.choice(NAME_CATEGORIES)
        if cat == 'random':
            n = rng.choice([1, 1, 2, 2, 3, 4, 6])
            s = ''.join(random_char(rng) for _ in range(n))
            if rng.random() < 0.5:
                s = rng.choice(['a', '_', 'A', 'z9']) + s
            return s, cat
        if cat == 'surrogate' and not allow_surrogates:
            continue
        s = rng.choice(NAME_POOLS[cat])
        if rng.random() < 0.1:
            s2, _ = _gen_name(rng, allow_surrogates)
            s = s + s2
            cat = cat + '+mix'
        return s, cat


def gen_field_names(rng, n, allow_surrogates=True):
    names, cats = [], []
    guard = 0
    while len(names) < n:
        s, c = gen_name(rng, allow_surrogates)
        guard += 1
        if s in names:
            if guard > 200:
                s = s + str(len(names))
            else:
                continue
        names.append(s)
        cats.append(c)
    return names, cats


# ------------------------------------------------------------------------------------------------
# backend-free reference genomes
# ------------------------------------------------------------------------------------------------
RG_NAMES = ['GRCh37', 'GRCh38', 'tiny', 'my ref', 'ref-1', '1kg', 'r\u00e9f', 'ref\u00b2', 'locus', 'a`b', 'a\\b', '\u4e2d\u6587', 'r\U0001f600', 'a\U0001d41a', '', 'a\u0301', 'x"y', "it's"]
_CONTIGS = ['1', '2', 'X', 'chrM', 'weird contig', '\u00e9', '']
_LENGTHS = {'1': 1000, '2': 500, 'X': 300, 'chrM': 16569, 'weird contig': 10, '\u00e9': 7, '': 3}

_installed = {}


def install_reference_backend():
    """Install a stand-in for ``Env._hc`` that only knows how to register / look up reference genomes.

    ``hl.get_reference(name)`` (used by ``tlocus(str)``, ``Locus(..., str)`` and ``dtype('locus<...>')``) then resolves
    without starting an engine.  Returns the dict name -> ReferenceGenome."""
    if _installed:
        return _installed['rgs']
    from hail.backend.backend import Backend
    from hail.genetics.reference_genome import ReferenceGenome
    from hail.utils.java import Env

    class RefOnlyBackend:
        # the real registration code of hail.backend.Backend, nothing else
        add_reference = Backend.add_reference
        get_reference = Backend.get_reference
        remove_reference = Backend.remove_reference
        _add_reference_to_scala_backend = Backend._add_reference_to_scala_backend
        _remove_reference_from_scala_backend = Backend._remove_reference_from_scala_backend

        def __init__(self):
            self._references = {}

    class RefOnlyContext:
        def __init__(self, backend):
            self._backend = backend
            self._default_ref = None

        @property
        def default_reference(self):
            return self._default_ref

    backend = RefOnlyBackend()
    hc = RefOnlyContext(backend)
    Env._hc = hc
    rgs = {}
    _installed['rgs'] = rgs
    _installed['backend'] = backend
    for name in RG_NAMES:
        ensure_rg(name)
    hc._default_ref = rgs['GRCh37']
    return rgs


def ensure_rg(name):
    """A real ReferenceGenome called `name` (created + registered on first use)."""
    from hail.genetics.reference_genome import ReferenceGenome

    rgs = _installed['rgs']
    if name not in rgs:
        rg = ReferenceGenome(name, list(_CONTIGS), dict(_LENGTHS), x_contigs=['X'], mt_contigs=['chrM'], _builtin=True)
        _installed['backend'].add_reference(rg)
        rgs[name] = rg
    return rgs[name]


# ------------------------------------------------------------------------------------------------
# types
# ------------------------------------------------------------------------------------------------
def gen_type(rng, depth=4, mode='any', hashable=False, stats=None, loci=True, allow_surrogates=True):
    """Random Hail type of nesting depth <= `depth`.

    mode 'any'   : every type that has a printed form (incl. void, stream, rng_state, ndarray of anything) -- C31.
    mode 'value' : only types that have Python values; ndarray elements numeric; below a set element / dict key
                   (`hashable=True`) no ndarray (numpy arrays are not hashable)."""
    import hail.expr.types as T

    def note(k):
        if stats is not None:
            stats[k] = stats.get(k, 0) + 1

    prims = [T.tint32, T.tint64, T.tfloat32, T.tfloat64, T.tstr, T.tbool, T.tcall]
    if depth <= 0 or rng.random() < 0.22:
        r = rng.random()
        if mode == 'any' and r < 0.06:
            note('void/rng_state')
            return rng.choice([T.tvoid, T.trngstate])
        if loci and r < 0.2:
            note('locus')
            name = rng.choice(RG_NAMES) if rng.random() < 0.85 else gen_name(rng, allow_surrogates)[0]
            return T.tlocus(ensure_rg(name))
        t = rng.choice(prims)
        note(str(t))
        return t
    kinds = ['array', 'set', 'dict', 'struct', 'struct', 'struct', 'tuple', 'interval']
    if not hashable:
        kinds.append('ndarray')
    if mode == 'any':
        kinds.append('stream')
    k = rng.choice(kinds)
    note(k)
    d = depth - 1

    def sub(**kw):
        return gen_type(rng, d, mode, stats=stats, loci=loci, allow_surrogates=allow_surrogates, **{'hashable': hashable, **kw})

    if k == 'array':
        return T.tarray(sub())
    if k == 'stream':
        return T.tstream(sub())
    if k == 'set':
        return T.tset(sub(hashable=True))
    if k == 'dict':
        return T.tdict(sub(hashable=True), sub())
    if k == 'interval':
        return T.tinterval(sub(hashable=True))
    if k == 'ndarray':
        ndim = rng.choice([0, 1, 1, 2, 2, 3, 4])
        if mode == 'any':
            return T.tndarray(sub(), ndim if rng.random() < 0.9 else rng.choice([5, 10, 17]))
        return T.tndarray(rng.choice([T.tint32, T.tint64, T.tfloat32, T.tfloat64, T.tbool]), min(ndim, 3))
    if k == 'tuple':
        n = rng.choice([0, 1, 2, 2, 3, 4, 8, 9])
        return T.ttuple(*[sub() for _ in range(n)])
    n = rng.choice([0, 1, 1, 2, 2, 3, 3, 4, 5, 8, 9, 17])
    if n >= 8 and depth > 2:
        d = 1
    names, cats = gen_field_names(rng, n, allow_surrogates)
    for c in cats:
        note('name:' + c)
    return T.tstruct(**{nm: gen_type(rng, d, mode, hashable=hashable, stats=stats, loci=loci, allow_surrogates=allow_surrogates) for nm in names})


def type_depth(t):
    import hail.expr.types as T

    if isinstance(t, (T.tarray, T.tset, T.tstream, T.tndarray)):
        return 1 + type_depth(t.element_type)
    if isinstance(t, T.tdict):
        return 1 + max(type_depth(t.key_type), type_depth(t.value_type))
    if isinstance(t, T.tinterval):
        return 1 + type_depth(t.point_type)
    if isinstance(t, (T.tstruct, T.ttuple)):
        return 1 + max([type_depth(x) for x in t.types] or [0])
    return 0


def type_shape(t):
    """Abstraction of a type that forgets names: constructor skeleton (used as distinctness key component)."""
    import hail.expr.types as T

    if isinstance(t, (T.tarray, T.tset, T.tstream)):
        return (type(t).__name__, type_shape(t.element_type))
    if isinstance(t, T.tndarray):
        return ('nd', type_shape(t.element_type), t.ndim)
    if isinstance(t, T.tdict):
        return ('dict', type_shape(t.key_type), type_shape(t.value_type))
    if isinstance(t, T.tinterval):
        return ('iv', type_shape(t.point_type))
    if isinstance(t, T.tstruct):
        return ('struct',) + tuple(type_shape(x) for x in t.types)
    if isinstance(t, T.ttuple):
        return ('tuple',) + tuple(type_shape(x) for x in t.types)
    if isinstance(t, T.tlocus):
        return 'locus'
    return str(t)


# ------------------------------------------------------------------------------------------------
# values
# ------------------------------------------------------------------------------------------------
def f32(x):
    """round a Python float to the nearest float32 (so that float32 values are exactly representable)"""
    try:
        return struct.unpack('<f', struct.pack('<f', x))[0]
    except OverflowError:
        return math.copysign(math.inf, x)


_F64 = [0.0, -0.0, 1.0, -1.0, 0.1, 1e-300, 5e-324, 1.7976931348623157e308, -1.7976931348623157e308, math.pi, 1e16, 2.0**53 + 2, float('nan'),
        float('inf'), float('-inf')]
_STR = ['', 'a', 'hello world', '\u00e9', '\u4e2d\u6587', '\U0001f600', 'a\x00b', '\n', '"', '\\', '`', 'NaN', '-inf', 'null', 'a' * 300, '\u2028', '\ufeff', 'e\u0301',
        '{"a": 1}', '1', ' ']
_LEN = [0, 0, 1, 1, 2, 2, 3, 4, 7, 8, 9, 16, 17]


def gen_call(rng):
    from hail.genetics import Call

    r = rng.random()
    big = rng.random() < 0.15
    a = (lambda: rng.choice([0, 1, 2, 3, 7, 8, 9, 64, 255, 256, 1000, 32767])) if not big else (lambda: rng.randrange(0, 20000))
    if r < 0.12:
        return Call([], phased=rng.random() < 0.5)
    if r < 0.35:
        return Call([a()], phased=rng.random() < 0.5)
    j, k = a(), a()
    phased = rng.random() < 0.5
    # keep the call representable: the engine's allele representation (triangular index) must be < 2**29 (Call.scala:92)
    top = j + k if phased else max(j, k)
    if top * (top + 1) // 2 + min(j, top) >= 2**29:
        j, k = j % 16384, k % 16384
    return Call([j, k], phased=phased)


def gen_value(rng, t, hashable=False, missing_ok=True, stats=None, p_missing=0.12, p_dict_missing=None):
    """Random Python value of Hail type `t` (``None`` = missing where the API allows it).

    `p_dict_missing`: probability of a missing dict value (a third of it for a missing dict key); default `p_missing`."""
    import numpy as np

    import hail.expr.types as T
    from hail.genetics import Locus
    from hail.utils import Interval, Struct
    from hailtop.frozendict import frozendict
    from hailtop.hail_frozenlist import frozenlist

    def note(k):
        if stats is not None:
            stats[k] = stats.get(k, 0) + 1

    def sub(tt, **kw):
        return gen_value(rng, tt, stats=stats, **{'hashable': hashable, 'p_missing': p_missing, 'p_dict_missing': p_dict_missing, **kw})

    if missing_ok and rng.random() < p_missing:
        note('missing')
        return None
    if isinstance(t, T._tint32):
        return rng.choice([0, 1, -1, 2**31 - 1, -(2**31), 255, 256, 65535, rng.randrange(-(2**31), 2**31)])
    if isinstance(t, T._tint64):
        return rng.choice([0, 1, -1, 2**63 - 1, -(2**63), 2**31, -(2**31) - 1, 2**53 + 1, rng.randrange(-(2**63), 2**63)])
    if isinstance(t, T._tfloat64):
        x = rng.choice(_F64 + [rng.uniform(-1e6, 1e6), rng.choice([3, -7, 0])])
        if isinstance(x, float) and not math.isfinite(x):
            note('nonfinite')
        if isinstance(x, float) and x == 0 and math.copysign(1, x) < 0:
            note('negzero')
        return x
    if isinstance(t, T._tfloat32):
        x = rng.choice(_F64 + [rng.uniform(-1e6, 1e6), 3.4028234663852886e38, 1.401298464324817e-45])
        x = f32(x)
        if not math.isfinite(x):
            note('nonfinite')
        if x == 0 and math.copysign(1, x) < 0:
            note('negzero')
        return x
    if isinstance(t, T._tbool):
        return rng.random() < 0.5
    if isinstance(t, T._tstr):
        if rng.random() < 0.3:
            return ''.join(random_char(rng) for _ in range(rng.choice([1, 2, 5])))
        return rng.choice(_STR)
    if isinstance(t, T._tcall):
        note('call')
        return gen_call(rng)
    if isinstance(t, T.tlocus):
        note('locus')
        rg = t.reference_genome
        return Locus(rng.choice(_CONTIGS), rng.choice([1, 2, 1000, 2**31 - 1, 0, rng.randrange(1, 20000)]), rg)
    if isinstance(t, T.tinterval):
        note('interval')
        return Interval(sub(t.point_type, hashable=True), sub(t.point_type, hashable=True), rng.random() < 0.5, rng.random() < 0.5, point_type=t.point_type)
    if isinstance(t, T.tarray):
        n = rng.choice(_LEN)
        if n == 0:
            note('empty')
        xs = [sub(t.element_type) for _ in range(n)]
        return frozenlist(xs) if hashable else xs
    if isinstance(t, T.tset):
        n = rng.choice(_LEN)
        xs = [sub(t.element_type, hashable=True) for _ in range(n)]
        if any(x is None for x in xs):
            note('set_with_missing')
        if n == 0:
            note('empty')
        return frozenset(xs) if hashable else set(xs)
    if isinstance(t, T.tdict):
        n = rng.choice(_LEN)
        d = {}
        for _ in range(n):
            pdm = p_missing if p_dict_missing is None else p_dict_missing
            k = None if rng.random() < pdm / 3 else sub(t.key_type, hashable=True, missing_ok=False)
            v = None if rng.random() < pdm else sub(t.value_type, missing_ok=False)
            if k is None:
                note('dict_missing_key')
            if v is None:
                note('dict_missing_value')
            d[k] = v
        if n == 0:
            note('empty')
        return frozendict(d) if hashable else d
    if isinstance(t, T.ttuple):
        return tuple(sub(tt) for tt in t.types)
    if isinstance(t, T.tstruct):
        fields = {f: sub(tt) for f, tt in t.items()}
        try:
            return Struct(**fields)
        except TypeError:
            # hl.Struct(**{'self': ...}) cannot be constructed; a plain Mapping is an accepted struct value too
            note('struct_as_mapping')
            return frozendict(fields) if hashable else fields
    if isinstance(t, T.tndarray):
        note('ndarray')
        dt = t.element_type.to_numpy()
        shape = tuple(rng.choice([0, 1, 1, 2, 2, 3, 4]) for _ in range(t.ndim))
        n = 1
        for s in shape:
            n *= s
        if n == 0 and t.ndim > 0:
            note('ndarray_zero_dim')
        flat = [gen_value(rng, t.element_type, missing_ok=False) for _ in range(n)]
        a = np.array(flat, dtype=dt).reshape(shape) if n else np.zeros(shape, dtype=dt)
        layout = rng.choice(['C', 'F', 'T', 'strided']) if t.ndim >= 1 else 'C'
        note('ndarray_' + layout)
        if layout == 'F':
            a = np.asfortranarray(a)
        elif layout == 'T':
            a = a.T.copy().T if t.ndim >= 2 else a  # same values, transposed memory layout
        elif layout == 'strided' and t.ndim >= 1:
            big = np.zeros(tuple(2 * s for s in shape), dtype=dt)
            view = big[tuple(slice(None, None, 2) for _ in shape)]
            view[...] = a
            a = view
        return a
    raise TypeError(f'no value generator for {t}')


# ------------------------------------------------------------------------------------------------
# equality
# ------------------------------------------------------------------------------------------------
def _is_int(x):
    return isinstance(x, int) and not isinstance(x, bool)


def veq(t, a, b, strict=True, float_bits=False):
    """Type-directed equality of an original value `a` and a round-tripped value `b`.

    NaN equals NaN; containers are compared element-wise (sets / dicts by a matching, so NaN keys work);
    `strict` additionally demands the documented Python representation of `b` (Struct, tuple, set, dict, Call, ...);
    `float_bits` additionally demands that the sign of zero survives."""
    import numpy as np

    import hail.expr.types as T
    from hail.genetics import Call, Locus
    from hail.utils import Interval, Struct

    if a is None or b is None:
        return a is None and b is None
    if isinstance(t, (T._tfloat32, T._tfloat64)):
        if not isinstance(b, (float, int)) or isinstance(b, bool):
            return False
        if strict and not isinstance(b, float):
            return False
        if a != a or b != b:
            return a != a and b != b
        if float_bits and a == 0 and math.copysign(1, a) != math.copysign(1, b):
            return False
        return a == b
    if isinstance(t, (T._tint32, T._tint64)):
        return _is_int(b) and a == b
    if isinstance(t, T._tbool):
        return isinstance(b, bool) and a == b
    if isinstance(t, T._tstr):
        return isinstance(b, str) and a == b
    if isinstance(t, T._tcall):
        return isinstance(b, Call) and a.phased == b.phased and list(a.alleles) == list(b.alleles)
    if isinstance(t, T.tlocus):
        return isinstance(b, Locus) and a.contig == b.contig and a.position == b.position and a.reference_genome == b.reference_genome
    if isinstance(t, T.tinterval):
        if strict and not (isinstance(b, Interval) and b.point_type == t.point_type):
            return False
        return (veq(t.point_type, a.start, _get(b, 'start'), strict, float_bits) and veq(t.point_type, a.end, _get(b, 'end'), strict, float_bits)
                and a.includes_start is _get(b, 'includes_start') and a.includes_end is _get(b, 'includes_end'))
    if isinstance(t, T.tarray):
        if isinstance(b, (str, bytes, Mapping)) or not hasattr(b, '__len__'):
            return False
        return len(a) == len(b) and all(veq(t.element_type, x, y, strict, float_bits) for x, y in zip(a, b))
    if isinstance(t, T.ttuple):
        if strict and not isinstance(b, tuple):
            return False
        return len(a) == len(b) and all(veq(tt, x, y, strict, float_bits) for tt, x, y in zip(t.types, a, b))
    if isinstance(t, T.tstruct):
        if not isinstance(b, Mapping) or (strict and not isinstance(b, Struct)):
            return False
        return list(b.keys()) == list(t.fields) and all(veq(tt, a[f], b[f], strict, float_bits) for f, tt in t.items())
    if isinstance(t, T.tset):
        if strict and not isinstance(b, (set, frozenset)):
            return False
        return _match(list(a), list(b), lambda x, y: veq(t.element_type, x, y, strict, float_bits))
    if isinstance(t, T.tdict):
        if strict and not isinstance(b, Mapping):
            return False
        bi = list(b.items()) if isinstance(b, Mapping) else list(b)
        return _match(list(a.items()), bi, lambda x, y: veq(t.key_type, x[0], y[0], strict, float_bits) and veq(t.value_type, x[1], y[1], strict, float_bits))
    if isinstance(t, T.tndarray):
        if not isinstance(b, np.ndarray) or tuple(a.shape) != tuple(b.shape) or b.dtype != np.dtype(t.element_type.to_numpy()):
            return False
        if a.size == 0:
            return True
        if not np.array_equal(a, b, equal_nan=a.dtype.kind == 'f'):
            return False
        if float_bits and a.dtype.kind == 'f':
            return bool(np.array_equal(np.signbit(a), np.signbit(b)))
        return True
    raise TypeError(f'no equality for {t}')


def _get(x, name):
    return x[name] if isinstance(x, Mapping) else getattr(x, name)


def _match(xs, ys, eq):
    if len(xs) != len(ys):
        return False
    ys = list(ys)
    for x in xs:
        for i, y in enumerate(ys):
            if eq(x, y):
                del ys[i]
                break
        else:
            return False
    return True


def describe(t, v, depth=0):
    """JSON-able rendering of a value for witnesses."""
    import numpy as np

    if isinstance(v, np.ndarray):
        return {'ndarray': v.tolist(), 'shape': list(v.shape), 'c_contiguous': bool(v.flags['C_CONTIGUOUS']), 'f_contiguous': bool(v.flags['F_CONTIGUOUS']),
                'strides': list(v.strides), 'dtype': str(v.dtype)}
    return repr(v)[:1500]


# ------------------------------------------------------------------------------------------------
# failure localisation (for mechanism keys): smallest sub-value that still fails
# ------------------------------------------------------------------------------------------------
def children(t, v):
    """(child type, child value, path element) of the non-missing children of a non-missing value"""
    import hail.expr.types as T

    if isinstance(t, (T.tarray, T.tset)):
        for i, x in enumerate(v):
            yield t.element_type, x, i
    elif isinstance(t, T.tdict):
        for i, (k, x) in enumerate(v.items()):
            yield t.key_type, k, f'key{i}'
            yield t.value_type, x, f'value{i}'
    elif isinstance(t, T.tstruct):
        for f, tt in t.items():
            yield tt, v[f], f
    elif isinstance(t, T.ttuple):
        for i, tt in enumerate(t.types):
            yield tt, v[i], i
    elif isinstance(t, T.tinterval):
        yield t.point_type, v.start, 'start'
        yield t.point_type, v.end, 'end'


def localise(t, v, ok, path=()):
    """Descend into the first failing child until no child fails: -> (type, value, path) of the smallest failing node.
    `ok(t, v)` must be total (returns False when the round trip raises)."""
    for ct, cv, pe in children(t, v):
        if cv is not None and not ok(ct, cv):
            return localise(ct, cv, ok, path + (pe,))
    return t, v, path


def kind_of(t):
    import hail.expr.types as T

    for cls, name in ((T.tarray, 'array'), (T.tset, 'set'), (T.tdict, 'dict'), (T.tstruct, 'struct'), (T.ttuple, 'tuple'), (T.tinterval, 'interval'),
                      (T.tndarray, 'ndarray'), (T.tlocus, 'locus')):
        if isinstance(t, cls):
            return name
    return str(t)
