"""Evaluate the seeded property-breaking changes under /verif/seeded/<name>/ against the checks.

    python -m vf.seedtool eval [name ...] [--tests] [--scratch] [--tier quick|thorough] [--checks C01,C07]

For each seed: `git -C /repo apply patch.diff`, optionally run the repository's pinned test suite, run the
checks named in meta.json["checks"] (default: the property the seed breaks) with the evidence redirected to a
scratch directory, record per check the exit code and the violated mechanism keys, and ALWAYS undo with
`git -C /repo checkout -- .` (plus removal of files the patch created).  Results go to meta.json["evaluated"].
Refuses to start when /repo has local modifications.
"""
import json
import os
import re
import shutil
import subprocess
import sys
import tempfile

ROOT = os.path.dirname(os.path.dirname(os.path.abspath(__file__)))
REPO = os.environ.get('VERIF_REPO', '/repo')
SEEDED = os.path.join(ROOT, 'seeded')
TESTS = ['/venv/bin/python', '-m', 'pytest', '-q', '-p', 'no:cacheprovider', '--timeout=900', '--continue-on-collection-errors']


def sh(*a, **k):
    return subprocess.run(a, capture_output=True, text=True, **k)


def clean():
    return sh('git', '-C', REPO, 'status', '--porcelain').stdout.strip() == ''


def evaluate_scratch(name, tier, run_tests, only_checks):
    """same as evaluate, but in a throw-away worktree of /repo's HEAD (VERIF_REPO points the checks at it), so that
    checks running against /repo at the same time are not disturbed"""
    d = os.path.join(SEEDED, name)
    meta_p = os.path.join(d, 'meta.json')
    meta = json.load(open(meta_p))
    patch = os.path.join(d, 'patch.diff')
    checks = only_checks or meta.get('checks') or [meta['property']]
    wt = tempfile.mkdtemp(prefix='hail-seed-', dir='/var/tmp')
    os.rmdir(wt)
    base = meta.get('base_commit', 'HEAD')  # a seed whose precondition a later repair removed is kept against the tree it was written for
    r = sh('git', '-C', REPO, 'worktree', 'add', '-q', '--detach', wt, base)
    if r.returncode != 0:
        raise SystemExit(r.stderr)
    evd = tempfile.mkdtemp(prefix='seed-ev-')
    try:
        r = sh('git', '-C', wt, 'apply', patch)
        if r.returncode != 0:
            out = {'applies': False, 'error': r.stderr.strip()[:300]}
        else:
            out = {'applies': True, 'tier': tier, 'checks': {}, 'where': 'scratch worktree of /repo ' + ('HEAD ' if base == 'HEAD' else 'at the seed\'s base commit ') + sh('git', '-C', REPO, 'rev-parse', '--short', base).stdout.strip()}
            if run_tests:
                t = sh(*TESTS, cwd=wt)
                m = re.search(r'(\d+) passed', t.stdout)
                out['repo_tests_passed'] = int(m.group(1)) if m else 0
                mf = re.search(r'(\d+) failed', t.stdout)
                out['repo_tests_failed'] = int(mf.group(1)) if mf else 0
            env = dict(os.environ, VERIF_EVIDENCE_DIR=evd, VERIF_TIER=tier, VERIF_REPO=wt)
            for c in checks:
                p = sh(os.path.join(ROOT, 'check'), c, '--tier', tier, env=env)
                keys = sorted(set(re.findall(r'^\s*mechanism=([^:]+):', p.stdout, re.M)))
                out['checks'][c] = {'exit': p.returncode, 'violation_line': bool(re.search(r'^VIOLATION property=', p.stdout, re.M)), 'mechanisms': keys[:12]}
            out['caught_by'] = sorted(c for c, v in out['checks'].items() if v['exit'] == 1 and v['violation_line'])
    finally:
        sh('git', '-C', REPO, 'worktree', 'remove', '--force', wt)
        shutil.rmtree(wt, ignore_errors=True)
        shutil.rmtree(evd, ignore_errors=True)
    meta.setdefault('evaluated', {})[tier] = out
    json.dump(meta, open(meta_p, 'w'), indent=1, sort_keys=True)
    return out


def evaluate(name, tier, run_tests, only_checks):
    d = os.path.join(SEEDED, name)
    meta_p = os.path.join(d, 'meta.json')
    meta = json.load(open(meta_p))
    patch = os.path.join(d, 'patch.diff')
    checks = only_checks or meta.get('checks') or [meta['property']]
    if meta.get('base_commit'):
        return evaluate_scratch(name, tier, run_tests, only_checks)
    if not clean():
        raise SystemExit(f'{REPO} has local modifications; refusing')
    r = sh('git', '-C', REPO, 'apply', '--check', patch)
    if r.returncode != 0:
        return {'applies': False, 'error': r.stderr.strip()[:300]}
    sh('git', '-C', REPO, 'apply', patch)
    out = {'applies': True, 'tier': tier, 'checks': {}}
    evd = tempfile.mkdtemp(prefix='seed-ev-')
    try:
        if run_tests:
            t = sh(*TESTS, cwd=REPO)
            m = re.search(r'(\d+) passed', t.stdout)
            out['repo_tests_passed'] = int(m.group(1)) if m else 0
            mf = re.search(r'(\d+) failed', t.stdout)
            out['repo_tests_failed'] = int(mf.group(1)) if mf else 0
        env = dict(os.environ, VERIF_EVIDENCE_DIR=evd, VERIF_TIER=tier)
        for c in checks:
            p = sh(os.path.join(ROOT, 'check'), c, '--tier', tier, env=env)
            keys = sorted(set(re.findall(r'^\s*mechanism=([^:]+):', p.stdout, re.M)))
            out['checks'][c] = {'exit': p.returncode, 'violation_line': bool(re.search(r'^VIOLATION property=', p.stdout, re.M)), 'mechanisms': keys[:12]}
    finally:
        sh('git', '-C', REPO, 'checkout', '--', '.')
        sh('git', '-C', REPO, 'clean', '-fdq', '--', 'batch', 'hail', 'gear', 'auth', 'ci', 'web_common')
        shutil.rmtree(evd, ignore_errors=True)
    out['caught_by'] = sorted(c for c, v in out['checks'].items() if v['exit'] == 1 and v['violation_line'])
    meta.setdefault('evaluated', {})[tier] = out
    json.dump(meta, open(meta_p, 'w'), indent=1, sort_keys=True)
    return out


def table():
    print('| Seeded change | Breaks | What it is | Needs | Repo tests | Caught by (quick) | First mechanism keys |')
    print('|---|---|---|---|---|---|---|')
    for n in sorted(os.listdir(SEEDED)):
        mp = os.path.join(SEEDED, n, 'meta.json')
        if not os.path.exists(mp):
            continue
        m = json.load(open(mp))
        ev = (m.get('evaluated') or {}).get('quick') or {}
        th = (m.get('evaluated') or {}).get('thorough') or {}
        caught = ', '.join(ev.get('caught_by') or []) or (('not caught: ' + m['disposition']) if m.get('disposition') else '**missed in quick**' + ('; thorough: ' + ', '.join(th.get('caught_by') or ['missed']) if th else ''))
        keys = []
        for c, v in (ev.get('checks') or {}).items():
            keys += v.get('mechanisms', [])[:2]
        tests = f"{ev.get('repo_tests_passed', '-')} pass" if 'repo_tests_passed' in ev else '-'
        print(f"| {n} | {m['property']} | {m.get('summary', '')[:160]} | {m.get('needs', '')[:120]} | {tests} | {caught} | {'; '.join(keys[:3])} |")


def main(argv):
    if argv and argv[0] == 'table':
        table()
        return 0
    if not argv or argv[0] != 'eval':
        raise SystemExit(__doc__)
    args = argv[1:]
    tier = 'quick'
    run_tests = '--tests' in args
    scratch = '--scratch' in args
    only = None
    names = []
    i = 0
    while i < len(args):
        a = args[i]
        if a == '--tier':
            tier = args[i + 1]
            i += 1
        elif a == '--checks':
            only = args[i + 1].split(',')
            i += 1
        elif a not in ('--tests', '--scratch'):
            names.append(a)
        i += 1
    if not names:
        names = sorted(n for n in os.listdir(SEEDED) if os.path.exists(os.path.join(SEEDED, n, 'meta.json')))
    bad = 0
    for n in names:
        o = (evaluate_scratch if scratch else evaluate)(n, tier, run_tests, only)
        print(n, 'caught_by=' + ','.join(o.get('caught_by', [])) or '-', json.dumps({k: v for k, v in o.items() if k not in ('checks',)}))
        for c, v in o.get('checks', {}).items():
            print('   ', c, 'exit', v['exit'], v['mechanisms'][:4])
        if not o.get('caught_by'):
            bad += 1
    return 1 if bad else 0


if __name__ == '__main__':
    sys.exit(main(sys.argv[1:]))
