"""The claims table behind MANIFEST.json (edit here, then `python -m vf.manifest_gen`)."""


def declare(check, na):
    na('C37', 'the code under the property is Scala (is.hail.stats); no Scala compiler, JAR or Spark exists in the sandbox, so there is no execution for a runtime monitor to observe; a Python transliteration would test the transliteration, not the engine')

    check('C28', 'exploration', 'reference-recogniser oracle over exhaustive small-alphabet strings + random hostile Unicode + icontract post-conditions on the repo tests',
          'every string over a hostile 8-symbol alphabet up to length 6/7 plus seeded random strings is run through the real validators and compared with hand-written recognisers of the two stated languages; held means no disagreement on the strings listed in the evidence',
          'trusted: the two recognisers in vf/monitors/c28.py')

    SQL_NOTE = ('trusted: minimysql (in-tree interpreter of the MySQL subset the batch SQL uses; whole transactions are atomic steps), '
                'shims for missing third-party packages, fakes for file store / k8s / worker HTTP / cloud; witnesses explained by a recorded defect '
                'pattern are attributed to that known finding (known_findings.json)')
    SQL_TECH = 'invariant oracle after every committed transaction over fuzzed histories of the real front-end/driver code running on the repository SQL (minimysql)'
    check('C01', 'exploration', SQL_TECH,
          'scheduler/canceller counters are recounted from jobs after every commit of thousands of fuzzed histories (cancel/commit/schedule/complete/deactivate/cleanup in any order); held = no unexplained disagreement on the histories listed in the evidence',
          SQL_NOTE)
    check('C02', 'exploration', SQL_TECH + '; per-date shadow ledger',
          'billing aggregates (per job, group+ancestors, billing project/user, per day) are recomputed from attempts x attempt_resources after every commit, with compaction, late/duplicate messages and date roll-over in the histories',
          SQL_NOTE)
    check('C04', 'exploration', 'job-state edge monitor between consecutive committed states + tally recount, under duplicated/late/stale worker messages',
          'every committed jobs.state change is checked against the lifecycle graph and the completed/succeeded/failed/cancelled tallies are recounted after every commit',
          SQL_NOTE)
    check('C05', 'exploration', SQL_TECH + ' (dependency gating) + edge monitor',
          'after every commit: non-Pending committed jobs have only terminal parents, failed parents imply cancelled=1, n_pending_parents equals the live parents; cancelled non-always-run jobs never enter Creating/Running',
          SQL_NOTE)
    check('C06', 'exploration', SQL_TECH + ' + the real GET paths compared with a recount',
          'batch / job-group state, n_jobs, time_completed and the views returned by _get_batch/_get_job_group are compared with a recount over committed jobs after every commit / at sampled GETs',
          SQL_NOTE)
    check('C10', 'exploration', SQL_TECH + ' (free-core conservation)',
          'instances_free_cores_mcpu is recomputed as cores minus open attempts after every commit, for pool and job-private instances under duplicate/stale reports, unschedule and deactivation',
          SQL_NOTE)

    check('C07', 'exploration', SQL_TECH + '; before/after snapshots around cancels and submissions; probe of the is_job_cancelled SQL predicate for every live job',
          'after cancelling arbitrary groups in any order: cancelled non-always-run jobs never start, submissions under cancelled groups are rejected without side effects, repeated cancels change nothing, jobs outside the subtree keep their rows and the SQL predicate used by schedule/started/creating answers correctly (and without error) for every job',
          SQL_NOTE)
    check('C08', 'exploration', 'adversarial schema-valid submissions through the three real submission handlers + independent well-formedness predicate + bounded-progress drain',
          'ill-formed dependency / job-id submissions must be rejected without leaving jobs behind; every accepted and committed submission is driven to completion by the real scheduler and completion path within #jobs+3 rounds',
          SQL_NOTE + '; bounded progress instead of unbounded liveness')
    check('C41', 'exploration', SQL_TECH + ' restricted to jobs of uncommitted updates (row-as-inserted comparison) + committed-only recounts',
          'every job of an uncommitted update is compared with its inserted row after every commit; counters, tallies and completion state are recounted over committed jobs only while late / never / out-of-order commits happen',
          SQL_NOTE)

    check('C03', 'exploration', 'per-step transition oracle on the attempt row over enumerated admissible report sequences applied through the real procedures',
          'every admissible sequence of up to 3 (quick) / 4 (thorough) reports over an 8-kind alphabet x 4-point time grid, plus random longer ones, is applied to a fresh attempt through the real CALLs and the billing heartbeat handler; after each report billed time, start, end and reason are checked against the stated monotonicity / bound rules',
          SQL_NOTE + '; admissibility = worker reports only from an active instance (the repository\'s own @active_instances_only), creating / activation timeout only on a pending one')
    check('C22', 'exploration', 'real copier on scratch trees vs a reference model of the documented destination rules, byte-for-byte tree comparison',
          'all 324 configurations of the repository\'s own copy test table plus seeded multi-transfer layouts with part / buffer sizes patched to 1-64 bytes run through the real Copier over LocalAsyncFS; the destination tree must equal the modelled one byte for byte or the documented error must be raised',
          'trusted: the reference model (cross-checked against COPY_TEST_SPECS at start-up), the sandbox file system; thread interleavings are varied, not enumerated; FileAndDirectoryError is not expressible between local paths')
    check('C23', 'exploration', 'real AsyncFS ranged-read paths over protocol fakes (RFC 9110 range server for GCS, boto3 and azure-blob client fakes) and real local files',
          'exhaustive (size <= 9/12, start, length) per backend, direct and routed, plus seeded larger objects, compared with data[start:start+length]; readexactly past EOF must signal UnexpectedEOFError',
          'trusted: vf/sim/fsfakes.py implements the published GCS / S3 / azure-storage-blob range semantics (the real clouds are not contacted); UnexpectedEOFError is accepted for an empty range at start >= size')
