"""The claims table behind MANIFEST.json (edit here, then `python -m vf.manifest_gen`)."""


def declare(check, na):
    na('C37', 'the code under the property is Scala (is.hail.stats); no Scala compiler, JAR or Spark exists in the sandbox, so there is no execution for a runtime monitor to observe; a Python transliteration would test the transliteration, not the engine')

    check('C28', 'exploration', 'reference-recogniser oracle over exhaustive small-alphabet strings + random hostile Unicode + icontract post-conditions on the repo tests',
          'every string over a hostile 8-symbol alphabet up to length 6/7 plus seeded random strings is run through the real validators and compared with hand-written recognisers of the two stated languages; held means no disagreement on the strings listed in the evidence',
          'trusted: the two recognisers in vf/monitors/c28.py')
