"""The claims table behind MANIFEST.json (edit here, then `python -m vf.manifest_gen`)."""


def declare(check, na):
    na('C37', 'the code under the property is Scala (is.hail.stats); no Scala compiler, JAR or Spark exists in the sandbox, so there is no execution for a runtime monitor to observe; a Python transliteration would test the transliteration, not the engine')

    check('C28', 'exploration', 'reference-recogniser oracle over exhaustive small-alphabet strings + random hostile Unicode + icontract post-conditions on the repo tests; the real check_valid_new_user / insert_new_user and the creating routes over a fake users table: what is stored is judged',
          'every string over a hostile 8-symbol alphabet up to length 6/7 plus seeded random strings is run through the real validators and compared with hand-written recognisers of the two stated languages; held means no disagreement on the strings listed in the evidence',
          'trusted: the two recognisers in vf/monitors/c28.py')

    SQL_NOTE = ('trusted: minimysql (in-tree interpreter of the MySQL subset the batch SQL uses; whole transactions are atomic steps), '
                'shims for missing third-party packages, fakes for file store / k8s / worker HTTP / cloud; witnesses explained by a recorded defect '
                'pattern are attributed to that known finding (known_findings.json)')
    SQL_TECH = 'invariant oracle after every committed transaction over fuzzed histories of the real front-end/driver code running on the repository SQL (minimysql)'
    check('C01', 'exploration', SQL_TECH,
          'scheduler/canceller counters are recounted from jobs after every commit of thousands of fuzzed histories (cancel/commit/schedule/complete/deactivate/cleanup in any order); held = no unexplained disagreement on the histories listed in the evidence',
          SQL_NOTE)
    check('C02', 'exploration', SQL_TECH + '; per-date shadow ledger; re-registrations with differing quantities; requests served in the middle of compaction / clean-up passes',
          'billing aggregates (per job, group+ancestors, billing project/user, per day) are recomputed from attempts x attempt_resources after every commit, with compaction, late/duplicate messages and date roll-over in the histories',
          SQL_NOTE)
    check('C04', 'exploration', 'job-state edge monitor between consecutive committed states + tally recount, under duplicated/late/stale worker messages; rule that a job falls back to Ready only when its attempt is over; directed stale-attempt and creating-parent scenarios',
          'every committed jobs.state change is checked against the lifecycle graph and the completed/succeeded/failed/cancelled tallies are recounted after every commit',
          SQL_NOTE)
    check('C05', 'exploration', SQL_TECH + ' (dependency gating) + edge monitor; gating also for jobs of uncommitted updates; always-run jobs never end Cancelled; directed parent-outcome / live-parent / mixed-parent scenarios',
          'after every commit: non-Pending committed jobs have only terminal parents, failed parents imply cancelled=1, n_pending_parents equals the live parents; cancelled non-always-run jobs never enter Creating/Running',
          SQL_NOTE)
    check('C06', 'exploration', SQL_TECH + ' + the real GET paths compared with a recount',
          'batch / job-group state, n_jobs, time_completed and the views returned by _get_batch/_get_job_group are compared with a recount over committed jobs after every commit / at sampled GETs',
          SQL_NOTE)
    check('C10', 'exploration', SQL_TECH + ' (free-core conservation); in-memory free cores == recorded free cores at quiescent points; worker start reports overtaking the driver\'s own schedule_job call',
          'instances_free_cores_mcpu is recomputed as cores minus open attempts after every commit, for pool and job-private instances under duplicate/stale reports, unschedule and deactivation',
          SQL_NOTE)

    check('C07', 'exploration', SQL_TECH + '; before/after snapshots around cancels and submissions; probe of the is_job_cancelled SQL predicate for every live job; ledger of API-acknowledged cancels; directed additions-after-cancel scenarios',
          'after cancelling arbitrary groups in any order: cancelled non-always-run jobs never start, submissions under cancelled groups are rejected without side effects, repeated cancels change nothing, jobs outside the subtree keep their rows and the SQL predicate used by schedule/started/creating answers correctly (and without error) for every job',
          SQL_NOTE)
    check('C08', 'exploration', 'adversarial schema-valid submissions through the three real submission handlers + independent well-formedness predicate + bounded-progress drain',
          'ill-formed dependency / job-id submissions must be rejected without leaving jobs behind; every accepted and committed submission is driven to completion by the real scheduler and completion path within #jobs+3 rounds',
          SQL_NOTE + '; bounded progress instead of unbounded liveness')
    check('C41', 'exploration', SQL_TECH + ' restricted to jobs of uncommitted updates (row-as-inserted comparison) + committed-only recounts; requests served in the middle of background passes',
          'every job of an uncommitted update is compared with its inserted row after every commit; counters, tallies and completion state are recounted over committed jobs only while late / never / out-of-order commits happen',
          SQL_NOTE)

    check('C03', 'exploration', 'per-step transition oracle on the attempt row over enumerated admissible report sequences applied through the real procedures',
          'every admissible sequence of up to 3 (quick) / 4 (thorough) reports over an 8-kind alphabet x 4-point time grid, plus random longer ones, is applied to a fresh attempt through the real CALLs and the billing heartbeat handler; after each report billed time, start, end and reason are checked against the stated monotonicity / bound rules',
          SQL_NOTE + '; admissibility = worker reports only from an active instance (the repository\'s own @active_instances_only), creating / activation timeout only on a pending one')
    check('C22', 'exploration', 'real copier on scratch trees vs a reference model of the documented destination rules, byte-for-byte tree comparison',
          'all 324 configurations of the repository\'s own copy test table plus seeded multi-transfer layouts with part / buffer sizes patched to 1-64 bytes run through the real Copier over LocalAsyncFS; the destination tree must equal the modelled one byte for byte or the documented error must be raised',
          'trusted: the reference model (cross-checked against COPY_TEST_SPECS at start-up), the sandbox file system; thread interleavings are varied, not enumerated; FileAndDirectoryError is not expressible between local paths')
    check('C23', 'exploration', 'real AsyncFS ranged-read paths over protocol fakes (RFC 9110 range server for GCS, boto3 and azure-blob client fakes) and real local files',
          'exhaustive (size <= 9/12, start, length) per backend, direct and routed, plus seeded larger objects, compared with data[start:start+length]; readexactly past EOF must signal UnexpectedEOFError',
          'trusted: vf/sim/fsfakes.py implements the published GCS / S3 / azure-storage-blob range semantics (the real clouds are not contacted); UnexpectedEOFError is accepted for an empty range at start >= size')

    check('C27', 'fault_enumeration', 'fault catalogue x injection sites on the real gear.Database over the aiomysql shim, twin-run table comparison',
          'every (MySQL error, site, before/after effect) single fault and sampled / all pairs are injected into generated transactions run through the real retry decorator and Transaction code; retryable faults must end with the fault-free result, others must propagate after one attempt with tables unchanged, no connection may stay checked out',
          'trusted: minimysql + aiomysql/pymysql shims; server-side effect of each error modelled per the MySQL manual; a COMMIT whose response is lost after taking effect is informational')
    check('C19', 'exploration', 'boundary-directed input generation (exact serialized sizes, limits at window sums +-1) over the real _create_bunches with a concatenation/limit oracle; nested job-group trees judged against the creation log; field-disordered spec lists',
          'seeded spec lists with exact byte sizes and limits placed on every packing boundary, plus specs made by the client API, are bunched by the real method and checked for byte-identical ordered concatenation, groups-before-jobs, non-emptiness and the count and (exclusive) byte limits',
          'trusted: json-backed orjson shim; oracle in vf/monitors/c19.py; byte limit read as exclusive per the code\'s own assertion')
    check('C20', 'exploration', 'runtime monitoring of the real gather helpers on a virtual-time asyncio loop under seeded schedules, failures, nesting and cancellations; CancelledError born inside partial functions; first failure within a burst for the online pool',
          'enter/exit of every task body, every helper call/return and the task set are recorded under ~4.5k/280k distinct completion schedules (permits 1-5, 0-12 bodies, nesting <= 2) and checked against the bound, result order, error contract, cancellation and no-task-left rules',
          'trusted: vf/sim/vloop.py, CPython asyncio, the body/driver instrumentation in c20.py; the caller holds one permit as the repository\'s callers do')
    check('C21', 'exploration', 'real retry helpers on a virtual-time loop with enumerated and random exception sequences against an independent classification table; failures raised while another exception is being handled (implicit context)',
          'every exception sequence up to length 3/4 over 23 representative values and up to length 7 over limited/transient/rate-limit symbols, plus seeded longer ones; number of calls, propagated exception and every delay (both jitter extremes) are checked',
          'trusted: the 59-row classification table in c21.py written from the statement and code comments; exception classes that only exist as inert stubs are excluded and listed')
    check('C25', 'exploration', 'grammar-directed + exhaustive small-decimal generation over the real parsers and the real job validator, exact-rational oracle, client/server acceptance differential',
          'every decimal below 20/100 with up to three places times every unit plus seeded strings of every spelling class are parsed by the real functions and validated by the real whole-job validator; values are compared with exact rational arithmetic and acceptance must agree',
          'trusted: fractions.Fraction; recogniser in vf/monitors/c25.py; numerals > 4000 digits not explored')
    check('C29', 'exploration', 'grammar-based hostile URL generation over the real validator with a WHATWG-URL browser-navigation reference model (three-valued); handler phase: the live auth route table on a real aiohttp router, 16 session states, every 3xx Location judged',
          'seeded URLs combining schemes, slash/backslash forms, userinfo tricks, host look-alikes, ports and whitespace/control injection around the configured hosts are passed to the real validate_next_page_url; every accepted string must, per the model, navigate to one of the four configured hosts',
          'trusted: the browser_destination model in vf/monitors/c29.py (IDNA / IP literals / file / ftp / ws answered unknown and not judged)')
    check('C30', 'exploration', 'real PR / WatchedBranch state machine on a virtual-time loop against GitHub and batch protocol fakes; oracle at every accepted merge; train phase with fault plans at the fake GitHub and non-refreshing updates; real current target judged at the merge endpoint',
          'seeded 4-8 h histories of pushes, reviews, labels, statuses, batch results, target moves, API faults and lost webhooks; every merge GitHub accepted is judged on what CI had last fetched (approved, no do-not-merge label, all checks green on the head, batch against the current target, one merge per target fetch)',
          'trusted: vf/sim/fake_github.py (REST + GraphQL + merge preconditions, no branch protection), fake batch client, vf/sim/vloop.py')
    check('C38', 'fault_enumeration', 'crash-point enumeration over a provenance-tracking engine fake + partitioning sweep on the real function',
          'the real VariantDatasetCombiner is run to completion, stopped and resumed at every step boundary, at every operation inside save() and at sampled operations of run(); the final dataset must be built from exactly the given inputs once each; the real even-genome partitioning is swept over real contig tables and interval sizes',
          'trusted: vf/sim/fake_hl.py (provenance-tracking stand-in for the Hail engine and FS)')

    check('C09', 'fault_enumeration', 'real client (aioclient + its retry layer) over a fake transport into the real front-end handlers; fault plans over the requests it sends; twin-run comparison; the fault-free run itself judged against the submission the client built',
          'for generated submissions (fast and multi-bunch paths, first and later updates) every single-request fault {lost response, dropped request, duplicated delivery, foreign update interleaved} and sampled pairs are injected; the outcome is compared with the fault-free twin (batches, updates, jobs, groups, dependencies, counters, id ranges, client-computed ids)',
          SQL_NOTE + '; lost response / dropped request are modelled as HTTP 503 after / before the handler ran')
    check('C14', 'exploration', 'route x caller x target enumeration on the live route table with response + table-diff oracle; response-content oracle over listings with search expressions; membership revocation phase; the service\'s own on_startup runs',
          'every registered route of the front end is called as 8 caller classes on up to 5 target batches through the real aiohttp router and decorators (auth service faked); a required denial must be an error response with byte-identical tables before and after',
          'trusted: minimysql for the membership / owner filters, fake auth service, aiohttp_session shim; policy map written from the property statement; UI templates render through an inert stub')
    check('C16', 'exploration', 'boundary event history + reference-FIFO and quiescent-point liveness oracles under virtual time',
          'seeded schedules of the real FIFOWeightedSemaphore (2-12 jobs, ties, zero holds): never over capacity, no grant before the FIFO reference would grant, no fitting head waiter at any quiescent point',
          'trusted: vf/sim/vloop.py, vf/sim/quiesce.py, a 20-line reference FIFO; cancellation is outside the property and not injected')
    check('C24', 'exploration', 'admission history checked with exact arithmetic (sliding-window count + unused-admissible-time) under a controlled clock; abandoned waiters (cancel / timeout / teardown), failing and cancelled bodies',
          'seeded arrival patterns (bursts, steady, arrivals at expiry instants, non-representable windows) through the real RateLimiter with its clock redirected; no window over count beyond 1 ulp, no admissible stretch longer than 2 us left unused',
          'trusted: virtual loop with one-ulp timer resolution, clock magnitude ~ time.time(), the two tolerances')
    check('C26', 'exploration', 'lookup / load / cancel event history with bounded, fresh, single-flight and justified-failure oracles under virtual time',
          'seeded schedules (<= 4 keys, capacity 1-3, load failures, cancellation of first and later callers while others wait, arrivals at exact expiry) through the real TimeLimitedMaxSizeCache',
          'trusted: prometheus_async shim (transcribed, self-tested), virtual loop')
    check('C40', 'exploration', 'boundary event history + capacity-conservation check at quiescent points + final acquire(max) probe, cancellation injected in every state',
          'seeded schedules of the real WeightedSemaphore with cancellation of waiting, just-woken and holding tasks and raising bodies: never over capacity and no capacity consumed by nobody at any quiescent point',
          'trusted: vf/sim/vloop.py, vf/sim/quiesce.py; a reference semaphore is used for classification only')

    check('C39', 'exploration', 'concurrent world under virtual time: real driver loop bodies, fake workers, clients, preemption injector, seeded delays at every SQL statement; bounded-progress and no-double-run oracles; directed orphaned-attempt scenario; lost worker answers; recorded attempts running side by side; edge rule on fallbacks to Ready',
          'during a fault phase (preemptions, lost / duplicated worker messages, cancellations) and a quiescent phase of bounded length the real scheduler, JPIM and canceller loop bodies run as concurrent tasks whose database statements interleave; afterwards every committed job must be terminal, cancelled batches complete, always-run jobs not Cancelled, and no older attempt may keep running beside a newer one',
          SQL_NOTE + '; unbounded liveness is restated as bounded progress (R = 4 x #jobs + 10 rounds); the autoscaler and the worker are harness stand-ins; replays of a single case may schedule differently from the in-shard run (object-identity ordered sets inside asyncio)')
    check('C11', 'exploration', 'icontract post-condition with an exact-rational water-filling reference over seeded and exhaustive-small inputs',
          'the real PoolScheduler._compute_fair_share (fed by a fake query result) is compared with an exact water-filling allocation on ~35k / 1.6M demand multisets incl. ties, zeros, huge values and negative / zero / exact-fit / surplus free cores; one mcpu of rounding slack per user',
          'trusted: the Fraction reference, icontract, the fake DB generator')
    check('C12', 'exploration', 'grammar-directed request strings x generated pool deployments through the real handler / selection code, exact-rational request evaluator + brute-force satisfiability oracle',
          'request strings accepted by the real validator are placed by the real _create_jobs / select_inst_coll / convert_requests_to_resources on generated gcp and azure pool configurations; grants must cover the request and fit one worker, rejections must be confirmed by a brute-force search over all configured collections',
          'trusted: the Fraction evaluator and satisfiability predicate, the machine-type tables as the truth about worker sizes, the recording fake DB; inert SDK stubs are asserted never to be called')
    check('C13', 'exploration', 'enumeration of machine types x disk / preemptible / region options with packing-sum and serialization round-trip oracles; absolute whole-worker reference computed from creation parameters',
          'for every machine type of both clouds and every pool the config page can build: per resource, the billed quantities of any packing of power-of-two requests never exceed the whole worker, the whole-worker job is billed exactly the worker, and to_dict / from_dict reload bills identically',
          'trusted: a fake ProductVersions table in which every product exists; json as the storage format')
    check('C15', 'exploration', 'schema-walking spec generator through the real validator and handler, all format versions, exhaustive region subsets <= 12 and random <= 63',
          'specs generated from the real job_validator are stored by the real _create_jobs under every format version and read back with the real getters; region subsets are converted to bits and back (exhaustive up to 12 regions, random up to 63, ids up to 63)',
          'trusted: the recording fake DB and file store')
    check('C31', 'exploration', 'print / parse round trip on real code + transcribed IRLexer / type_expr model over hostile Unicode identifiers and a code-point sweep',
          'every generated nested type parses back equal, and its _parsable_string / escaped identifiers are tokenised by a transcription of the engine lexer to the same names; characters whose Java class depends on the Unicode version are not judged',
          'trusted: the lexer / parser transcription in c31.py (from Parser.scala and StringEscapeUtils.scala; the Scala engine cannot run here), the parsimonious shim, vf/gen_hail_types.py')
    check('C32', 'exploration', 'type-directed value generation + JSON wire round trip with NaN / container-aware equality and failure localisation',
          'generated well-typed values (missing anywhere, non-finite floats, calls, loci, intervals, sets, dicts, ndarrays, nested structs) are converted to the JSON wire form and back by the real code and must come back equal',
          'trusted: vf/gen_hail_types.py (generator and equality)')
    check('C33', 'exploration', 'encode / decode round trip on real code + independent decoder written from EType.fromPythonTypeEncoding; struct values with permuted key order',
          'the bytes produced by the real encoder decode back equal, and an independent engine-layout decoder consumes them exactly to the same value',
          'trusted: the independent decoder in c33.py (written from the Scala EType sources; the engine cannot run here), vf/hail_call_model.py')
    check('C34', 'exploration', 'exhaustive small / boundary / random calls and genotype indices against a transcription of Call.scala / Genotype.scala with constants extracted from the Scala at run time',
          'the Python int32 packing equals the model for every call the model accepts without overflow, decode and index <-> allele pair are inverse; engine-rejected calls are recorded, not judged',
          'trusted: vf/hail_call_model.py (transcription; constants are re-extracted from the Scala sources on every run, extraction failure => INCONCLUSIVE)')
    check('C17', 'exploration', 'event log of really executed bash jobs under the real LocalBackend + job numbering vs the generator\'s own edge list and a least-fixpoint skip model; multi-run histories on one Batch (dry / failed / clean / rejected runs, cycles closed through numbered jobs)',
          'seeded random pipelines (DAGs and cyclic ones, explicit / resource-induced / group edges, always_run and failing sets, random call orders) are built with the real DSL and really run by LocalBackend; numbering, execution order, executed set, skip set, cycle rejection before anything runs and the raised error are compared with the model',
          'trusted: bash, the 20-line skip model in c17.py, the generator\'s edge list as the dependency relation')
    check('C18', 'exploration', 'recording fake batch client behind the real ServiceBackend + independent model of resource paths, parents, uploads / downloads and command literal segments; python jobs with nested container / keyword arguments; long shared job names',
          'generated pipelines (inputs, input groups, job files, declared groups, python results, add_extension before / after mention, hostile names, digit probes after references, colliding tokens) are compiled by the real DSL and submitted to a recording client; producer upload location = consumer download location, consumer is a child of the producer, every reference becomes its quoted local path and literal text is unchanged, distinct resources never share a path',
          'trusted: vf/monitors/c18.py model, the fake client records exactly what aioclient.Batch.create_job receives; an input group whose members would share a path must be refused at declaration')
    check('C35', 'exploration', 'differential rendering (real CSERenderer vs PlainRenderer) judged by a static scope checker and one reference IR evaluator; nested binding-site corpus; aggregation-context tokens for lifted aggregations',
          'seeded random and catalogued expression / Table DAGs with deliberate Python-object sharing (in and out of lambdas, across StreamAgg / StreamAggScan / If) are built through the real API, rendered by both renderers, scope-checked on every node and evaluated by one reference evaluator; no engine evaluation',
          'trusted: the scoping rules and evaluator in c35.py, vf/hail_fake_backend.py, vf/gen_hail_ir.py, shims')
    check('C36', 'exploration', 'construction-time contract hook on Expression.__init__ + top-down IR walk with the repository\'s binding metadata + order-precise transcription of the engine\'s relational typ rules (TableIR.scala / MatrixIR.scala) + schema model + literal round trip',
          'every expression built in generated literal / expression / API / Table / MatrixTable programs is compared with the IR node\'s own type rule re-applied from its children; every emitted IR is walked with binder types; after every Table / MatrixTable operation the emitted relational IR is re-typed bottom-up with the transcribed engine rules and compared exactly (field order included) with the Python node types and the wrappers; for value IR "type implied by the IR" is the Python IR rule',
          'trusted: vf/hail_relational_rules.py (hand transcription of the Scala typ rules of 33 judged + 20 further node classes; the engine cannot run here), the schema model and IR walk in c36.py, vf/hail_fake_backend.py, shims')
