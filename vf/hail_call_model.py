"""Reference model of the engine's genotype-call packing (trusted base of C34; C33 uses it for the bytes of a call).

A line-by-line Python transcription, with 32-bit two's-complement arithmetic, of

  is.hail.variant.Call.apply / ploidy / alleleRepr / allelePair(Unchecked) / alleles      hail/hail/src/is/hail/variant/Call.scala:77-148
  Call0 / Call1 / Call2.apply / Call2.fromUnphasedDiploidGtIndex / CallN.apply            Call.scala:14-75
  AllelePair.apply / j / k                                                                hail/hail/src/is/hail/variant/Genotype.scala:17-37
  Genotype.smallAllelePair / allelePairSqrt / allelePair / diploidGtIndex(WithSwap)       Genotype.scala:131-214

Every numeric constant (shifts, masks, the 2^29 bound, the 0xffff bound, the smallAllelePair table) is EXTRACTED from the
Scala sources at run time (``load(repo)``); the arithmetic shapes the transcription relies on are checked to be present
verbatim.  Anything missing raises ``ExtractionError`` (the monitors turn that into INCONCLUSIVE).
"""
import math
import os
import re


class ExtractionError(Exception):
    pass


class EngineRejects(Exception):
    """the engine would raise (fatal / require / assert / AssertionError) for this input"""


def i32(x):
    x &= 0xFFFFFFFF
    return x - (1 << 32) if x & 0x80000000 else x


def _idiv(a, b):
    """JVM int division: truncates toward zero"""
    q = abs(a) // abs(b)
    return q if (a >= 0) == (b >= 0) else -q


def _ushr(x, n):
    return (x & 0xFFFFFFFF) >> n


def _need(pattern, text, what, flags=0):
    m = re.search(pattern, text, flags)
    if not m:
        raise ExtractionError(f'cannot find {what} (pattern {pattern!r})')
    return m


def _int(s):
    return int(s, 16) if s.lower().startswith('0x') else int(s)


class CallModel:
    def __init__(self, consts, sources):
        self.c = consts
        self.sources = sources
        self.wrapped = False  # set when a 32-bit operation overflowed during the last public call

    # ---- 32-bit helpers that remember overflow -----------------------------------------------------
    def _w(self, exact):
        r = i32(exact)
        if r != exact:
            self.wrapped = True
        return r

    # ---- Genotype.scala --------------------------------------------------------------------------
    def allele_pair(self, j, k):  # AllelePair.apply, Genotype.scala:18-22
        lim = self.c['allele_pair_max']
        if not (0 <= j <= lim):
            raise EngineRejects(f'GTPair invalid j value {j}')
        if not (0 <= k <= lim):
            raise EngineRejects(f'GTPair invalid k value {k}')
        return i32(j | (k << self.c['allele_pair_k_shift']))

    def ap_j(self, p):  # Genotype.scala:30
        return p & self.c['allele_pair_max']

    def ap_k(self, p):  # Genotype.scala:31  (p >> 16) & 0xffff
        return (p >> self.c['allele_pair_k_shift']) & self.c['allele_pair_max']

    def diploid_gt_index(self, j, k):  # Genotype.scala:201-206
        if j < 0 or j > k:
            raise EngineRejects(f'invalid gtIndex: ({j}, {k})')
        return self._w(_idiv(self._w(k * self._w(k + 1)), 2) + j)

    def diploid_gt_index_with_swap(self, i, j):  # Genotype.scala:210-214
        return self.diploid_gt_index(j, i) if j < i else self.diploid_gt_index(i, j)

    def allele_pair_sqrt(self, i):  # Genotype.scala:187-193
        k = int(math.sqrt(8 * float(i) + 1) / 2 - 0.5)  # .toInt truncates toward zero, like int()
        tri = _idiv(self._w(k * self._w(k + 1)), 2)
        if not tri <= i:
            raise EngineRejects('assert(k * (k + 1) / 2 <= i)')
        j = self._w(i - tri)
        try:
            back = self.diploid_gt_index(j, k)
        except EngineRejects:
            raise
        if back != i:
            raise EngineRejects('assert(diploidGtIndex(j, k) == i)')
        return self.allele_pair(j, k)

    def gt_allele_pair(self, i):  # Genotype.allelePair, Genotype.scala:195-199
        small = self.c['small_allele_pair']
        if i < len(small):
            if i < 0:
                raise EngineRejects('ArrayIndexOutOfBounds')
            j, k = small[i]
            return self.allele_pair(j, k)
        return self.allele_pair_sqrt(i)

    # ---- Call.scala ------------------------------------------------------------------------------
    def call_apply(self, ar, phased, ploidy):  # Call.apply, Call.scala:78-97
        if ploidy < 0 or ploidy > self.c['max_ploidy']:
            raise EngineRejects(f'invalid ploidy: {ploidy}')
        if ar < 0:
            raise EngineRejects(f'invalid allele representation: {ar}. Must be positive.')
        c = 0
        c |= 1 if phased else 0
        c |= ploidy << self.c['ploidy_shift']
        if _ushr(ar, self.c['allele_repr_bits']) != 0:
            raise EngineRejects(f'invalid allele representation: {ar}. Max value is 2^{self.c["allele_repr_bits"]} - 1')
        c |= i32(ar << self.c['allele_repr_shift'])
        return i32(c)

    def call0(self, phased):  # Call.scala:14-17
        return self.call_apply(0, phased, 0)

    def call1(self, aj, phased):  # Call.scala:19-25
        if aj < 0:
            raise EngineRejects(f'allele index must be >= 0. Found {aj}.')
        return self.call_apply(aj, phased, 1)

    def call2(self, aj, ak, phased):  # Call2.apply, Call.scala:37-46
        if aj < 0 or ak < 0:
            raise EngineRejects(f'allele indices must be >= 0. Found j={aj} and k={ak}.')
        if phased:
            return self.call_apply(self.diploid_gt_index(aj, self._w(aj + ak)), True, 2)
        gt = self.diploid_gt_index_with_swap(aj, ak)  # fromUnphasedDiploidGtIndex, Call.scala:28-35
        if gt < 0:
            raise EngineRejects(f'gt must be >= 0. Found {gt}.')
        if _ushr(gt, self.c['allele_repr_bits']) != 0:
            raise EngineRejects(f'invalid allele representation: {gt}')
        return i32(2 << self.c['ploidy_shift'] | i32(gt << self.c['allele_repr_shift']))

    def encode(self, alleles, phased):
        """CallN.apply (Call.scala:66-74) -> (int32, wrapped?) ; raises EngineRejects.  `alleles` must fit JVM Ints."""
        self.wrapped = False
        for a in alleles:
            if not -(2**31) <= a < 2**31:
                raise ValueError('not a JVM Int')
        n = len(alleles)
        if n == 0:
            c = self.call0(phased)
        elif n == 1:
            c = self.call1(alleles[0], phased)
        elif n == 2:
            c = self.call2(alleles[0], alleles[1], phased)
        else:
            raise EngineRejects('UnsupportedOperationException')
        return c, self.wrapped

    def ploidy(self, c):  # Call.scala:109
        return _ushr(c, self.c['ploidy_shift']) & self.c['ploidy_mask']

    def is_phased(self, c):  # Call.scala:99
        return (c & 0x1) == 1

    def allele_repr(self, c):  # Call.scala:111
        return _ushr(c, self.c['allele_repr_shift'])

    def decode(self, c):
        """Call.alleles + isPhased (Call.scala:113-127, 141-148) -> (alleles, phased)"""
        self.wrapped = False
        p = self.ploidy(c)
        phased = self.is_phased(c)
        if p == 0:
            return [], phased
        if p == 1:
            return [self.allele_repr(c)], phased
        if p == 2:
            ap = self.gt_allele_pair(self.allele_repr(c))
            if phased:
                j, k = self.ap_j(ap), self.ap_k(ap)
                ap = self.allele_pair(j, k - j)
            return [self.ap_j(ap), self.ap_k(ap)], phased
        raise EngineRejects('UnsupportedOperationException')


def load(repo):
    """Extract the constants from the Scala sources under `repo` and return a CallModel."""
    base = os.path.join(repo, 'hail', 'hail', 'src', 'is', 'hail', 'variant')
    try:
        with open(os.path.join(base, 'Call.scala')) as f:
            call = f.read()
        with open(os.path.join(base, 'Genotype.scala')) as f:
            geno = f.read()
    except OSError as e:
        raise ExtractionError(f'cannot read the Scala sources: {e}')
    c = {}
    # --- Call.apply ---------------------------------------------------------------------------------
    m = _need(r'def apply\(ar: Int, phased: Boolean, ploidy: Int, errorID: Int = -1\): Call = \{(.*?)\n  \}', call, 'Call.apply', re.S)
    body = m.group(1)
    c['max_ploidy'] = _int(_need(r'if \(ploidy < 0 \|\| ploidy > (\d+)\)', body, 'ploidy bound').group(1))
    _need(r'if \(ar < 0\)\s*\n\s*fatal', body, 'ar < 0 check')
    _need(r'c \|= phased\.toInt', body, 'phased bit 0')
    c['ploidy_shift'] = _int(_need(r'c \|= \(ploidy << (\d+)\)', body, 'ploidy shift').group(1))
    c['allele_repr_bits'] = _int(_need(r'if \(\(ar >>> (\d+)\) != 0\)\s*\n\s*fatal', body, 'allele representation bound').group(1))
    c['allele_repr_shift'] = _int(_need(r'c \|= ar << (\d+)', body, 'allele representation shift').group(1))
    m = _need(r'def ploidy\(c: Call\): Int = \(c >>> (\d+)\) & (0x[0-9a-fA-F]+|\d+)', call, 'Call.ploidy')
    if _int(m.group(1)) != c['ploidy_shift']:
        raise ExtractionError('Call.ploidy shift differs from Call.apply')
    c['ploidy_mask'] = _int(m.group(2))
    if _int(_need(r'def alleleRepr\(c: Call\): Int = c >>> (\d+)', call, 'Call.alleleRepr').group(1)) != c['allele_repr_shift']:
        raise ExtractionError('Call.alleleRepr shift differs from Call.apply')
    _need(r'def isPhased\(c: Call\): Boolean = \(c & 0x1\) == 1', call, 'Call.isPhased')
    # Call2
    m = _need(r'def fromUnphasedDiploidGtIndex\(gt: Int\): Call = \{(.*?)\n  \}', call, 'Call2.fromUnphasedDiploidGtIndex', re.S)
    if _int(_need(r'if \(\(gt >>> (\d+)\) != 0\)', m.group(1), 'gt bound').group(1)) != c['allele_repr_bits']:
        raise ExtractionError('fromUnphasedDiploidGtIndex bound differs from Call.apply')
    m2 = _need(r'ploidy << (\d+) \| gt << (\d+)', m.group(1), 'fromUnphasedDiploidGtIndex packing')
    if (_int(m2.group(1)), _int(m2.group(2))) != (c['ploidy_shift'], c['allele_repr_shift']):
        raise ExtractionError('fromUnphasedDiploidGtIndex shifts differ from Call.apply')
    _need(r'if \(gt < 0\)\s*\n\s*fatal', m.group(1), 'gt < 0 check')
    _need(r'Call\(Genotype\.diploidGtIndex\(aj, aj \+ ak\), true, ploidy = 2\)', call, 'Call2.apply phased branch')
    _need(r'fromUnphasedDiploidGtIndex\(Genotype\.diploidGtIndexWithSwap\(aj, ak\)\)', call, 'Call2.apply unphased branch')
    _need(r'AllelePair\(j, k - j\)', call, 'Call.allelePairUnchecked phased branch')
    # --- Genotype.scala ---------------------------------------------------------------------------
    m = _need(r'object AllelePair \{\s*def apply\(j: Int, k: Int\): Int = \{(.*?)\n  \}', geno, 'AllelePair.apply', re.S)
    lims = re.findall(r'require\((\w) >= 0 && \1 <= (0x[0-9a-fA-F]+|\d+)', m.group(1))
    if sorted(x for x, _ in lims) != ['j', 'k'] or len({_int(v) for _, v in lims}) != 1:
        raise ExtractionError('AllelePair.apply bounds')
    c['allele_pair_max'] = _int(lims[0][1])
    c['allele_pair_k_shift'] = _int(_need(r'j \| \(k << (\d+)\)', m.group(1), 'AllelePair packing').group(1))
    m = _need(r'def j\(p: Int\): Int = p & (0x[0-9a-fA-F]+)', geno, 'AllelePair.j')
    m2 = _need(r'def k\(p: Int\): Int = \(p >> (\d+)\) & (0x[0-9a-fA-F]+)', geno, 'AllelePair.k')
    if not (_int(m.group(1)) == _int(m2.group(2)) == c['allele_pair_max'] and _int(m2.group(1)) == c['allele_pair_k_shift']):
        raise ExtractionError('AllelePair.j/k disagree with AllelePair.apply')
    m = _need(r'val smallAllelePair: Array\[Int\] = Array\((.*?)\n  \)', geno, 'Genotype.smallAllelePair', re.S)
    entries = re.findall(r'AllelePair\((\d+), (\d+)\)', m.group(1))
    leftovers = re.sub(r'AllelePair\(\d+, \d+\)|[\s,]', '', m.group(1))
    if not entries or leftovers:
        raise ExtractionError(f'Genotype.smallAllelePair has an unexpected shape ({leftovers[:40]!r})')
    c['small_allele_pair'] = [(int(a), int(b)) for a, b in entries]
    _need(r'val k: Int = \(Math\.sqrt\(8 \* i\.toDouble \+ 1\) / 2 - 0\.5\)\.toInt', geno, 'allelePairSqrt formula')
    _need(r'assert\(k \* \(k \+ 1\) / 2 <= i\)\s*\n\s*val j = i - k \* \(k \+ 1\) / 2\s*\n\s*assert\(diploidGtIndex\(j, k\) == i\)\s*\n\s*AllelePair\(j, k\)', geno, 'allelePairSqrt body')
    _need(r'def allelePair\(i: Int\): Int =\s*\n\s*if \(i < smallAllelePair\.length\)\s*\n\s*smallAllelePair\(i\)\s*\n\s*else\s*\n\s*allelePairSqrt\(i\)', geno, 'Genotype.allelePair')
    _need(r'def diploidGtIndex\(j: Int, k: Int\): Int = \{\s*\n\s*if \(j < 0 \| j > k\) \{\s*\n\s*throw new AssertionError\(.*?\)\s*\n\s*\}\s*\n\s*k \* \(k \+ 1\) / 2 \+ j\s*\n\s*\}', geno, 'Genotype.diploidGtIndex')
    _need(r'def diploidGtIndexWithSwap\(i: Int, j: Int\): Int =\s*\n\s*if \(j < i\)\s*\n\s*diploidGtIndex\(j, i\)\s*\n\s*else\s*\n\s*diploidGtIndex\(i, j\)', geno, 'Genotype.diploidGtIndexWithSwap')
    return CallModel(c, ['hail/hail/src/is/hail/variant/Call.scala', 'hail/hail/src/is/hail/variant/Genotype.scala'])
