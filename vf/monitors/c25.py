"""C25 Resource-size strings parse to their decimal value.

Real code: hailtop.batch_client.parse.parse_cpu_in_mcpu / parse_memory_in_bytes / parse_storage_in_bytes
(the "client parser"; also what the batch front end calls after validation) and the server's
batch.front_end.validate.validate_and_clean_jobs on a whole job spec carrying the string in
resources.cpu / resources.memory / resources.storage (the "server validator").

Oracle: a hand-written recogniser (character loop, no regex) of the size grammar
    [+] digits* [. ] digits+ unit? B?          (cpu: unit = m, no B;  memory/storage: unit = K Ki M Mi G Gi T Ti P Pi)
splits the string into numeral and unit; the denoted value is the exact rational fractions.Fraction(N, 10**d);
cpu must be floor(value * 1000) (value, when the unit is m), memory/storage must be ceil(value * factor).
  * string in the grammar and the parser returns another int / a non-int / raises  => violation
    (a documented spelling rejected by both sides is counted, not judged: the property speaks of accepted spellings);
  * client parser accepts (returns non-None) <=> server validator accepts (memory additionally accepts the
    symbolic machine-memory names lowmem/standard/highmem on the server, which are not size strings) else violation;
  * string outside the recogniser's grammar accepted by *both* sides: value not judged (counted); the parser
    raising on a string the server validator accepts is a violation.
A wrong value is attributed to the binary-float mechanism only if it equals what the float evaluation of the
same formula gives (so that a known-finding key for float artefacts cannot mask a different defect).

Workload: phase 'grid' (exhaustive): every decimal i.f with i < I and up to 3 fractional digits, times every unit
spelling; phase 'grammar': seeded grammar-directed strings of every spelling class (sign, missing integer part,
leading/trailing zeros, 1-3 place decimals, curated float-hostile decimals, long and very long fractions, values
just below/above a rounding boundary, around 2**53, huge and float-overflowing integers, underflowing fractions,
every unit, optional B) and near-miss mutations that must be rejected by both sides.
"""
import math
from fractions import Fraction

PID = 'C25'
LEVEL = 'exploration'
RULE = (
    'phase grid: exhaustive decimals i.f, i < 20 (quick) / 100 (thorough, sharded), 0-3 fractional digits, x {"", m} for cpu and '
    'x {"", K, Ki, M, Mi, G, Gi, T, Ti, P, Pi} for memory and storage; phase grammar: seeded grammar-directed numerals '
    '(sign, .5, leading zeros, trailing zeros, 1-3 places, curated non-representable decimals, 4-30 and 50-400 digit fractions, '
    'boundary +-epsilon, 2**53 neighbourhood, 20-60 digit and 309-1200 digit integers, underflowing fractions) x every unit x optional B, '
    'plus one-edit near-miss mutations (whitespace, newline, case, wrong unit, exponent, underscore, Unicode digits, trailing dot, signs). '
    'Numerals longer than 4000 digits are not explored (CPython int<->str digit limit). '
    'Distinct by (kind, string); non-trivial when the string has a fraction, a unit, more than 15 digits or is a near-miss.'
)
ASSUMPTIONS = [
    'the hand-written recogniser in this file is the documented size grammar (number, optional unit K..Pi / m, optional B, optional leading +)',
    'lowmem/standard/highmem are machine-memory names, not size strings, and are excluded from the client<=>server acceptance comparison',
]
TRUSTED_BASE = ['fractions.Fraction', 'recogniser and expected-value arithmetic in this file']
SHARDS = {'quick': 1, 'thorough': 16}
TIMEOUT = {'quick': 900, 'thorough': 3600}


def FLOORS(tier):
    k = 1 if tier == 'quick' else 8
    return {
        'values_checked_cpu': 50_000 * k,
        'values_checked_memory': 250_000 * k,
        'values_checked_storage': 250_000 * k,
        'rounding_matters_cpu': 2_000 * k,
        'rounding_matters_memory': 20_000 * k,
        'float_unrepresentable_numerals': 100_000 * k,
        'rejected_by_both': 10_000 * k,
        'server_whole_job_validations': 100_000 * k,
        'spelling_classes': 18,
        'units_seen': 13,
        'optional_B': 5_000 * k,
        'leading_plus': 5_000 * k,
    }


FACTOR = {'': 1, 'K': 1000, 'Ki': 1024, 'M': 1000**2, 'Mi': 1024**2, 'G': 1000**3, 'Gi': 1024**3,
          'T': 1000**4, 'Ti': 1024**4, 'P': 1000**5, 'Pi': 1024**5}
MEM_UNITS = list(FACTOR)
DIGITS = '0123456789'


def recognise(kind, s):
    """-> (intpart, fracpart, unit) if `s` is in the size grammar of `kind`, else None.  No regex."""
    if not isinstance(s, str):
        return None
    i, n = 0, len(s)
    if i < n and s[i] == '+':
        i += 1
    j = i
    while j < n and s[j] in DIGITS:
        j += 1
    ip = s[i:j]
    fp = ''
    if j < n and s[j] == '.':
        k = j + 1
        while k < n and s[k] in DIGITS:
            k += 1
        fp = s[j + 1:k]
        if fp == '':
            return None  # "5." / "."
        j = k
    elif ip == '':
        return None
    rest = s[j:]
    if kind == 'cpu':
        if rest in ('', 'm'):
            return ip, fp, rest
        return None
    if rest.endswith('B'):
        rest = rest[:-1]
    if rest == '':
        return ip, fp, ''
    if rest[0] in 'KMGTP' and rest[1:] in ('', 'i'):
        return ip, fp, rest
    return None


def exact(kind, ip, fp, unit):
    value = Fraction(int((ip + fp) or '0'), 10 ** len(fp))
    if kind == 'cpu':
        return math.floor(value) if unit == 'm' else math.floor(value * 1000)
    return math.ceil(value * FACTOR[unit])


def float_formula(kind, ip, fp, unit):
    """What a binary-float evaluation of the same formula gives (used only to *name* the mechanism)."""
    try:
        x = float((ip or '0') + ('.' + fp if fp else ''))
        if kind == 'cpu':
            if unit == 'm':
                x /= 1000
            return int(x * 1000)
        return math.ceil(x * FACTOR[unit]) if unit else math.ceil(x)
    except OverflowError as e:
        return e
    except ValueError as e:  # nan
        return e


def classify(kind, ip, fp, unit, got, want):
    fl = float_formula(kind, ip, fp, unit)
    if isinstance(got, Exception):
        if isinstance(got, OverflowError) and isinstance(fl, OverflowError):
            return f'{kind}/float-overflow-raises'
        return f'{kind}/raises'
    if not isinstance(got, int) or isinstance(got, bool):
        return f'{kind}/wrong-type'
    if not isinstance(fl, Exception) and got == fl:
        return f'{kind}/float-rounding-{"down" if got < want else "up"}'
    return f'{kind}/wrong-value'


CURATED = ['0.1', '0.2', '0.3', '0.7', '1.1', '8.3', '16.1', '1.001', '4.35', '2.675', '1.005', '0.07', '0.29', '0.57', '0.58',
           '1.15', '8.2', '0.067', '2.007', '0.27', '0.71', '0.001', '0.0001', '0.25', '0.5', '0.125', '1.0', '2.50', '3.75', '7.5',
           '0.999', '0.9999', '1.0005', '1.9999', '16.001', '1001', '1023', '1024', '1025', '999', '250', '500', '2001', '4001',
           '33.3', '66.6', '100.1', '0.3333333333333333', '0.6666666666666666', '0.1000000000000000055511151231257827']


def gen_numeral(rng):
    """-> (text, spelling class label)"""
    c = rng.randrange(20)
    if c == 0:
        return str(rng.randint(0, 2000)), 'int-small'
    if c == 1:
        return str(rng.choice([1001, 1003, 1009, 2001, 4001, 8001, 1023, 1024, 1025, 65535, 65536, 10**6 + 1, 10**9 + 7, rng.randint(1000, 200_000)])), 'int-boundary'
    if c == 2:
        return '0' * rng.randint(1, 5) + str(rng.randint(0, 999)), 'int-leading-zeros'
    if c == 3:
        return str(2**53 * rng.choice([1, 1, 2, 3, 1000]) + rng.randint(-3, 3)), 'int-near-2^53'
    if c == 4:
        return ''.join(rng.choice(DIGITS) for _ in range(rng.randint(17, 60))).lstrip('0') or '7', 'int-huge'
    if c == 5:
        return rng.choice('123456789') + ''.join(rng.choice(DIGITS) for _ in range(rng.randint(308, 1200))), 'int-float-overflow'
    if c in (6, 7, 8, 9):
        d = rng.randint(1, 3)
        return f'{rng.randint(0, rng.choice([1, 20, 20, 100, 2000]))}.{rng.randrange(10**d):0{d}d}', 'dec-1-3-places'
    if c in (10, 11):
        return rng.choice(CURATED), 'dec-curated'
    if c == 12:
        d = rng.randint(1, 6)
        return f'.{rng.randrange(10**d):0{d}d}', 'dec-no-integer-part'
    if c == 13:
        return f'{rng.randint(0, 64)}.{rng.randint(0, 99)}' + '0' * rng.randint(1, 20), 'dec-trailing-zeros'
    if c == 14:
        return f'{rng.randint(0, 2000)}.' + ''.join(rng.choice(DIGITS) for _ in range(rng.randint(4, 30))), 'dec-long-fraction'
    if c == 15:
        return f'{rng.randint(0, 64)}.' + ''.join(rng.choice(DIGITS) for _ in range(rng.randint(50, 400))), 'dec-very-long-fraction'
    if c == 16:  # just below a millicore / byte boundary
        d = rng.randint(0, 3)
        head = f'{rng.randint(0, 16)}.' + (f'{rng.randrange(10**d):0{d}d}' if d else '')
        return head + '9' * rng.randint(14, 40), 'dec-just-below-boundary'
    if c == 17:  # just above
        d = rng.randint(0, 3)
        head = f'{rng.randint(0, 16)}.' + (f'{rng.randrange(10**d):0{d}d}' if d else '')
        return head + '0' * rng.randint(14, 40) + '1', 'dec-just-above-boundary'
    if c == 18:
        return '0.' + '0' * rng.randint(300, 420) + str(rng.randint(1, 9)), 'dec-float-underflow'
    return f'{rng.randint(0, 10**rng.randint(1, 15))}.{rng.randint(0, 10**rng.randint(1, 12))}', 'dec-wide'


def mutate(rng, s, kind):
    """one-edit near misses (most are outside the grammar; the recogniser decides)"""
    m = rng.randrange(22)
    if m == 0:
        return s + '\n'
    if m == 1:
        return s + ' '
    if m == 2:
        return ' ' + s
    if m == 3:
        return s.lower() if s.lower() != s else s + 'k'
    if m == 4:
        return s + ('K' if kind == 'cpu' else 'm')
    if m == 5:
        return s.rstrip('BKMGTPim') + 'e3'
    if m == 6:
        return s[:1] + '_' + s[1:]
    if m == 7:
        t = str.maketrans('0123456789', rng.choice(['٠١٢٣٤٥٦٧٨٩', '０１２３４５６７８９', '०१२३४५६७८९']))
        return s.translate(t)
    if m == 8:
        core = s.rstrip('BKMGTPim')
        return core + '.' + s[len(core):] if '.' not in core else core.split('.')[0] + '.' + s[len(core):]
    if m == 9:
        return '-' + s.lstrip('+')
    if m == 10:
        return '+' + s if s.startswith('+') else '++' + s
    if m == 11:
        return s + 'B' if s.endswith('B') or kind == 'cpu' else s + 'BB'
    if m == 12:
        return s.rstrip('BKMGTPim') + 'iB'
    if m == 13:
        return ''
    if m == 14:
        return rng.choice(['.', '+', 'B', 'Ki', 'm', 'inf', 'nan', '1e3', '0x10', '1/2', 'Infinity', '1,5', '1 G', '1G i', '٣', 'standard', 'lowmem', 'highmem', 'STANDARD'])
    if m == 15:
        return s.replace('.', '..', 1) if '.' in s else s + '.5.5'
    if m == 16:
        return s + rng.choice(['\x00', '\t', '\r\n', '\x0b', '\x85', ' '])
    if m == 17:
        return s.rstrip('B') + 'b'
    if m == 18:
        core = s.rstrip('BKMGTPim')
        return core + ' ' + s[len(core):] if s[len(core):] else core + ' B'
    if m == 19:
        return s.rstrip('BKMGTPim') + rng.choice(['E', 'Ei', 'k', 'Kib', 'KI', 'mi', 'mm', 'Mm', 'kB', 'Bi', 'iK'])
    if m == 20:
        return '\n' + s
    return s + s[-1:]


def run(ctx):
    import copy

    from batch.front_end import validate as V
    from batch.globals import memory_types
    from hailtop.batch_client import parse as P
    from hailtop.utils.validate import ValidationError

    parsers = {'cpu': P.parse_cpu_in_mcpu, 'memory': P.parse_memory_in_bytes, 'storage': P.parse_storage_in_bytes}
    base_job = {
        'job_id': 1, 'always_run': False, 'attributes': {'name': 'j'}, 'env': [{'name': 'A', 'value': 'b'}],
        'process': {'type': 'docker', 'command': ['true'], 'image': 'ubuntu:22.04'},
        'resources': {'preemptible': True},
    }

    def server_accepts(kind, s):
        """the server's whole-job validator on a job spec carrying the string"""
        job = copy.deepcopy(base_job)
        job['resources'][kind] = s
        ctx.count('server_whole_job_validations')
        try:
            V.validate_and_clean_jobs([job])
            return True
        except ValidationError:
            return False

    def server_field_accepts(kind, s):
        try:
            V.job_validator['resources'][kind].validate('x', s)
            return True
        except ValidationError:
            return False

    def evaluate(kind, s, label, whole_job=True):
        try:
            got = parsers[kind](s)
        except Exception as e:  # noqa: BLE001
            got = e
        client_ok = got is not None and not isinstance(got, Exception)
        srv = server_accepts(kind, s) if whole_job else server_field_accepts(kind, s)
        parsed = recognise(kind, s)
        wit = {'kind': kind, 'string': s if len(s) <= 120 else s[:60] + f'...<{len(s)} chars>...' + s[-40:], 'full_string': s, 'class': label}
        nontrivial = parsed is None or bool(parsed[1]) or bool(parsed[2]) or len(parsed[0]) > 15
        ctx.case(sample={'kind': kind, 'string': wit['string'], 'class': label}, key=(kind, s), nontrivial=nontrivial)
        # -- acceptance agreement ---------------------------------------------------------------
        client_side = client_ok or isinstance(got, Exception)  # a crash is judged below, not as a rejection
        symbolic = kind == 'memory' and s in memory_types
        if srv != client_side and not symbolic:
            ctx.violation(f'{kind}/client-server-acceptance-mismatch',
                          f'parse_{kind}({wit["string"]!r}) {"accepts" if client_side else "rejects"} but the job validator {"accepts" if srv else "rejects"}',
                          {**wit, 'client_result': got, 'server_accepts': srv})
        if symbolic:
            ctx.count('symbolic_memory_names')
        if parsed is None:
            if client_ok:
                ctx.count(f'accepted_outside_model_grammar_{kind}')  # not judged
            elif isinstance(got, Exception):
                ctx.count(f'raised_outside_model_grammar_{kind}')
                if srv:  # the server admits the string, then the parser it calls next crashes on it
                    ctx.violation(f'{kind}/raises-on-server-accepted-string', f'parse_{kind}({wit["string"]!r}) raised {got!r} on a string the job validator accepts',
                                  {**wit, 'client_result': got})
            elif not srv:
                ctx.count('rejected_by_both')
            return
        # -- value -------------------------------------------------------------------------------
        ip, fp, unit = parsed
        if got is None:
            # The property speaks about *accepted* spellings.  A documented spelling that both sides reject is not
            # judged (the floors on units / optional B / leading + make the run INCONCLUSIVE if a whole class vanished);
            # if only the parser rejects it, the acceptance mismatch has been reported above.
            ctx.count(f'documented_spelling_rejected_{kind}')
            return
        want = exact(kind, ip, fp, unit)
        ctx.count(f'values_checked_{kind}')
        ctx.seen('spelling_classes', label)
        ctx.seen('units_seen', f'{kind}:{unit}' if kind == 'cpu' else unit)
        num = Fraction(int((ip + fp) or '0'), 10 ** len(fp))
        scaled = num * (1 if (kind == 'cpu' and unit == 'm') else 1000 if kind == 'cpu' else FACTOR[unit])
        if scaled.denominator != 1:
            ctx.count(f'rounding_matters_{kind}')
        try:
            if Fraction(float((ip or '0') + ('.' + fp if fp else ''))) != num:
                ctx.count('float_unrepresentable_numerals')
        except OverflowError:
            ctx.count('float_unrepresentable_numerals')
        if s.startswith('+'):
            ctx.count('leading_plus')
        if kind != 'cpu' and s.endswith('B'):
            ctx.count('optional_B')
        if isinstance(got, Exception) or type(got) is not int or got != want:
            key = classify(kind, ip, fp, unit, got, want)
            if len((ip + fp).strip('0')) <= 6 and len(ip) <= 4:
                ctx.count(f'wrong_on_everyday_numeral_{kind}')  # e.g. 8.3G, 1.001, 1001m: at most 6 significant digits
            shown = got if not isinstance(got, int) or abs(got) < 10**40 else f'<{len(str(got))}-digit int>'
            ctx.violation(key, f'parse_{kind}({wit["string"]!r}) = {shown!r}, exact value is {want if abs(want) < 10**40 else "<huge>"}',
                          {**wit, 'got': got if not isinstance(got, int) or abs(got) < 10**60 else str(got)[:60] + '...',
                           'want': want if abs(want) < 10**60 else str(want)[:60] + '...', 'numeral': (ip, fp), 'unit': unit})

    # ---- replay: any recorded witness (grid or grammar phase) is re-evaluated directly ------------------
    if ctx.replay is not None:
        w = ctx.replay.get('witness') or {}
        if 'full_string' in w and w.get('kind') in parsers:
            evaluate(w['kind'], w['full_string'], w.get('class', 'replay'))
        return

    # ---- phase grid (exhaustive, sharded) -----------------------------------------------------------
    if ctx.replay is None:
        I = ctx.pick(20, 100)
        n = 0
        for ip in range(I):
            for d in range(0, 4):
                for fr in (range(10**d) if d else [None]):
                    n += 1
                    if n % ctx.n_shards != ctx.shard:
                        continue
                    num = str(ip) + (f'.{fr:0{d}d}' if d else '')
                    for u in ('', 'm'):
                        evaluate('cpu', num + u, 'grid', whole_job=False)
                    for u in MEM_UNITS:
                        evaluate('memory', num + u, 'grid', whole_job=False)
                        evaluate('storage', num + u, 'grid', whole_job=False)
        ctx.count('grid_numerals', n // ctx.n_shards)
        # integers with the m suffix (float(n)/1000*1000)
        for k in range(ctx.shard, ctx.pick(20_000, 200_000), ctx.n_shards):
            evaluate('cpu', f'{k}m', 'grid-int-m', whole_job=False)

    # ---- phase grammar ----------------------------------------------------------------------------------
    N = ctx.pick(50_000, 100_000)
    for i, rng in ctx.cases(N, 'grammar'):
        num, label = gen_numeral(rng)
        sign = '+' if rng.random() < 0.15 else ''
        cpu_s = sign + num + rng.choice(['', '', 'm'])
        mem_unit = rng.choice(MEM_UNITS)
        mem_s = sign + num + mem_unit + ('B' if rng.random() < 0.3 else '')
        if rng.random() < 0.25:
            cpu_s = mutate(rng, cpu_s, 'cpu')
            mem_s = mutate(rng, mem_s, 'memory')
            label = 'near-miss'
        evaluate('cpu', cpu_s, label)
        evaluate('memory', mem_s, label)
        evaluate('storage', mem_s, label)


# ---- validation record ---------------------------------------------------------------------------------
# Unchanged tree: exit 1 in both tiers, every seed 0..4.  Genuine defect (DESIGN section 6), mechanism keys seen
# ({kind} = cpu | memory | storage; "equals the float formula" is checked by the classifier):
#   {kind}/float-rounding-down     cpu: '1.001' -> 1000 (1001), '1001m' -> 1000 (1001); memory: '0.71Pi' -> 799388933858263 (..264), '8.2P'
#   {kind}/float-rounding-up       memory/storage: '8.3G' -> 8300000001, '16.1K' -> 16101, '0.067G' -> 67000001;
#                                  cpu (only beyond double precision): '6.49999999999999999999999999999999' -> 6500 (6499)
#   {kind}/float-overflow-raises   numerals of 309+ digits: OverflowError('cannot convert float infinity to integer')
#   (9 keys in all.  seed 0 quick: 713 cpu / 16534 memory / 16534 storage wrong results on "everyday" numerals of <= 6 significant digits.)
# Proposed repair: /verif/proposed_fixes/C25-float-artefacts.diff (fractions.Fraction for float, 3 tokens + 1 import).
# Scratch worktree with the repair applied: quick and thorough, seeds 0..4: HELD; `pytest auth/test` there: 63 passed.
# Breaks applied one at a time on top of the repaired scratch tree, quick tier, seed 0:
#   own 1  conv_factor['Ki'] = 1000                                         caught  memory/wrong-value, storage/wrong-value
#   own 2  `int(number * factor) + 1` for math.ceil (off by one when exact)  caught  memory/wrong-value ('0K' -> 1), storage/wrong-value
#   own 3  CPU_REGEX.match for .fullmatch in parse_cpu_in_mcpu               caught  cpu/client-server-acceptance-mismatch ('+1396.4 B')
#   own 4  `round(number * 1000)` for int() in parse_cpu_in_mcpu             caught  cpu/wrong-value ('0.6m' -> 1)
#   own 5  validator regex for storage widened (`...|[0-9]+[kmg]`)           caught  storage/client-server-acceptance-mismatch
#   own 6  CPU regex loosened to `[0-9]*` (admits '' and '5.') on both sides  MISSED at first (consistent on both sides, value of
#          strings outside the model grammar is not judged); the parser crash on '' (ValueError) for a string the job validator
#          accepts is now reported -> caught cpu/raises-on-server-accepted-string
#   own 7  optional B dropped from STORAGE_REGEXPAT (client and server both)  not a violation of the statement (it speaks of accepted
#          spellings; both sides reject consistently): HELD, counted in documented_spelling_rejected_storage; a spelling class
#          vanishing for every kind trips the optional_B / leading_plus / units_seen floors (INCONCLUSIVE).  An earlier version of
#          the oracle alarmed here (storage/rejects-documented-spelling) and was relaxed to what the statement says.
#   (DESIGN: "Break: n/a if the unchanged tree already violates".)
