"""C26 Service cache is bounded, fresh and single-flight.

Real code: ``gear/gear/time_limited_max_size_cache.py`` (``TimeLimitedMaxSizeCache``), loaded from
the repository file itself (``gear/__init__`` pulls in the whole service stack and is not needed:
the module has no relative imports).  Its module-level ``time`` is redirected to the virtual loop
(``time.monotonic_ns``); ``prometheus_async.aio.time`` is the transcribed shim (trusted base: it
awaits the future inside a coroutine, so cancellation propagates exactly as ``await fut``).

Events (one logical clock, one sequence counter): ``lookup-start(i, key)`` / ``lookup-end(i, value |
exception)`` around ``await cache.lookup(key)`` in the caller task; ``load-start(key, id)`` /
``load-end(key, id, returned | raised | cancelled)`` inside the harness-supplied ``load`` coroutine;
``cancel(i)`` when the driver calls ``task.cancel()`` on a caller task.

Oracle (history):

* bounded      - after every lookup return/raise ``len(cache._cache) <= num_slots``;
* fresh        - a returned value whose load completed at c satisfies ``now_ns - c_ns <= lifetime_ns``
  ("never returns a value *older than* its lifetime"; the implementation is stricter and drops an
  entry at age == lifetime, which the statement does not demand - counter
  ``returned_at_exact_lifetime`` shows whether it ever happens);
* single-flight - at ``load-start(key)`` no other load of the same key is in flight;
* failures     - a lookup may raise only (a) ``CancelledError`` if the driver cancelled *that* caller
  task, or (b) the injected ``LoadFailure`` of a load of its key that ended ``raised`` while the
  lookup was pending.  A load that ends ``cancelled`` did not fail: the harness never cancels loads,
  so such an end is cancellation leaking in from another caller.

Workload: 3-14 lookups over <= 4 keys, capacity 1-3, lifetime 2-6 grid units, load durations 0-4
units, load failures, caller cancellations at arbitrary grid/half-grid instants plus directed
scenarios (several callers of one key while its load is in flight; cancel the first caller or a
later one), arrivals exactly at expiry instants, clock advances across expiry.
"""
import asyncio
import collections
import importlib.util
import os

PID = 'C26'
LEVEL = 'exploration'
RULE = (
    'seeded random schedules on a 0.5 s grid: capacity 1-3, 1-4 keys, lifetime 2-6 units, 3-14 lookups with arrival instants in [0,14], '
    'per-load duration 0-4 units and failure with p=0.15, 0-4 timed cancellations of caller tasks (grid and half-grid instants); with p=0.5 a directed '
    'scenario: 2-4 callers of one key while its load is in flight and a cancellation of the first or of a later caller; with p=0.3 a caller '
    'arriving exactly lifetime after a load completed.  Distinct = (capacity, lifetime, sequence of (lookup, key, outcome) in completion order); '
    'non-trivial = at least two lookups overlapped on a key or an entry expired / was evicted.'
)
ASSUMPTIONS = [
    'prometheus_async.aio.time(metric, future) == "await future inside a coroutine, observe in finally" (transcribed shim vf/shims/pkgs/prometheus_async; self-tested at start)',
    'prometheus_client metrics are no-op stand-ins',
    'virtual-time loop (vf/sim/vloop.py); module-level `time` of the cache module redirected to it',
    'cache._cache is the set of entries the cache holds (read-only use)',
]
SHARDS = {'quick': 1, 'thorough': 16}
TIMEOUT = {'quick': 900, 'thorough': 900}


def FLOORS(tier):
    k = 1 if tier == 'quick' else 50
    return {
        'evaluations': 4000 * k,
        'distinct': 2500 * k,
        'lookups_returned': 20_000 * k,
        'cache_hits': 4000 * k,
        'lookups_that_awaited_a_load': 10_000 * k,
        'lookups_joining_a_load_in_flight': 4000 * k,
        'loads_started': 10_000 * k,
        'loads_raised': 1000 * k,
        'lookups_failed_by_own_load': 1000 * k,
        'lookups_cancelled_by_driver': 1500 * k,
        'cancel_first_caller_while_others_wait': 500 * k,
        'cancel_later_caller_while_others_wait': 500 * k,
        'reloads_after_expiry_or_eviction': 2000 * k,
        'lookups_exactly_at_expiry': 300 * k,
        'returns_with_cache_full': 5000 * k,
        'bounded_checks': 25_000 * k,
    }


# The statement says "never returns a value OLDER than its lifetime": age == lifetime is allowed.  DESIGN.md's oracle
# sketch ("load completion time > now - lifetime") is stricter by exactly that instant; set True to demand age < lifetime
# (then the `<`-for-`<=` mutant of the expiry test is flagged; correct code passes either way).
FRESH_STRICT = False
UNIT = 0.5
UNIT_NS = 500_000_000
KEYS = 'abcd'


class LoadFailure(Exception):
    def __init__(self, lid):
        super().__init__(f'injected failure of load {lid}')
        self.lid = lid


def load_module():
    import vf.bootstrap as b

    path = os.path.join(b.REPO, 'gear', 'gear', 'time_limited_max_size_cache.py')
    spec = importlib.util.spec_from_file_location('verif_c26_time_limited_max_size_cache', path)
    mod = importlib.util.module_from_spec(spec)
    spec.loader.exec_module(mod)
    return mod


def gen(rng):
    slots = rng.choice([1, 1, 2, 2, 3])
    nkeys = rng.randint(1, 4)
    life = rng.choice([2, 3, 4, 6])
    start = rng.choice([1000.0, 12345.0, 259200.5, 7.25])
    n = rng.randint(3, 14)
    lookups = []
    cancels = []
    for _ in range(n):
        lookups.append({'at': rng.randrange(0, 15), 'key': KEYS[rng.randrange(nkeys)]})
    loads = {k: [{'dur': rng.choice([0, 1, 1, 2, 2, 3, 4]), 'fail': rng.random() < 0.15} for _ in range(8)] for k in KEYS[:nkeys]}
    if rng.random() < 0.5:
        # directed: several callers of one key while its load is in flight, one of them cancelled
        k = KEYS[rng.randrange(nkeys)]
        t = rng.randrange(0, 10)
        dur = rng.choice([2, 3, 4])
        loads[k][0] = {'dur': dur, 'fail': rng.random() < 0.1}
        lookups = [lk for lk in lookups if not (lk['key'] == k and lk['at'] <= t + dur)]
        first = len(lookups)
        lookups.append({'at': t, 'key': k})
        m = rng.randint(1, 3)
        for _ in range(m):
            lookups.append({'at': t + rng.randrange(0, dur), 'key': k})
        victim = first if rng.random() < 0.5 else first + rng.randint(1, m)
        cancels.append({'at': t + rng.choice([0.5, 1, 1, 1.5, dur - 0.5, dur]), 'target': victim})
    if rng.random() < 0.3 and lookups:
        base = rng.choice(lookups)
        d = loads[base['key']][0]['dur']
        lookups.append({'at': base['at'] + d + life, 'key': base['key']})
    for _ in range(rng.choice([0, 0, 1, 1, 2, 4])):
        cancels.append({'at': rng.randrange(0, 30) / 2, 'target': rng.randrange(len(lookups))})
    return {'slots': slots, 'lifetime_units': life, 'start': start, 'lookups': lookups, 'loads': loads, 'cancels': cancels}


class Recorder:
    def __init__(self, loop, cache, case):
        self.loop = loop
        self.cache = cache
        self.case = case
        self.t0 = loop.time()
        self.lifetime_ns = case['lifetime_units'] * UNIT_NS
        self.events = []
        self.stats = collections.Counter()
        self.violation = None
        self.pending = {}  # lookup i -> start seq
        self.cancel_issued = set()
        self.outcomes = []
        self.loads = {}  # lid -> dict(key, start_seq, end_seq, how, completed_ns)
        self.inflight = collections.defaultdict(list)  # key -> [lid]
        self.n_loads = collections.Counter()
        self.last_ok_completion = {}  # key -> ns
        self.nontrivial = False
        self.start_ns = {}  # lookup-start seq -> ns
        self.pending_cancels = collections.defaultdict(list)  # key -> cancellations of callers that were pending in lookup(key)

    def now_ns(self):
        return int(self.loop.time() * 1e9)  # the same conversion as loop.time_module().monotonic_ns

    def _ev(self, kind, **kw):
        self.events.append({'seq': len(self.events), 't': round((self.loop.time() - self.t0) / UNIT, 3), 'ev': kind, **kw})
        return len(self.events) - 1

    def _flag(self, key, what):
        if self.violation is None:
            self.violation = (key, what, len(self.events) - 1)

    def key_of(self, i):
        return self.case['lookups'][i]['key']

    # ---- loads ---------------------------------------------------------------------------
    def load_start(self, k):
        lid = len(self.loads)
        seq = self._ev('load-start', key=k, load=lid)
        self.loads[lid] = {'key': k, 'start_seq': seq, 'end_seq': None, 'how': None, 'completed_ns': None}
        self.stats['loads_started'] += 1
        if self.inflight[k]:
            self._flag('single-flight/concurrent-loads', f'load {lid} of key {k!r} started while load {self.inflight[k][0]} of the same key is still in flight')
        if self.n_loads[k] and k in self.last_ok_completion:
            self.stats['reloads_after_expiry_or_eviction'] += 1
            self.nontrivial = True
        self.inflight[k].append(lid)
        self.n_loads[k] += 1
        return lid

    def load_end(self, lid, how):
        ld = self.loads[lid]
        ld['end_seq'] = self._ev('load-end', key=ld['key'], load=lid, how=how)
        ld['how'] = how
        ld['completed_ns'] = self.now_ns()
        self.inflight[ld['key']].remove(lid)
        self.stats['loads_' + how] += 1
        if how == 'returned':
            self.last_ok_completion[ld['key']] = ld['completed_ns']

    # ---- lookups --------------------------------------------------------------------------
    def lookup_start(self, i):
        k = self.key_of(i)
        seq = self._ev('lookup-start', lookup=i, key=k)
        if self.inflight[k] or any(self.key_of(j) == k for j in self.pending):
            self.stats['lookups_joining_a_load_in_flight'] += 1
            self.nontrivial = True
        c = self.last_ok_completion.get(k)
        if c is not None and self.now_ns() - c == self.lifetime_ns:
            self.stats['lookups_exactly_at_expiry'] += 1
        self.pending[i] = seq
        self.start_ns[seq] = self.now_ns()

    def cancel(self, i, done):
        k = self.key_of(i)
        state = 'done' if done else ('pending' if i in self.pending else 'not-started')
        self._ev('cancel', lookup=i, key=k, state=state)
        if done:
            return
        self.cancel_issued.add(i)
        if i in self.pending:
            others = [j for j in self.pending if j != i and self.key_of(j) == k]
            # the first caller is the pending lookup of the key that started earliest: it created the load task
            first = all(self.pending[j] > self.pending[i] for j in others)
            self.pending_cancels[k].append({'lookup': i, 'seq': len(self.events) - 1, 'ns': self.now_ns(), 'first': first})
            if others:
                self.stats['cancel_first_caller_while_others_wait' if first else 'cancel_later_caller_while_others_wait'] += 1

    def lookup_end(self, i, value=None, exc=None):
        k = self.key_of(i)
        start_seq = self.pending.pop(i)
        now = self.now_ns()
        # ---- bounded
        self.stats['bounded_checks'] += 1
        held = len(self.cache._cache)
        if held == self.case['slots']:
            self.stats['returns_with_cache_full'] += 1
        if exc is None:
            vk, lid = value
            ld = self.loads[lid]
            awaited = ld['end_seq'] is not None and ld['end_seq'] > start_seq  # else: served from the cache (or from a task that had just finished)
            age = now - ld['completed_ns']
            kind = 'awaited' if awaited else 'hit'
            self._ev('lookup-end', lookup=i, key=k, result=kind, load=lid, age_units=age / UNIT_NS, cache_size=held)
            self.stats['lookups_returned'] += 1
            self.stats['lookups_that_awaited_a_load' if awaited else 'cache_hits'] += 1
            if age == self.lifetime_ns:
                self.stats['returned_at_exact_lifetime'] += 1
            if age > self.lifetime_ns or (FRESH_STRICT and age == self.lifetime_ns):
                self._flag('fresh/stale-value-returned', f'lookup {i} of key {k!r} returned the value of load {lid}, {age} ns old > lifetime {self.lifetime_ns} ns')
        else:
            kind = None
            if isinstance(exc, asyncio.CancelledError) and i in self.cancel_issued:
                kind = 'cancelled'
                self.stats['lookups_cancelled_by_driver'] += 1
            elif isinstance(exc, LoadFailure) and exc.lid in self.loads:
                ld = self.loads[exc.lid]
                if ld['key'] == k and ld['how'] == 'raised' and self._overlaps(ld, start_seq):
                    kind = 'load-failed'
                    self.stats['lookups_failed_by_own_load'] += 1
            self._ev('lookup-end', lookup=i, key=k, result=kind or 'UNJUSTIFIED', exc=repr(exc), cache_size=held)
            if kind is None:
                self._flag(*self._classify_failure(i, k, exc, start_seq))
        self.outcomes.append((i, k, kind))
        if held > self.case['slots']:
            self._flag('bounded/over-capacity', f'after lookup {i} returned the cache holds {held} entries > num_slots {self.case["slots"]}')

    def _overlaps(self, ld, start_seq):
        """the load ended while the lookup was pending - or at the very instant the lookup started: for one loop
        iteration after a load task finishes, the cache still hands that (finished) task to new callers of the key"""
        return ld['end_seq'] > start_seq or ld['completed_ns'] == self.start_ns[start_seq]

    def _classify_failure(self, i, k, exc, start_seq):
        if isinstance(exc, asyncio.CancelledError):
            # whose cancellation was it?  the latest cancellation of another pending caller of the same key that
            # happened while this lookup was pending (or at the very instant it started)
            for c in reversed(self.pending_cancels[k]):
                if c['lookup'] != i and (c['seq'] > start_seq or c['ns'] == self.start_ns[start_seq]):
                    if c['first']:
                        return ('first-caller-cancel-propagates-to-waiters',
                                f'lookup {i} of key {k!r} raised CancelledError although nobody cancelled it and its load did not fail: lookup {c["lookup"]}, '
                                f'the first caller (it started the shared load), was cancelled and the shared load was cancelled with it')
                    return ('waiter-cancel-propagates-to-other-callers',
                            f'lookup {i} of key {k!r} raised CancelledError although nobody cancelled it and its load did not fail: lookup {c["lookup"]}, '
                            f'which was merely waiting for the shared load, was cancelled and the shared load was cancelled with it')
            return ('lookup-failed-without-cause', f'lookup {i} of key {k!r} raised CancelledError although nobody cancelled it')
        return ('lookup-failed-without-cause', f'lookup {i} of key {k!r} raised {exc!r}: neither its own cancellation nor a failure of its load')


def execute(case, mod, run_virtual, Deadlock, StepLimit):
    box = {}

    async def main(loop):
        mod.time = loop.time_module()
        plans = {k: list(v) for k, v in case['loads'].items()}

        async def load(k):
            lid = rec.load_start(k)
            plan = plans[k].pop(0) if plans[k] else {'dur': 1, 'fail': False}
            try:
                if plan['dur'] > 0:
                    await asyncio.sleep(plan['dur'] * UNIT)
                if plan['fail']:
                    raise LoadFailure(lid)
            except asyncio.CancelledError:
                rec.load_end(lid, 'cancelled')
                raise
            except LoadFailure:
                rec.load_end(lid, 'raised')
                raise
            rec.load_end(lid, 'returned')
            return (k, lid)

        cache = mod.TimeLimitedMaxSizeCache(load, case['lifetime_units'] * UNIT_NS, case['slots'], 'verif')
        rec = Recorder(loop, cache, case)
        box['rec'] = rec
        tasks = []

        async def caller(i, spec):
            try:
                await asyncio.sleep(spec['at'] * UNIT)
            except asyncio.CancelledError:
                rec.stats['callers_cancelled_before_start'] += 1
                return
            rec.lookup_start(i)
            try:
                v = await cache.lookup(spec['key'])
            except BaseException as e:  # noqa: BLE001 - the outcome is the observation
                rec.lookup_end(i, exc=e)
            else:
                rec.lookup_end(i, value=v)

        async def canceller(c):
            await asyncio.sleep(c['at'] * UNIT)
            t = tasks[c['target']]
            rec.cancel(c['target'], t.done())
            t.cancel()

        for i, spec in enumerate(case['lookups']):
            tasks.append(asyncio.ensure_future(caller(i, spec)))
        cancellers = [asyncio.ensure_future(canceller(c)) for c in case['cancels']]
        await asyncio.gather(*tasks, *cancellers, return_exceptions=True)
        # loads may legitimately outlive their callers (e.g. if they are shielded): let them finish
        await asyncio.sleep(6 * UNIT)
        rec.stats['bounded_checks'] += 1
        if len(cache._cache) > case['slots']:
            rec._flag('bounded/over-capacity', f'at the end the cache holds {len(cache._cache)} entries > num_slots {case["slots"]}')

    outcome = 'completed'
    saved = mod.time
    try:
        run_virtual(main, start=case['start'], max_steps=100_000)
    except Deadlock:
        outcome = 'deadlock'
    except StepLimit:
        outcome = 'steplimit'
    finally:
        mod.time = saved
    return box['rec'], outcome


def shim_selftest(mod, run_virtual):
    """the trusted transcription: time(metric, fut) awaits fut, returns its result, propagates cancellation into it"""
    res = {}

    async def main(loop):
        async def work():
            try:
                await asyncio.sleep(5)
                return 42
            except asyncio.CancelledError:
                res['inner_cancelled'] = True
                raise

        t = asyncio.ensure_future(work())
        res['value'] = await mod.prom_async_time(mod.CACHE_LOAD_LATENCY.labels(cache_name='x'), t)
        t2 = asyncio.ensure_future(work())
        outer = asyncio.ensure_future(mod.prom_async_time(mod.CACHE_LOAD_LATENCY.labels(cache_name='x'), t2))
        await asyncio.sleep(1)
        outer.cancel()
        await asyncio.gather(outer, return_exceptions=True)
        res['t2_cancelled'] = t2.cancelled()

    run_virtual(main)
    return res.get('value') == 42 and res.get('inner_cancelled') and res.get('t2_cancelled')


def run(ctx):
    from vf.harness import Inconclusive
    from vf.sim.vloop import Deadlock, StepLimit, run_virtual

    mod = load_module()
    if not shim_selftest(mod, run_virtual):
        raise Inconclusive('prometheus_async.aio.time stand-in does not behave like "await future" (self-test failed)')
    ctx.seen('prom_async_time_module', getattr(mod.prom_async_time, '__module__', '?'))

    N = ctx.pick(6_000, 20_000)
    for i, rng in ctx.cases(N):
        case = gen(rng)
        rec, outcome = execute(case, mod, run_virtual, Deadlock, StepLimit)
        for k, v in rec.stats.items():
            ctx.count(k, v)
        ctx.count('outcome_' + outcome)
        ctx.seen('slots', case['slots'])
        ctx.seen('lifetime_units', case['lifetime_units'])
        ctx.case(
            sample={'case': case, 'outcomes': rec.outcomes},
            key=(case['slots'], case['lifetime_units'], tuple(rec.outcomes)),
            nontrivial=rec.nontrivial,
        )
        if outcome != 'completed':
            ctx.count('cases_not_completed')
            if rec.violation is None and outcome == 'deadlock':
                rec.violation = ('lookup-never-returns', 'the loop has nothing left to run but lookups are still pending', len(rec.events) - 1)
            elif ctx.counters['cases_not_completed'] > 3 and rec.violation is None:
                ctx.inconclusive_because('virtual loop step limit hit repeatedly')
        if rec.violation:
            key, what, at = rec.violation
            ctx.violation(key, what, witness={'case': case, 'outcome': outcome, 'violating_event_index': at, 'events': rec.events[: at + 6]})


# ------------------------------------------------------------------------------------------------
# Unchanged tree (78296c9bd): exit 1 for seeds 0..4 in both tiers with exactly two mechanism keys, both genuine,
# one root cause (callers await the shared load task unshielded, the first one through prom_async_time):
#   first-caller-cancel-propagates-to-waiters   (the caller that created the load task is cancelled -> the task is
#                                                cancelled -> every other caller of the key gets CancelledError)
#   waiter-cancel-propagates-to-other-callers   (a later caller, `return await self._futures[k]`, is cancelled -> same)
# Proposed repair: /verif/proposed_fixes/C26-first-caller-cancel-propagates-to-waiters.diff (the load + put + evict run
# in their own task whose exception is always retrieved; every caller awaits asyncio.shield(task)).  With the repair
# applied in a scratch worktree: exit 0 for seeds 0..4 quick and seed 0 thorough (thorough seeds 1..4 were run on the
# same repair before the exception-retrieval callback was added), and batch/test/test_time_limited_max_size_cache.py
# still passes.
#
# Breaks tried on top of the repaired scratch worktree (gear/gear/time_limited_max_size_cache.py,
# VERIF_REPO=/tmp/scratch-async, quick tier, seed 0), one at a time:
#   B1 (DESIGN) skip `_evict_oldest()`                                   -> caught  bounded/over-capacity
#   B2 (DESIGN) expiry test `<` for `<=`                                 -> NOT a violation of the statement (exit 0):
#      the mutant returns values of age == lifetime exactly ("older than its lifetime" is age > lifetime); the counter
#      returned_at_exact_lifetime goes from 0 to 2998, i.e. the boundary is exercised; with FRESH_STRICT = True
#      (DESIGN's stricter wording) it is flagged as fresh/stale-value-returned
#   B3 sliding expiration (a hit re-puts the entry)                      -> caught  fresh/stale-value-returned
#      (needs a chain of hits each younger than lifetime that together span more than lifetime)
#   B4 `del self._futures[k]` when the load starts instead of when it ends -> caught single-flight/concurrent-loads
#      (needs a second lookup of the key while the load is in flight)
#   B5 half repair: own task but `await self._futures[k]` without shield -> caught  first-caller-... / waiter-cancel-...
#   B6 `_evict_oldest` forgets `del self._cache[k]`                      -> caught  bounded/over-capacity, fresh/stale-value-returned
#   B7 a failed load stays in `_futures` (negative caching)              -> caught  lookup-failed-without-cause
