"""C06 Batch and job-group completion reflect their jobs.

Oracle after every commit (oracles.c06): a batch / committed job group is 'complete' exactly when
all committed jobs in its subtree are terminal; n_jobs equals the recount; time_completed is NULL
iff running.  Through the real GET paths (_get_batch / _get_job_group -> *_record_to_dict) at
sampled points: reported counts equal the recount and the converters' own assertions do not fire.
"""
from vf.world import oracles, sqlmon
from vf.world.run import Monitor

PID = 'C06'
LEVEL = 'exploration'
RULE = sqlmon.RULE_HISTORIES
ASSUMPTIONS = sqlmon.COMMON_ASSUMPTIONS
SHARDS = {'quick': 4, 'thorough': 16}
TIMEOUT = {'quick': 900, 'thorough': 3600}
FLOORS = {'views_checked': 100, 'groups_seen_complete_with_jobs': 20, 'batches_reopened_by_update': 5, 'histories_free_of_known_patterns': 50}


class Completion(Monitor):
    def __init__(self, p):
        self.p = p
        self.reset()

    def reset(self):
        self.was_complete = set()

    def on_commit(self, v):
        for key, what, wit in oracles.c06(v):
            b = wit.get('batch') or wit['group'][0]
            self.r.violation(sqlmon.explain(self.p, key, [('batch', b)]), what, wit)
        for (b, g), grp in v.groups.items():
            if grp['state'] == 'complete' and grp['n_jobs'] > 0:
                if (b, g) not in self.was_complete:
                    self.was_complete.add((b, g))
                    self.r.ctx.count('groups_seen_complete_with_jobs')
            elif (b, g) in self.was_complete and grp['state'] == 'running':
                self.was_complete.discard((b, g))
                self.r.ctx.count('batches_reopened_by_update')

    def on_op(self, rec, v):
        if rec['op'] in ('get_batch', 'get_job_group'):
            if rec['outcome'].startswith('error:AssertionError'):
                b = None
                self.r.violation(sqlmon.explain(self.p, 'view/converter-assertion', [('batch', bb) for bb in v.batches]),
                                 f"{rec['op']} raised AssertionError in the record converter", {'op': rec['op'], 'reason': rec.get('reason', '')[:300]})
                return
            if rec['outcome'] != 'ok':
                return
            res = rec['result']
            view = res.get('view')
            if not isinstance(view, dict):
                return
            b = res['batch_id']
            g = res.get('job_group_id', 0)
            w = oracles.tallies(v).get((b, g), {'n_jobs': 0, 'n_completed': 0, 'n_succeeded': 0, 'n_failed': 0, 'n_cancelled': 0, 'n_live': 0})
            self.r.ctx.count('views_checked')
            bad = {c: (view.get(c), w[c]) for c in ('n_jobs', 'n_completed', 'n_succeeded', 'n_failed', 'n_cancelled') if view.get(c) != w[c]}
            if view.get('complete') != (w['n_live'] == 0):
                bad['complete'] = (view.get('complete'), w['n_live'] == 0)
            if bad:
                self.r.violation(sqlmon.explain(self.p, 'view/mismatch', [('batch', b)]), f'{rec["op"]}({b},{g}) reports (reported, recount) {bad}', {'batch': b, 'group': g, 'diff': bad})
            rec['result'] = {k: x for k, x in res.items() if k != 'view'}


def run(ctx):
    sqlmon.standard_run(ctx, lambda p: [Completion(p)], cfg={'weights': {'get_batch': 4, 'get_job_group': 5, 'job_complete': 16}})
