"""pytest plugin: run the repository's auth tests with icontract post-conditions on the validators.

The conditions record and return True (so they never change what the test observes); the C28
monitor reads the log.  Installed before collection, so ``from auth.auth_utils import ...`` in the
test module binds the decorated functions.
"""
import os
import sys

sys.path.insert(0, os.path.join(os.path.dirname(os.path.abspath(__file__)), '..', '..'))
import vf.bootstrap  # noqa: E402,F401
import icontract  # noqa: E402

from vf.monitors.c28 import model_secret_name, model_username  # noqa: E402

LOG = os.environ.get('VERIF_C28_CONTRACT_LOG')


def _log(line):
    if LOG:
        with open(LOG, 'a') as f:
            f.write(line + '\n')


class PostBroken(Exception):
    pass


def username_matches_language(username, result):
    ok = bool(result) == model_username(username)
    _log(('OK ' if ok else 'BROKEN ') + f'is_valid_username({username!r}) -> {result!r}')
    return True


import auth.auth_utils as au  # noqa: E402
from auth.exceptions import AuthUserError  # noqa: E402

au.is_valid_username = icontract.ensure(username_matches_language, error=PostBroken)(au.is_valid_username)

_orig_secret = au.validate_credentials_secret_name_input


def validate_credentials_secret_name_input(secret_name):
    # icontract does not check state after a raise, so the accept/reject observation is made here
    try:
        r = _orig_secret(secret_name)
        accepted = True
    except AuthUserError:
        accepted = False
        ok = accepted == model_secret_name(secret_name)
        _log(('OK ' if ok else 'BROKEN ') + f'validate_credentials_secret_name_input({secret_name!r}) accepted={accepted}')
        raise
    ok = accepted == model_secret_name(secret_name)
    _log(('OK ' if ok else 'BROKEN ') + f'validate_credentials_secret_name_input({secret_name!r}) accepted={accepted}')
    return r


au.validate_credentials_secret_name_input = validate_credentials_secret_name_input
