"""C10 Instance free-core accounting is exact.

Oracle after every commit (oracles.c10): for pending/active instances free_cores_mcpu = cores -
sum(cores of attempts on it with end_time NULL); inactive/deleted instances report all cores free.
"""
from vf.world import oracles, sqlmon
from vf.world.run import Monitor

PID = 'C10'
LEVEL = 'exploration'
RULE = sqlmon.RULE_HISTORIES + ' Reports always carry the instance the attempt was placed on.'
ASSUMPTIONS = sqlmon.COMMON_ASSUMPTIONS
SHARDS = {'quick': 4, 'thorough': 16}
TIMEOUT = {'quick': 900, 'thorough': 3600}
FLOORS = {'driver_restarts': 150, 'sql_routine:add_attempt': 200, 'sql_routine:unschedule_job': 5, 'sql_routine:deactivate_instance': 20, 'instances_with_open_attempts_checked': 200, 'in_memory_free_cores_compared': 2000,
          'worker_job_started_overtook_schedule_job': 5}


class FreeCores(Monitor):
    def __init__(self, p):
        self.p = p

    def on_commit(self, v):
        T = v.eng.tables
        if any(a['end_time'] is None for a in T['attempts'].rows):
            self.r.ctx.count('instances_with_open_attempts_checked')
        for key, what, wit in oracles.c10(v):
            self.r.violation(key, what, wit)


class InMemory(Monitor):
    """the scheduler places jobs by the in-memory copy (Instance.free_cores_mcpu): at quiescent points (an operation has
    returned, nothing is in flight) it must equal the recorded value for every live instance the driver tracks"""

    def __init__(self, p):
        self.p = p

    def on_op(self, rec, v):
        T = v.eng.tables
        w = self.r.w
        for inst in list(w.instances.values()):
            row = T['instances'].pk_get(inst.name)
            if row is None or row['state'] != inst.state or inst.state not in ('pending', 'active'):
                continue
            fr = T['instances_free_cores_mcpu'].pk_get(inst.name)
            if fr is None:
                continue
            self.r.ctx.count('in_memory_free_cores_compared')
            if inst.free_cores_mcpu != fr['free_cores_mcpu']:
                self.r.violation('in-memory/differs-from-recorded', f'instance {inst.name} ({inst.state}): in-memory free_cores_mcpu={inst.free_cores_mcpu}, recorded {fr["free_cores_mcpu"]} after {rec["op"]}',
                                 {'instance': inst.name, 'memory': inst.free_cores_mcpu, 'recorded': fr['free_cores_mcpu'], 'op': rec['op']})


def run(ctx):
    sqlmon.standard_run(ctx, lambda p: [FreeCores(p), InMemory(p)],
                        cfg={'weights': {'job_complete': 14, 'job_started': 8, 'unschedule': 8, 'cancel_running': 4, 'deactivate_instance': 3, 'create_instance': 3, 'activate_instance': 3, 'jpim_create': 4, 'jpim_schedule': 4, 'restart_driver': float(__import__('os').environ.get('VERIF_C10_RESTART_WEIGHT', '1.5'))}})
