"""C14 Batch API access control.

Real code: the live `routes` table of batch/front_end/front_end.py on a real aiohttp router, the real
decorators (authenticated_users_only, authenticated_developers_only, billing_project_users_only,
authenticated_developers_or_auth_only) with the real AuthServiceAuthenticator asking a fake auth
service, real per-query owner filters over minimysql.
Enumeration: every registered (method, path) x caller class {no credentials, invalid token, inactive
user, active stranger, billing-project member who is not the owner, owner, developer, user 'auth'} x
target batch {own, other's in a shared project, other's in a foreign project, deleted, non-existent}.
Oracle (policy from the statement, not from the code): public = health / version / cloud / docs /
legal / static; everything else needs an authenticated active user; {batch_id} routes need billing
project membership; adding jobs / groups / updates, commit and close need ownership; billing project
and billing limit administration needs a developer or user 'auth'.  Denied = an error response (4xx /
login redirect) AND identical table contents before and after.
"""
import logging
import re

from vf.harness import Inconclusive
from vf.minimysql.values import Unsupported
from vf.sim.vloop import run_virtual
from vf.world.fuzz import Fuzzer
from vf.world.http import FrontEnd
from vf.world.world import World, userdata

PID = 'C14'
LEVEL = 'exploration'
RULE = ('every route registered in front_end.routes x 8 caller classes x up to 5 target batches (route x caller table exhaustive; path parameters and '
        'request bodies are chosen so that the operation would succeed for the owner). Distinct by (method, route, caller, target); a case is '
        'non-trivial when the policy requires a denial or the route mutates state.')
ASSUMPTIONS = [
    'minimysql executes the owner / membership filter queries; fake auth service maps bearer tokens to userdata exactly as auth /api/v1alpha/userinfo does',
    'UI pages render through an inert jinja stub: for allowed callers only the absence of an authorization error is checked',
    'the policy map is derived from the property statement; a route not covered by the map is classified by rule ({batch_id} => membership, non-GET under billing => developer)',
]
SHARDS = {'quick': 1, 'thorough': 4}
TIMEOUT = {'quick': 900, 'thorough': 1800}
FLOORS = {'crafted_batch_id_requests_checked': 800, 'crafted_batch_ids': 20, 'admin_requests_by_lookalike_usernames_checked': 400, 'billing_listings_by_lookalike_usernames_checked': 60, 'container_log_requests_checked': 1500, 'container_log_requests_that_reached_a_worker_or_the_store': 16, 'denials_checked': 600, 'routes_enumerated': 60, 'allowed_mutations_observed': 10, 'ownership_denials_checked': 20,
          'listing_responses_scanned': 150, 'records_in_listings_checked': 300, 'listings_with_foreign_jobs_in_matching_state': 40, 'revoked_member_requests_checked': 60}

# search terms for the listing routes: v1 (bare words, multi-state words, negations) and v2 (state / comparison expressions)
QUERIES = ['', 'live', 'bad', 'done', '!done', '!live', 'running', 'failed', 'success', 'pending', 'cancelled', 'live\nbad', 'done\nname=x', 'has:name',
           'state = running', 'state != success', 'state =~ fail', 'job_id >= 1', 'state = failed\njob_id >= 1', 'billing_project = bp-b', 'user = bob',
           'batch_id >= 1', 'open', 'closed', 'complete', '!open', 'user != alice']

PUBLIC = {'/healthcheck', '/api/v1alpha/version', '/api/v1alpha/cloud', '/swagger', '/openapi.yaml', '/tos', '/privacy', '/batch/static/js/{filename}'}
OWNER_ONLY = [
    ('POST', '/api/v1alpha/batches/{batch_id}/updates/{update_id}/job-groups/create'),
    ('POST', '/api/v1alpha/batches/{batch_id}/jobs/create'),
    ('POST', '/api/v1alpha/batches/{batch_id}/updates/{update_id}/jobs/create'),
    ('POST', '/api/v1alpha/batches/{batch_id}/update-fast'),
    ('POST', '/api/v1alpha/batches/{batch_id}/updates/create'),
    ('PATCH', '/api/v1alpha/batches/{batch_id}/close'),
    ('PATCH', '/api/v1alpha/batches/{batch_id}/updates/{update_id}/commit'),
]
CALLERS = ['none', 'invalid', 'inactive', 'stranger', 'member', 'owner', 'developer', 'auth']


def job_spec(i):
    return {'job_id': i, 'process': {'type': 'docker', 'command': ['true'], 'image': 'u'}, 'resources': {'cpu': '1', 'memory': 'standard', 'storage': '1Gi'}}


def referenced_batches(obj, out):
    """(batch id, kind) of every batch / job / job-group record inside a JSON response or a page context"""
    if isinstance(obj, dict):
        if 'batch_id' in obj and isinstance(obj['batch_id'], int):
            out.append((obj['batch_id'], 'job-or-group-record'))
        elif 'id' in obj and 'billing_project' in obj and isinstance(obj['id'], int):
            out.append((obj['id'], 'batch-record'))
        for v in obj.values():
            referenced_batches(v, out)
    elif isinstance(obj, (list, tuple)):
        for v in obj:
            referenced_batches(v, out)


async def listing_phase(ctx, w, fe, base_state, batches, routes):
    """Content oracle: whatever a listing / detail route returns, with any search expression, every record in the response
    belongs to a batch whose billing project the caller is a member of.  The other tenants' batches hold jobs in every
    state class (running / failed / success / pending) so that a filter that loses its batch or user scope has something to leak."""
    import json as _json
    import urllib.parse

    w.engine.load_state(base_state)
    # ledger: who may read which batch (billing-project membership at creation: bp-a = alice, bob; bp-b = bob)
    readers = {batches['own']: {'alice', 'bob'}, batches['shared']: {'alice', 'bob'}, batches['foreign']: {'bob'}, batches['deleted']: set()}
    state_by_job = {1: 'Running', 2: 'Failed', 3: 'Success', 4: 'Ready'}
    for name in ('own', 'shared', 'foreign'):
        bid = batches[name]
        for jid, st in state_by_job.items():
            if jid == 1:
                continue
            await w.db.just_execute(
                'INSERT INTO jobs (batch_id, job_id, update_id, job_group_id, state, spec, always_run, cores_mcpu, n_pending_parents, inst_coll, n_regions, regions_bits_rep) '
                'SELECT batch_id, %s, update_id, job_group_id, state, spec, always_run, cores_mcpu, n_pending_parents, inst_coll, n_regions, regions_bits_rep FROM jobs WHERE batch_id = %s AND job_id = 1',
                (jid, bid))
        for jid, st in state_by_job.items():
            await w.db.just_execute('UPDATE jobs SET state = %s WHERE batch_id = %s AND job_id = %s', (st, bid, jid))
    # the completed-batches listing only shows batches with a completion time
    await w.db.just_execute('UPDATE batches SET time_completed = 1700000000000 + id WHERE id IN (%s, %s)', (batches['own'], batches['foreign']))
    state = w.engine.save_state()
    captured = []
    import aiohttp_jinja2

    def capture(file, request, context, *a, **k):
        captured.append(context)
        from aiohttp import web
        return web.Response(text='', content_type='text/html')
    old = getattr(aiohttp_jinja2, 'render_template', None)
    aiohttp_jinja2.render_template = capture
    callers = {'owner': 'alice', 'member': 'bob', 'stranger': 'carol', 'developer': 'dev'}
    try:
        for method, path in routes:
            if method != 'GET' or path in PUBLIC:
                continue
            listing = path.endswith('/jobs') or path.endswith('/batches') or path.endswith('/batches/completed') or path.endswith('/job-groups') or path.endswith('/jobs/resources')
            for tname in (('own', 'shared', 'foreign') if '{batch_id}' in path else ('own',)):
                bid = batches[tname]
                for caller, uname in callers.items():
                    for q in (QUERIES if listing else ['']):
                        w.engine.load_state(state)
                        del captured[:]
                        url = (path.replace('{batch_id}', str(bid)).replace('{job_group_id}', '0').replace('{job_id}', '1').replace('{container}', 'main')
                               .replace('{billing_project}', 'bp-a').replace('{user}', 'carol').replace('{update_id}', '1').replace('{filename}', 'x.js'))
                        if q:
                            url += '?q=' + urllib.parse.quote(q)
                        try:
                            resp = await fe.request(method, url, token='tok-' + caller)
                        except Unsupported as e:
                            raise Inconclusive('minimysql unsupported: ' + str(e))
                        except Exception as e:
                            ctx.seen('listing_exceptions', f'{type(e).__name__}: {str(e)[:80]} @ {path} q={q!r}')
                            continue
                        ctx.seen('listing_status', resp.status)
                        if resp.status != 200:
                            continue
                        docs = list(captured)
                        try:
                            if resp.text_ and resp.text_.lstrip()[:1] in '[{':
                                docs.append(_json.loads(resp.text_))
                        except ValueError:
                            pass
                        if not docs:
                            continue
                        refs = []
                        referenced_batches(docs, refs)
                        ctx.count('listing_responses_scanned')
                        ctx.count('records_in_listings_checked', len(refs))
                        if listing and any(uname not in r for r in readers.values()):
                            ctx.count('listings_with_foreign_jobs_in_matching_state')
                        case = {'route': path, 'caller': caller, 'target': tname, 'q': q, 'n_records': len(refs)}
                        ctx.case(sample=case, key=('listing', path, caller, tname, q), nontrivial=bool(refs))
                        for rb, kind in refs:
                            if uname not in readers.get(rb, set()):
                                ctx.violation('response-leaks-record-of-unreadable-batch',
                                              f'GET {path} q={q!r} on batch {tname} answered caller {caller} ({uname}) with a {kind} of batch {rb}, '
                                              f'whose billing project {uname} does not belong to', dict(case, leaked_batch=rb, kind=kind))
                                break
    finally:
        if old is not None:
            aiohttp_jinja2.render_template = old


async def log_phase(ctx, w, fz, fe, base_state, batches):
    """Content oracle for "logs": the three tenants' jobs run side by side on ONE worker VM (and later have their logs in the
    same bucket).  The fake worker and the fake log store answer by the location actually asked for, after the dot-segment
    normalisation every HTTP client / object store path applies, with a marker naming the batch whose log lives there.  Whatever
    {container} the caller puts into /batches/{batch_id}/jobs/{job_id}/log/{container}, the answer may never carry the marker
    of a batch whose billing project the caller does not belong to."""
    import posixpath
    import urllib.parse

    from yarl import URL

    w.engine.load_state(base_state)
    readers = {batches['own']: {'alice', 'bob'}, batches['shared']: {'alice', 'bob'}, batches['foreign']: {'bob'}, batches['deleted']: set()}
    asked = []

    def marker(bid):
        return f'<<LOG-OF-BATCH-{bid}>>'.encode()

    async def get_read(url, **kw):
        path = posixpath.normpath(urllib.parse.unquote(URL(url, encoded=True).raw_path))
        asked.append(('worker', path))
        m = re.fullmatch(r'/api/v1alpha/batches/(\d+)/jobs/(\d+)/log/(input|main|output)', path)
        if m is None:
            raise __import__('aiohttp').ClientResponseError(None, (), status=404, message='no such log')
        return marker(int(m.group(1)))

    async def read_log_file(format_version, batch_id, job_id, attempt_id, task):
        path = posixpath.normpath(f'/logs/{batch_id}/{job_id}/{attempt_id}/{task}/log')
        asked.append(('store', path))
        m = re.fullmatch(r'/logs/(\d+)/(\d+)/([^/]+)/(input|main|output)/log', path)
        if m is None:
            raise FileNotFoundError(path)
        return marker(int(m.group(1)))
    w.session.get_read = get_read
    w.fe_app['file_store'].read_log_file = read_log_file
    fe.app['file_store'].read_log_file = read_log_file
    await w.create_instance('standard', cores=16)
    fz.cfg.update({'worker_reject_p': 0, 'fault_schedule_db_p': 0, 'early_job_started_p': 0, 'early_job_complete_p': 0})
    await w.pools['standard'].scheduler.schedule_loop_body()
    await fz._drain()
    fz.sync_attempts_from_db()
    callers = {'owner': 'alice', 'member': 'bob', 'stranger': 'carol', 'developer': 'dev'}

    def containers(victim, victim_attempt):
        out = ['main', 'input', 'output', 'mainx', 'main.bak', 'maintenance', 'inputs', 'output2', 'Main', 'main%20', '..', 'main%2F..%2Fmain', 'main%252F..']
        for n in range(1, 8):
            up = '%2F'.join(['..'] * n)
            out.append(f'main%2F{up}%2F{victim}%2Fjobs%2F1%2Flog%2Fmain')          # worker URL namespace
            out.append(f'{up}%2F{victim}%2Fjobs%2F1%2Flog%2Fmain')
            out.append(f'main%2F{up}%2F{victim}%2F1%2F{victim_attempt}%2Fmain')    # log store namespace
            out.append(f'output%2F{up}%2Fbatches%2F{victim}%2Fjobs%2F1%2Flog%2Fmain')
        return out
    for stage in ('running-on-a-shared-worker', 'complete-logs-in-the-store'):
        if stage.startswith('complete'):
            for a in list(fz.attempts.values()):
                row = w.engine.tables['attempts'].pk_get(a['batch_id'], a['job_id'], a['attempt_id'])
                if row is not None and row['end_time'] is None:
                    now = w.now_ms()
                    st = {'batch_id': a['batch_id'], 'job_id': a['job_id'], 'attempt_id': a['attempt_id'], 'job_group_id': a.get('job_group_id', 0), 'state': 'succeeded',
                          'start_time': now, 'end_time': now + 1, 'status': {}, 'resources': []}
                    await w.dm.job_complete(fz._worker_request(fz._instance_of(a), {'status': st}))
        T = w.engine.tables
        states = {name: (T['jobs'].pk_get(batches[name], 1) or {}).get('state') for name in ('own', 'shared', 'foreign')}
        ctx.seen('log_phase_job_states', f'{stage}: {sorted(set(states.values()))}')
        want = 'Running' if stage.startswith('running') else 'Success'
        if any(v != want for v in states.values()):
            ctx.count('log_phase_setup_failed')
            continue
        state = w.engine.save_state()
        for tname in ('own', 'shared', 'foreign'):
            bid = batches[tname]
            for vname in ('own', 'shared', 'foreign'):
                if vname == tname:
                    continue
                victim = batches[vname]
                vatt = T['jobs'].pk_get(victim, 1)['attempt_id']
                for caller, uname in callers.items():
                    for c in containers(victim, vatt):
                        w.engine.load_state(state)
                        del asked[:]
                        url = f'/api/v1alpha/batches/{bid}/jobs/1/log/{c}'
                        try:
                            resp = await fe.request('GET', url, token='tok-' + caller)
                            status, body = resp.status, (resp.text_ or '').encode()
                        except Unsupported as e:
                            raise Inconclusive('minimysql unsupported: ' + str(e))
                        except Exception as e:
                            ctx.seen('log_phase_exceptions', f'{type(e).__name__}: {str(e)[:80]}')
                            continue
                        ctx.count('container_log_requests_checked')
                        ctx.seen('container_log_status', f'{stage}:{status}')
                        if asked:
                            ctx.count('container_log_requests_that_reached_a_worker_or_the_store')
                        case = {'stage': stage, 'url': url, 'caller': caller, 'target': tname, 'victim': vname, 'status': status, 'asked': list(asked)}
                        ctx.case(sample=case, key=('log', stage, tname, vname, caller, c), nontrivial=True)
                        for rb in readers:
                            if marker(rb) in body and uname not in readers[rb]:
                                ctx.violation('response-leaks-log-of-unreadable-batch',
                                              f'GET {url} answered caller {caller} ({uname}) with the log of batch {rb} ({stage}; asked {asked}), whose billing project {uname} does not belong to', case)
                        if status == 200 and uname not in readers[bid]:
                            ctx.violation('access-granted/non-member', f'GET {url} answered 200 to {caller} ({uname})', case)


async def names_phase(ctx, w, fe, base_state, routes, body_for):
    """Who is an administrator is decided by the developer flag or by BEING the service account 'auth': callers whose username
    merely resembles a privileged name (substring, prefix, suffix, superstring, other case, padded) are ordinary users.  Every
    administration route must deny them and change nothing, and the billing-project listings must show them only the projects
    they belong to (none)."""
    import json as _json

    base = 'auth'
    names = set()
    for i in range(len(base)):
        for j in range(i + 1, len(base) + 1):
            if base[i:j] != base:
                names.add(base[i:j])
    names |= {'auth1', 'xauth', 'auth-svc', 'authx', 'aauth', 'Auth', 'AUTH', 'auth ', ' auth', 'au th', 'auth.', 'dev', 'developer', 'de', 'ev', 'root', 'admin', ''}
    # only names an account can really have (the auth service validates usernames when it creates users)
    from auth.auth_utils import is_valid_username

    ctx.count('lookalike_usernames_that_are_not_valid_usernames', sum(1 for n in names if not is_valid_username(n)))
    names = {n for n in names if is_valid_username(n)}
    ctx.count('lookalike_usernames', len(names))
    for k, name in enumerate(sorted(names)):
        fe.auth_service.add(f'tok-name-{k}', dict(userdata('alice'), username=name, id=700 + k, is_developer=0, hail_credentials_secret_name=f'name-{k}-gsa-key'))
    admin = [(m, p) for m, p in routes if ((('billing_projects' in p or 'billing_limits' in p) and m != 'GET'))]
    listings = [(m, p) for m, p in routes if m == 'GET' and p in ('/api/v1alpha/billing_projects', '/api/v1alpha/billing_projects/{billing_project}')]
    for k, name in enumerate(sorted(names)):
        for method, path in admin + listings:
            for bp in (('bp-a', 'bp-new') if (method, path) in admin else ('bp-a', 'bp-b')):
                w.engine.load_state(base_state)
                url = path.replace('{billing_project}', bp).replace('{user}', 'bob')
                before = w.engine.snapshot()
                try:
                    resp = await fe.request(method, url, token=f'tok-name-{k}', json=body_for(method, path, 0, 0))
                    status, text = resp.status, resp.text_ or ''
                    loc = str(resp.headers.get('Location', '')) if resp.headers else ''
                except Unsupported as e:
                    raise Inconclusive('minimysql unsupported: ' + str(e))
                except Exception as e:
                    status, text, loc = 'exc:' + type(e).__name__, '', ''
                changed = before != w.engine.snapshot()
                case = {'method': method, 'route': path, 'caller_username': name, 'billing_project': bp, 'status': status, 'changed': changed}
                ctx.case(sample=case, key=('names', method, path, name, bp), nontrivial=True)
                if (method, path) in admin:
                    ctx.count('admin_requests_by_lookalike_usernames_checked')
                    denied = (isinstance(status, int) and status >= 400) or (status == 302 and '/user' in loc and 'auth' in loc) or (isinstance(status, str) and not changed)
                    if not denied:
                        ctx.violation('access-granted/non-admin', f'{method} {path} answered {status} to the non-developer user {name!r}', case)
                    if changed:
                        ctx.violation('state-changed-on-denied-request/non-admin', f'{method} {path} by the non-developer user {name!r} changed the tables (status {status})', case)
                else:
                    ctx.count('billing_listings_by_lookalike_usernames_checked')
                    if status == 200 and text.lstrip()[:1] in '[{':
                        try:
                            doc = _json.loads(text)
                        except ValueError:
                            doc = None
                        recs = doc if isinstance(doc, list) else [doc] if isinstance(doc, dict) else []
                        leaked = [r.get('billing_project') for r in recs if isinstance(r, dict) and r.get('billing_project')]
                        if leaked:
                            ctx.violation('response-leaks-billing-project-of-non-member', f'GET {url} answered the non-developer user {name!r}, member of no billing project, with {leaked}', dict(case, leaked=leaked))


async def crafted_id_phase(ctx, w, fe, base_state, batches, routes, body_for, make_batch):
    """The `{batch_id}` path segment is read by more than one parser (Python `int()`, the SQL comparison with a BIGINT column, the
    router's pattern).  Whatever string the caller puts there, a request may only touch / show batches the caller may touch: alice
    (owner of batch `own`) sends ids that mean her batch to one parser and another tenant's batch (same digits as prefix) to
    another.  Oracle: no row belonging to a batch of a billing project alice is not a member of changes, and no record of such a
    batch appears in the answer."""
    import json as _json

    w.engine.load_state(base_state)
    own = batches['own']
    # bob's batches in bp-b (alice is not a member) until ids own*10 .. own*10+2 exist, each with a fully staged open update
    victims = []
    k = 0
    while True:
        k += 1
        bid, uid = await make_batch('bob', 'bp-b', f't-victim-{k}', commit=False)
        if own * 10 <= bid <= own * 10 + 2:
            victims.append(bid)
        if bid >= own * 10 + 2 or k > 40:
            break
    state = w.engine.save_state()
    foreign = set(victims) | {batches['foreign']}
    T = w.engine.tables
    foreign |= {r['id'] for r in T['batches'].rows if r['billing_project'] == 'bp-b'}

    def rows_of_foreign(snap):
        out = {}
        for name, rows in snap.items():
            keep = []
            for r in rows:
                d = dict(r)
                b = d.get('batch_id', d.get('id') if name in ('batches', 'job_groups_cancelled', 'job_groups_n_jobs_in_complete_states') else None)
                if b in foreign:
                    keep.append(r)
            if keep:
                out[name] = keep
        return out
    crafted = []
    for v in victims:
        sv = str(v)
        crafted += [sv[:len(str(own))] + '_' + sv[len(str(own)):], '0' + sv[:len(str(own))] + '_' + sv[len(str(own)):], sv[:len(str(own))] + '__' + sv[len(str(own)):],
                    '%20' + sv, sv + '%20', '%2B' + sv, '0' + sv, sv + '.0', sv + 'e0', str(own) + 'e1', sv + '%00', sv + '%0A', str(own) + '%20' + sv[len(str(own)):], '٠' + sv]
    crafted += [str(own) + '_', '_' + str(own), str(own) + 'x', '0x' + str(own), str(own) + '.9', '-' + str(own), str(own) + '%2F..%2F' + str(victims[0] if victims else 0)]
    ctx.count('crafted_batch_ids', len(set(crafted)))
    for method, path in routes:
        if '{batch_id}' not in path:
            continue
        for cid in sorted(set(crafted)):
            w.engine.load_state(state)
            url = (path.replace('{batch_id}', cid).replace('{update_id}', '1').replace('{job_group_id}', '0').replace('{job_id}', '1')
                   .replace('{container}', 'main').replace('{filename}', 'x.js'))
            before = rows_of_foreign(w.engine.snapshot())
            try:
                resp = await fe.request(method, url, token='tok-owner', json=body_for(method, path, 0, 1))
                status, text = resp.status, resp.text_ or ''
            except Unsupported as e:
                raise Inconclusive('minimysql unsupported: ' + str(e))
            except Exception as e:
                status, text = 'exc:' + type(e).__name__, ''
            after = rows_of_foreign(w.engine.snapshot())
            ctx.count('crafted_batch_id_requests_checked')
            ctx.seen('crafted_batch_id_status', status)
            case = {'method': method, 'route': path, 'batch_id_segment': cid, 'status': status}
            ctx.case(sample=case, key=('crafted-id', method, path, cid), nontrivial=True)
            if before != after:
                changed = sorted(n for n in set(before) | set(after) if before.get(n) != after.get(n))
                ctx.violation('state-changed-on-batch-of-a-project-the-caller-is-not-in/crafted-batch-id',
                              f'{method} {path} with batch id segment {cid!r} by alice changed rows of another tenant\'s batch (tables {changed}; status {status})', dict(case, tables=changed))
            if status == 200 and text.lstrip()[:1] in '[{':
                try:
                    refs = []
                    referenced_batches(_json.loads(text), refs)
                except ValueError:
                    refs = []
                leaked = sorted({rb for rb, _ in refs if rb in foreign})
                if leaked:
                    ctx.violation('response-leaks-record-of-unreadable-batch/crafted-batch-id', f'{method} {path} with batch id segment {cid!r} answered alice with records of batch(es) {leaked}', dict(case, leaked=leaked))


async def revocation_phase(ctx, w, fe, base_state, own, routes):
    """Membership is judged at the time of the request: bob (member of bp-a) touches alice's batch, a developer removes bob
    from bp-a through the real administration route, and from then on every batch-scoped request of bob must be denied and
    change nothing - also seconds later (virtual time), whatever earlier answers may have been remembered."""
    import asyncio

    for method, path in routes:
        if '{batch_id}' not in path or (method, path) in OWNER_ONLY:
            continue
        for delay in (0, 5, 45):
            w.engine.load_state(base_state)
            url = (path.replace('{batch_id}', str(own)).replace('{job_group_id}', '0').replace('{job_id}', '1').replace('{container}', 'main')
                   .replace('{update_id}', '1').replace('{filename}', 'x.js'))
            # 1. warm-up: bob, still a member, uses the batch (two different routes)
            try:
                r0 = await fe.request('GET', f'/api/v1alpha/batches/{own}', token='tok-member')
                await fe.request(method if method == 'GET' else 'GET', url if method == 'GET' else f'/api/v1alpha/batches/{own}/jobs', token='tok-member')
            except Unsupported as e:
                raise Inconclusive('minimysql unsupported: ' + str(e))
            except Exception:
                r0 = None
            if r0 is None or r0.status != 200:
                ctx.count('revocation_warmup_failed')
                continue
            # 2. revocation through the real route, by a developer
            rr = await fe.request('POST', '/api/v1alpha/billing_projects/bp-a/users/bob/remove', token='tok-developer')
            if rr.status != 200:
                ctx.seen('revocation_route_status', rr.status)
                ctx.count('revocation_failed')
                continue
            if delay:
                await asyncio.sleep(delay)
            before = w.engine.snapshot()
            try:
                resp = await fe.request(method, url, token='tok-member', json=None)
                status = resp.status
                loc = str(resp.headers.get('Location', '')) if resp.headers else ''
            except Unsupported as e:
                raise Inconclusive('minimysql unsupported: ' + str(e))
            except Exception as e:
                status, loc = 'exc:' + type(e).__name__, ''
            changed = before != w.engine.snapshot()
            denied = (isinstance(status, int) and status >= 400) or (status == 302 and '/user' in loc and 'auth' in loc) or (isinstance(status, str) and not changed)
            ctx.count('revoked_member_requests_checked')
            case = {'method': method, 'route': path, 'caller': 'member-removed-from-billing-project', 'delay_s': delay, 'status': status, 'changed': changed}
            ctx.case(sample=case, key=('revoked', method, path, delay), nontrivial=True)
            if not denied:
                ctx.violation('access-granted/removed-member', f'{method} {path} answered {status} to bob {delay}s after he was removed from the billing project of the batch', case)
            if changed:
                ctx.violation('state-changed-on-denied-request/removed-member', f'{method} {path} by bob {delay}s after his removal changed the tables (status {status})', case)


def run(ctx):
    logging.disable(logging.CRITICAL)

    async def main(loop):
        w = World(seed=ctx.seed, loop=loop, n_tokens=2)
        await w.boot()
        fz = Fuzzer(w, __import__('random').Random(1), {})  # installs the worker / resource-manager fakes
        fe = FrontEnd(w)
        a = fe.auth_service
        ud = {
            'owner': userdata('alice'), 'member': userdata('bob'),
            'stranger': dict(userdata('alice'), username='carol', id=50, hail_credentials_secret_name='carol-gsa-key'),
            'inactive': dict(userdata('bob'), state='inactive'),
            'developer': dict(userdata('alice'), username='dev', id=51, is_developer=1),
            'auth': dict(userdata('alice'), username='auth', id=52, is_developer=0),
        }
        for k, v in ud.items():
            v['is_developer'] = 1 if k == 'developer' else 0
            a.add('tok-' + k, v)
        from batch.front_end.validate import validate_and_clean_jobs

        async def make_batch(user, bp, token, commit=True):
            u = userdata(user)
            bid = await w.fe._create_batch({'billing_project': bp, 'token': token, 'n_jobs': 1}, u, w.db)
            uid, _, _ = await w.fe._create_batch_update(bid, token, 1, 0, user, w.db)
            jobs = [job_spec(1)]
            validate_and_clean_jobs(jobs)
            await w.fe._create_jobs(u, jobs, bid, uid, w.fe_app)
            if not commit:
                return bid, uid
            await w.fe._commit_update(w.fe_app, bid, uid, user, w.db)
            uid2, _, _ = await w.fe._create_batch_update(bid, token + '-2', 2, 1, user, w.db)
            return bid, uid2
        # alice owns `own` (bp-a); bob owns `shared` (bp-a, alice is a member) and `foreign` (bp-b, alice is not)
        own, own_u = await make_batch('alice', 'bp-a', 't-own')
        shared, shared_u = await make_batch('bob', 'bp-a', 't-shared')
        foreign, foreign_u = await make_batch('bob', 'bp-b', 't-foreign')
        deleted, deleted_u = await make_batch('alice', 'bp-a', 't-deleted')
        await w.fe._delete_batch(w.fe_app, deleted)
        base_state = w.engine.save_state()
        # relation of each caller class to each target batch
        targets = {'own': (own, own_u, 'alice', 'bp-a'), 'foreign-project': (foreign, foreign_u, 'bob', 'bp-b'), 'deleted': (deleted, deleted_u, 'alice', 'bp-a'),
                   'nonexistent': (999, 1, None, None)}
        # caller classes are defined relative to batch `own` (owner alice); for the member class the caller is bob
        routes = []
        seen = set()
        for method, path, handler in fe.routes():
            if method == 'HEAD' or path is None or (method, path) in seen:
                continue
            seen.add((method, path))
            routes.append((method, path))
        ctx.count('routes_enumerated', len(routes))

        def body_for(method, path, bid, uid):
            if path.endswith('/jobs/create'):
                return [job_spec(1)]
            if path.endswith('/job-groups/create'):
                return [{'job_group_id': 1, 'absolute_parent_id': 0}]
            if path.endswith('/update-fast'):
                return {'update': {'token': 'c14-x', 'n_jobs': 1}, 'bunch': [job_spec(1)]}
            if path.endswith('/updates/create'):
                return {'token': 'c14-y', 'n_jobs': 1}
            if path.endswith('/batches/create'):
                return {'billing_project': 'bp-a', 'token': 'c14-z', 'n_jobs': 0}
            if path.endswith('/batches/create-fast'):
                return {'batch': {'billing_project': 'bp-a', 'token': 'c14-w', 'n_jobs': 1}, 'bunch': [job_spec(1)]}
            if 'billing_limits' in path:
                return {'limit': 5}
            return None

        def fill(path, bid, uid):
            return (path.replace('{batch_id}', str(bid)).replace('{update_id}', str(uid)).replace('{job_group_id}', '0').replace('{job_id}', '1')
                    .replace('{container}', 'main').replace('{billing_project}', 'bp-new' if path.endswith('/create') else 'bp-a').replace('{user}', 'carol').replace('{filename}', 'x.js'))

        for method, path in routes:
            has_batch = '{batch_id}' in path
            tnames = list(targets) if has_batch else ['own']
            if ctx.quick and has_batch:
                tnames = ['own', 'foreign-project', 'nonexistent'] if (method, path) not in OWNER_ONLY else ['own', 'foreign-project', 'deleted']
            for tname in tnames:
                bid, uid, owner_name, bp = targets[tname]
                for caller in CALLERS:
                    w.engine.load_state(base_state)
                    token = {'none': None, 'invalid': 'no-such-token'}.get(caller, 'tok-' + caller)
                    # relation
                    if caller in ('none', 'invalid', 'inactive'):
                        rel = 'unauthenticated'
                    elif caller == 'owner':
                        rel = 'owner' if owner_name == 'alice' else ('member' if bp == 'bp-a' else 'stranger')
                    elif caller == 'member':  # bob
                        rel = 'owner' if owner_name == 'bob' else ('member' if bp in ('bp-a', 'bp-b') else 'stranger')
                    else:
                        rel = 'stranger'  # carol, dev and auth belong to no billing project
                    is_admin = caller in ('developer', 'auth')
                    url = fill(path, bid, uid)
                    before = w.engine.snapshot()
                    try:
                        resp = await fe.request(method, url, token=token, json=body_for(method, path, bid, uid))
                        status = resp.status
                        loc = str(resp.headers.get('Location', '')) if resp.headers else ''
                    except Unsupported as e:
                        raise Inconclusive('minimysql unsupported: ' + str(e))
                    except Exception as e:
                        status = 'exc:' + type(e).__name__
                        loc = ''
                    after = w.engine.snapshot()
                    changed = before != after
                    denied = (isinstance(status, int) and status >= 400) or (status == 302 and '/user' in loc and 'auth' in loc) or (isinstance(status, str) and not changed)
                    authz_error = status in (401, 403) or (status == 302 and '/user' in loc and 'auth' in loc)
                    # ---- policy -----------------------------------------------------------------------------------
                    admin_route = (('billing_projects' in path or 'billing_limits' in path) and method != 'GET') or path == '/billing_projects'
                    if path in PUBLIC:
                        must_deny = False
                    elif rel == 'unauthenticated':
                        must_deny = True
                    elif admin_route:
                        must_deny = not is_admin
                    elif has_batch:
                        if tname == 'nonexistent':
                            must_deny = True
                        elif (method, path) in OWNER_ONLY:
                            must_deny = rel != 'owner'
                        else:
                            must_deny = rel == 'stranger'
                    else:
                        must_deny = False
                    case = {'method': method, 'route': path, 'caller': caller, 'target': tname, 'relation': rel, 'status': status, 'changed': changed}
                    ctx.case(sample=case, key=(method, path, caller, tname), nontrivial=must_deny or method != 'GET')
                    ctx.seen('status_codes', status)
                    if must_deny:
                        ctx.count('denials_checked')
                        if (method, path) in OWNER_ONLY and rel in ('member', 'stranger'):
                            ctx.count('ownership_denials_checked')
                        kind = ('unauthenticated' if rel == 'unauthenticated' else 'non-admin' if admin_route else
                                'non-owner' if (method, path) in OWNER_ONLY and rel == 'member' else 'non-member')
                        if not denied:
                            ctx.violation(f'access-granted/{kind}', f'{method} {path} answered {status} to caller {caller} ({rel}) on target {tname}', case)
                        if changed:
                            ctx.violation(f'state-changed-on-denied-request/{kind}', f'{method} {path} by {caller} ({rel}) on {tname} changed the tables (status {status})', case)
                    else:
                        if path in PUBLIC:
                            if authz_error:
                                ctx.violation('public-route-requires-auth', f'{method} {path} answered {status} without credentials', case)
                        elif authz_error and rel in ('owner',) and tname in ('own',):
                            ctx.violation('owner-denied', f'{method} {path} answered {status} to the owner', case)
                        if changed:
                            ctx.count('allowed_mutations_observed')
        await listing_phase(ctx, w, fe, base_state, {'own': own, 'shared': shared, 'foreign': foreign, 'deleted': deleted}, routes)
        await revocation_phase(ctx, w, fe, base_state, own, routes)
        await names_phase(ctx, w, fe, base_state, routes, body_for)
        await crafted_id_phase(ctx, w, fe, base_state, {'own': own, 'shared': shared, 'foreign': foreign, 'deleted': deleted}, routes, body_for, make_batch)
        await log_phase(ctx, w, fz, fe, base_state, {'own': own, 'shared': shared, 'foreign': foreign, 'deleted': deleted})
        await w.shutdown()
    run_virtual(main, max_steps=20_000_000)
    ctx.exhaustive = False
