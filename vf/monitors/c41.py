"""C41 Uncommitted updates have no effect on a batch.

Events: after every commit, every job that belongs to an update with committed = 0 is compared with
the row that was inserted for it (state, n_pending_parents, attempt, cancelled flag): any change is an
effect of / on an uncommitted job.  The scheduling counters, tallies and batch / job-group state
oracles of C01, C04 and C06 (which recount over committed jobs only) run as well; a disagreement
that involves an uncommitted job is reported here.  A never-committed update must leave those
recounts untouched, which the same oracles decide at every commit and at the end of the history.
Workload: updates whose bunches are inserted and committed late or never while jobs of earlier
updates (their parents) run, complete, fail or are cancelled; updates committed out of order.
"""
from vf.world import oracles, sqlmon
from vf.world.run import Monitor

PID = 'C41'
LEVEL = 'exploration'
RULE = sqlmon.RULE_HISTORIES + ' Hostile client only: late / never / out-of-order commits, cross-update parents.'
ASSUMPTIONS = sqlmon.COMMON_ASSUMPTIONS
SHARDS = {'quick': 4, 'thorough': 16}
TIMEOUT = {'quick': 900, 'thorough': 3600}
FLOORS = {'uncommitted_job_states_checked': 3000, 'parent_completions_with_uncommitted_children': 5, 'never_committed_updates_with_jobs': 20}

MECH = {
    'job_complete': 'parent-completion-updates-uncommitted-child',
    'cancel_ready': 'canceller-completes-uncommitted-job', 'cancel_creating': 'canceller-completes-uncommitted-job',
    'cancel_running': 'canceller-completes-uncommitted-job',
    'schedule_loop': 'scheduler-runs-uncommitted-job', 'jpim_create': 'scheduler-runs-uncommitted-job', 'jpim_schedule': 'scheduler-runs-uncommitted-job',
    # a worker only reports the start of a job the scheduler posted to it (the driver's own CALL schedule_job may have failed afterwards)
    'job_started': 'scheduler-runs-uncommitted-job',
    'unschedule': 'parent-completion-updates-uncommitted-child', 'deactivate_instance': 'parent-completion-updates-uncommitted-child',
}


class Uncommitted(Monitor):
    def __init__(self, p):
        self.p = p
        self.reset()

    def reset(self):
        self.seen_taint = set()

    def on_commit(self, v):
        ctx = self.r.ctx
        n = 0
        for k, j in v.jobs.items():
            if not v.committed(j):
                n += 1
        ctx.count('uncommitted_job_states_checked', n)
        for k, (cause, op_index) in self.p.tainted.items():
            if k in self.seen_taint:
                continue
            self.seen_taint.add(k)
            opname = getattr(self.r.fz, 'current', None)
            j = v.jobs.get(k)
            if opname == 'job_complete' or (opname in MECH and MECH[opname].startswith('parent')):
                # a completion readied / decremented a child that lives in an uncommitted update
                ctx.count('parent_completions_with_uncommitted_children')
            mech = MECH.get(opname, f'other-{opname}')
            if j is not None and opname in ('job_complete', 'unschedule', 'deactivate_instance') and (j['attempt_id'] is not None or 'state' in cause and j['state'] in ('Running', 'Creating')):
                mech = 'scheduler-runs-uncommitted-job'
            if mech == 'scheduler-runs-uncommitted-job' and j is not None and j['job_group_id'] != 0:
                grp = v.groups.get((k[0], j['job_group_id']))
                gupd = v.updates.get((k[0], grp['update_id'])) if grp else None
                if grp is not None and not (gupd and gupd['committed']):
                    # the recorded finding is about Ready jobs placed in groups that are already running; a group created by an open
                    # update is not visited by the unchanged scheduler (it is 'complete' until the commit)
                    mech = 'scheduler-runs-job-in-group-of-uncommitted-update'
            self.r.violation(f'uncommitted-job-changed/{mech}', f'job {k} of an uncommitted update changed ({cause}) during {opname}', {'job': list(k), 'cause': cause, 'op': opname})
        has_uncommitted_jobs = {}
        for k, j in v.jobs.items():
            if not v.committed(j):
                has_uncommitted_jobs.setdefault(k[0], set()).add((v.batches[k[0]]['user'], j['inst_coll']))
        for name, fn in (('counters', oracles.c01), ('tallies', oracles.c04_tallies), ('completion', oracles.c06)):
            for key, what, wit in fn(v):
                if name == 'counters' and key.startswith('user'):
                    uic = (wit['key'][0], wit['key'][1])
                    if not any(uic in s for s in has_uncommitted_jobs.values()):
                        continue
                    scopes = [('uic',) + uic]
                else:
                    b = (wit.get('key') or wit.get('group') or [wit.get('batch')])[0]
                    if b not in has_uncommitted_jobs:
                        continue
                    scopes = [('batch', b)]
                self.r.violation(sqlmon.explain(self.p, f'uncommitted-effect-{name}/unexplained', scopes), 'while an uncommitted update with jobs exists: ' + what, wit)

    def at_end(self, v):
        for (b, u), upd in v.updates.items():
            if not upd['committed'] and any(j['update_id'] == u and j['batch_id'] == b for j in v.jobs.values()):
                self.r.ctx.count('never_committed_updates_with_jobs')


def run(ctx):
    sqlmon.standard_run(ctx, lambda p: [Uncommitted(p)],
                        cfg={'discipline': False, 'parent_p': 0.7, 'max_updates': 4,
                             'weights': {'commit': 3, 'create_update': 5, 'submit_job_bunch': 12, 'job_complete': 16, 'cancel_batch': 0.7, 'cancel_job_group': 1.5}})
