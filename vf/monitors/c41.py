"""C41 Uncommitted updates have no effect on a batch.

Events: after every commit, every job that belongs to an update with committed = 0 is compared with
the row that was inserted for it (state, n_pending_parents, attempt, cancelled flag): any change is an
effect of / on an uncommitted job.  The scheduling counters, tallies and batch / job-group state
oracles of C01, C04 and C06 (which recount over committed jobs only) run as well; a disagreement
that involves an uncommitted job is reported here.  A never-committed update must leave those
recounts untouched, which the same oracles decide at every commit and at the end of the history.
Workload: updates whose bunches are inserted and committed late or never while jobs of earlier
updates (their parents) run, complete, fail or are cancelled; updates committed out of order.
"""
from vf.world import oracles, sqlmon
from vf.world.run import Monitor

PID = 'C41'
LEVEL = 'exploration'
RULE = sqlmon.RULE_HISTORIES + ' Hostile client only: late / never / out-of-order commits, cross-update parents.'
ASSUMPTIONS = sqlmon.COMMON_ASSUMPTIONS
SHARDS = {'quick': 4, 'thorough': 16}
TIMEOUT = {'quick': 900, 'thorough': 3600}
FLOORS = {'scripted_canceller_sweeps_over_a_cancelled_batch_whose_first_update_is_open': 20, 'scripted_scheduling_passes_over_an_open_update_with_its_own_group': 40, 'uncommitted_job_states_checked': 3000, 'parent_completions_with_uncommitted_children': 5, 'never_committed_updates_with_jobs': 20}

MECH = {
    'job_complete': 'parent-completion-updates-uncommitted-child',
    'cancel_ready': 'canceller-completes-uncommitted-job', 'cancel_creating': 'canceller-completes-uncommitted-job',
    'cancel_running': 'canceller-completes-uncommitted-job',
    'schedule_loop': 'scheduler-runs-uncommitted-job', 'jpim_create': 'scheduler-runs-uncommitted-job', 'jpim_schedule': 'scheduler-runs-uncommitted-job',
    # a worker only reports the start of a job the scheduler posted to it (the driver's own CALL schedule_job may have failed afterwards)
    'job_started': 'scheduler-runs-uncommitted-job',
    'unschedule': 'parent-completion-updates-uncommitted-child', 'deactivate_instance': 'parent-completion-updates-uncommitted-child',
}


class Uncommitted(Monitor):
    def __init__(self, p):
        self.p = p
        self.reset()

    def reset(self):
        self.seen_taint = set()
        self.prev_group_state = {}
        self.op_start_group_state = {}

    def on_commit(self, v):
        ctx = self.r.ctx
        n = 0
        for k, j in v.jobs.items():
            if not v.committed(j):
                n += 1
        ctx.count('uncommitted_job_states_checked', n)
        for k, (cause, op_index) in self.p.tainted.items():
            if k in self.seen_taint:
                continue
            self.seen_taint.add(k)
            opname = getattr(self.r.fz, 'current', None)
            j = v.jobs.get(k)
            if opname == 'job_complete' or (opname in MECH and MECH[opname].startswith('parent')):
                # a completion readied / decremented a child that lives in an uncommitted update
                ctx.count('parent_completions_with_uncommitted_children')
            mech = MECH.get(opname)
            if mech is None:
                # the operation under way is not one that touches jobs: fire-and-forget work of an earlier operation (the canceller
                # and the scheduler hand their per-job calls to a worker pool) committed late.  Attribute by the committing statement.
                sql = getattr(self.r, 'committing_statement', '')
                if 'mark_job_complete' in sql:
                    mech = 'canceller-completes-uncommitted-job' if ('state' in cause and j is not None and j['state'] == 'Cancelled') else 'parent-completion-updates-uncommitted-child'
                elif any(x in sql for x in ('schedule_job', 'mark_job_started', 'mark_job_creating')):
                    mech = 'scheduler-runs-uncommitted-job'
                else:
                    mech = f'other-{opname}'
                ctx.count('taints_attributed_by_committing_statement')
            if j is not None and opname in ('job_complete', 'unschedule', 'deactivate_instance') and (j['attempt_id'] is not None or 'state' in cause and j['state'] in ('Running', 'Creating')):
                mech = 'scheduler-runs-uncommitted-job'
            if mech in ('scheduler-runs-uncommitted-job', 'canceller-completes-uncommitted-job') and j is not None and j['attempt_id'] is None and j['state'] != 'Cancelled' and (
                    cause.startswith('n_pending_parents') or cause == 'cancelled flag set' or (cause.startswith('state ') and j['state'] in ('Ready', 'Pending'))):
                # not this job being run: a PARENT the pass placed started and finished at once (its completion report overtakes the
                # driver's own schedule_job call), and its completion counted down / readied / cancelled the uncommitted child
                mech = 'parent-completion-updates-uncommitted-child'
            if mech == 'scheduler-runs-uncommitted-job' and j is not None and j['job_group_id'] != 0:
                grp = v.groups.get((k[0], j['job_group_id']))
                gupd = v.updates.get((k[0], grp['update_id'])) if grp else None
                posts = [q for q in getattr(self.r.fz, 'worker_posts', []) if tuple(q['job']) == k]
                handed_over_while_running = any(q.get('group_state') == 'running' for q in posts)
                if grp is not None and not (gupd and gupd['committed']) and grp['state'] != 'running' and not handed_over_while_running:
                    # the recorded finding is about Ready jobs placed in groups that are running; a group created by an open update is
                    # 'complete' until a commit makes it running (its own, or that of a LATER update which put jobs into it - a hostile
                    # client can commit out of order), and the unchanged scheduler does not visit groups that are not running.  The group
                    # may be 'complete' again by the time a late start report arrives: what counts is its state when the job was
                    # handed to the worker (the fake worker's hand-over log)
                    mech = 'scheduler-runs-job-in-group-of-uncommitted-update'
            if mech == 'canceller-completes-uncommitted-job' and j is not None:
                grp = v.groups.get((k[0], j['job_group_id']))
                # the group's state when the sweep STARTED (it lists its jobs first and then completes them one commit at a time,
                # which may itself complete the group): the state at the end of the previous operation, else at the previous commit
                gk = (k[0], j['job_group_id'])
                was = self.op_start_group_state.get(gk, self.prev_group_state.get(gk, grp['state'] if grp else None))
                if grp is not None and was != 'running':
                    # the recorded finding is about the canceller's sweep over RUNNING groups (its queries have no committed check);
                    # the unchanged sweep does not visit a group that is not running (e.g. the groups of a batch whose first
                    # update is still open), whether it is cancelled or not
                    mech = 'canceller-sweeps-group-that-is-not-running'
            self.r.violation(f'uncommitted-job-changed/{mech}', f'job {k} of an uncommitted update changed ({cause}) during {opname}', {'job': list(k), 'cause': cause, 'op': opname})
        self.prev_group_state = {g: row['state'] for g, row in v.groups.items()}
        has_uncommitted_jobs = {}
        for k, j in v.jobs.items():
            if not v.committed(j):
                has_uncommitted_jobs.setdefault(k[0], set()).add((v.batches[k[0]]['user'], j['inst_coll']))
        for name, fn in (('counters', oracles.c01), ('tallies', oracles.c04_tallies), ('completion', oracles.c06)):
            for key, what, wit in fn(v):
                if name == 'counters' and key.startswith('user'):
                    uic = (wit['key'][0], wit['key'][1])
                    if not any(uic in s for s in has_uncommitted_jobs.values()):
                        continue
                    scopes = [('uic',) + uic]
                else:
                    b = (wit.get('key') or wit.get('group') or [wit.get('batch')])[0]
                    if b not in has_uncommitted_jobs:
                        continue
                    scopes = [('batch', b)]
                self.r.violation(sqlmon.explain(self.p, f'uncommitted-effect-{name}/unexplained', scopes), 'while an uncommitted update with jobs exists: ' + what, wit)

    def on_op(self, rec, v):
        self.op_start_group_state = {g: row['state'] for g, row in v.groups.items()}

    def at_end(self, v):
        for (b, u), upd in v.updates.items():
            if not upd['committed'] and any(j['update_id'] == u and j['batch_id'] == b for j in v.jobs.values()):
                self.r.ctx.count('never_committed_updates_with_jobs')


async def scripted_cancelled_open_batch(runner, w, fz, rng):
    """directed prefix: batch B1's first update is OPEN with Ready jobs (root group and, half the time, an own sub-group) and B1 is
    cancelled before any commit; the same user has another, committed batch B2 with Ready jobs that is cancelled as well (so the
    canceller has work for this user); the canceller's sweeps run.  B1's jobs must stay exactly as inserted."""
    from batch.front_end.validate import validate_and_clean_jobs, validate_job_groups
    from vf.world.world import userdata

    ctx = runner.ctx
    user = 'alice'
    ud = userdata(user)
    fe = w.fe

    def spec(i, **kw):
        d = {'job_id': i, 'process': {'type': 'docker', 'command': ['true'], 'image': 'u'}, 'resources': {'cpu': '1', 'memory': 'standard', 'storage': '1Gi'}}
        d.update(kw)
        return d
    sub = rng.random() < 0.5
    b1 = await fe._create_batch({'billing_project': 'bp-a', 'token': 'c41c1', 'n_jobs': 2, 'n_job_groups': 1 if sub else 0}, ud, w.db)
    fz.batches[b1] = {'user': user, 'token': 'c41c1', 'groups': {0, 1} if sub else {0}, 'cancelled': set(), 'deleted': False}
    u1, _, _ = await fe._create_batch_update(b1, 'c41c1', 2, 1 if sub else 0, user, w.db)
    if sub:
        gs = [{'job_group_id': 1, 'absolute_parent_id': 0}]
        validate_job_groups(gs)
        await fe._create_job_groups(w.db, b1, u1, user, gs)
    js = [spec(1), spec(2, **({'in_update_job_group_id': 1} if sub else {}))]
    validate_and_clean_jobs(js)
    await fe._create_jobs(ud, js, b1, u1, w.fe_app)
    b2 = await fe._create_batch({'billing_project': 'bp-a', 'token': 'c41c2', 'n_jobs': 2, 'n_job_groups': 0}, ud, w.db)
    fz.batches[b2] = {'user': user, 'token': 'c41c2', 'groups': {0}, 'cancelled': set(), 'deleted': False}
    u2, _, _ = await fe._create_batch_update(b2, 'c41c2', 2, 0, user, w.db)
    js = [spec(1), spec(2)]
    validate_and_clean_jobs(js)
    await fe._create_jobs(ud, js, b2, u2, w.fe_app)
    await fe._commit_update(w.fe_app, b2, u2, user, w.db)
    for b in ((b1, b2) if rng.random() < 0.5 else (b2, b1)):
        await fe._cancel_job_group(w.fe_app, b, 0)
        fz.batches[b]['cancelled'].add(0)
    fz.current = 'cancel_ready'
    await w.canceller.cancel_cancelled_ready_jobs_loop_body()
    await fz._drain()
    fz.current = 'cancel_creating'
    await w.canceller.cancel_cancelled_creating_jobs_loop_body()
    await fz._drain()
    fz.current = 'cancel_running'
    await w.canceller.cancel_cancelled_running_jobs_loop_body()
    await fz._drain()
    from vf.world.oracles import View
    v = View(w.engine)
    ctx.count('scripted_canceller_sweeps_over_a_cancelled_batch_whose_first_update_is_open')
    ctx.seen('scripted_states_of_the_open_updates_jobs_after_the_sweeps', ','.join(sorted({v.jobs[(b1, i)]['state'] for i in (1, 2)})))
    ctx.seen('scripted_states_of_the_committed_cancelled_batchs_jobs_after_the_sweeps', ','.join(sorted({v.jobs[(b2, i)]['state'] for i in (1, 2)})))


async def scripted(runner, w, fz, rng):
    if runner.ctx.case_index[1] % 3 == 2:
        return await scripted_cancelled_open_batch(runner, w, fz, rng)
    return await scripted_open_update_own_group(runner, w, fz, rng)


async def scripted_open_update_own_group(runner, w, fz, rng):
    """directed prefix: update 1 (left OPEN) brings its own job group with a Ready job in it (and, half the time, another job in the
    root group - the recorded finding); update 2 = one job in the root group, committed first, so that the batch and its root group
    are running; a worker with free cores is up and scheduling passes (pool, or job-private creation + scheduling) run."""
    from batch.front_end.validate import validate_and_clean_jobs, validate_job_groups
    from vf.world.world import userdata

    ctx = runner.ctx
    user = 'alice'
    ud = userdata(user)
    fe = w.fe
    jp = rng.random() < 0.3
    res = {'machine_type': 'n1-standard-1', 'preemptible': True, 'storage': '1Gi'} if jp else {'cpu': '1', 'memory': 'standard', 'storage': '1Gi'}

    def spec(i, **kw):
        d = {'job_id': i, 'process': {'type': 'docker', 'command': ['true'], 'image': 'u'}, 'resources': dict(res)}
        d.update(kw)
        return d
    both = rng.random() < 0.5
    bid = await fe._create_batch({'billing_project': 'bp-a', 'token': 'c41s', 'n_jobs': 2 if both else 1, 'n_job_groups': 1}, ud, w.db)
    fz.batches[bid] = {'user': user, 'token': 'c41s', 'groups': {0, 1}, 'cancelled': set(), 'deleted': False}
    # update 1 stays OPEN: its own job group 1 with a job in it (jobs of a first update are Ready as soon as they are inserted)
    u1, _, _ = await fe._create_batch_update(bid, 'c41s', 2 if both else 1, 1, user, w.db)
    gs = [{'job_group_id': 1, 'absolute_parent_id': 0}]
    validate_job_groups(gs)
    await fe._create_job_groups(w.db, bid, u1, user, gs)
    js = [spec(1, in_update_job_group_id=1)] + ([spec(2)] if both else [])
    validate_and_clean_jobs(js)
    await fe._create_jobs(ud, js, bid, u1, w.fe_app)
    # update 2 (one job in the root group) is committed first: the batch and its root group are running
    u2, _, sj2 = await fe._create_batch_update(bid, 'c41s-2', 1, 0, user, w.db)
    js = [spec(1)]
    validate_and_clean_jobs(js)
    await fe._create_jobs(ud, js, bid, u2, w.fe_app)
    await fe._commit_update(w.fe_app, bid, u2, user, w.db)
    saved = {k: fz.cfg[k] for k in ('worker_reject_p', 'fault_schedule_db_p')}
    fz.cfg.update({k: 0 for k in saved})
    fz.fail_next_schedule_db = False
    fz.current = 'schedule_loop'
    if jp:
        fz.current = 'jpim_create'
        await w.jpim.create_instances_loop_body()
        await fz._drain()
        for i in sorted(w.jpim.name_instance.values(), key=lambda i: i.name):
            w.instances.setdefault(i.name, i)
            if i.state == 'pending':
                await i.activate('10.9.0.%d' % (1 + len(w.instances)), w.now_ms())
        fz.current = 'jpim_schedule'
        await w.jpim.schedule_jobs_loop_body()
    else:
        await w.create_instance('standard', cores=16)
        await w.pools['standard'].scheduler.schedule_loop_body()
    await fz._drain()
    fz.cfg.update(saved)
    fz.sync_attempts_from_db()
    ctx.count('scripted_scheduling_passes_over_an_open_update_with_its_own_group')
    from vf.world.oracles import View
    j = View(w.engine).jobs.get((bid, 1))
    ctx.seen('scripted_state_of_the_job_in_the_open_updates_group', ('job-private:' if jp else 'pool:') + (j['state'] if j else 'missing'))


def run(ctx):
    from vf.world.patterns import Patterns
    from vf.world.run import HistoryRunner

    p = Patterns()
    r = HistoryRunner(ctx, [p, Uncommitted(p)], cfg={'weights': dict(sqlmon.WEIGHTS_RUN), 'discipline': False}, n_ops=ctx.pick(10, 20), setup=scripted)
    for i, rng in ctx.cases(ctx.pick(36, 150), 'scripted'):
        res = r.run_case(i, rng)
        ops = res.get('ops', [])
        ctx.case(sample={'scripted-prefix+ops': ops[:30]}, key=('scripted', i, tuple(ops)), nontrivial=True)
    sqlmon.standard_run(ctx, lambda p: [Uncommitted(p)],
                        cfg={'discipline': False, 'parent_p': 0.7, 'max_updates': 4,
                             'weights': {'commit': 3, 'create_update': 5, 'submit_job_bunch': 12, 'job_complete': 16, 'cancel_batch': 0.7, 'cancel_job_group': 1.5}})
