"""C34 Genotype call packing agrees with the engine.

Real code: tcall._convert_to_encoding / _convert_from_encoding (through _to_encoding / _from_encoding + ByteWriter / ByteReader),
allele_pair / allele_pair_sqrt / small_allele_pair (hail/expr/types.py), hail.genetics.Call (normalisation,
unphased_diploid_gt_index).

Oracle A (Python half): decode(encode(c)) == c for every representable call; allele_pair_sqrt(i) = (j, k) with 0 <= j <= k and
k(k+1)/2 + j == i (VCF genotype ordering, a bijection between indices and pairs); Call.unphased_diploid_gt_index agrees.

Oracle B (engine half, model-based): vf/hail_call_model.py -- a transcription of Call.apply / Call1 / Call2 / CallN / allelePair /
Genotype.diploidGtIndex(WithSwap) / allelePairSqrt with 32-bit arithmetic whose constants (shifts, masks, 2^29 bound, 0xffff bound,
smallAllelePair table) are extracted from Call.scala / Genotype.scala at run time (failure => INCONCLUSIVE).  For every call the
engine accepts (model accepts without 32-bit overflow) the Python int32 must be the engine's, the engine's decoding of it must be the
call, and Python's small_allele_pair table must be the engine's.  A call the engine REJECTS is outside the statement's quantifier
("allele indices in range"): what Python does with it is recorded (evidence counters `out_of_range_*`) but is not a violation unless
OUT_OF_RANGE_IS_VIOLATION is switched on.  Inputs on which the engine's own Int arithmetic overflows are not judged.

Workload: exhaustive allele indices 0..64 (thorough 0..256) x ploidy 0/1/2 x phased; all pairs near sqrt(2^30) = 32768, near 0xFFFF,
near the 32-bit overflow of k(k+1) (k = 46340/46341); every boundary where the packed int crosses 2^31-1 (allele representation
2^28) and the representable maximum (2^29), haploid and diploid, phased and unphased; seeded random calls; genotype indices: every
i below a bound plus the four rounding-critical indices around every triangular number T(k), k <= 32767.
"""
import struct

PID = 'C34'
LEVEL = 'exploration'
RULE = (
    'phase small: every call with allele indices 0..64 (thorough 0..256), ploidy 0/1/2, phased and unphased (exhaustive); '
    'phase boundary: every (j,k) in windows around 32768, 0xFFFF, 46340, 23170 (allele representation 2^28) and the representable maximum 2^29, plus haploid alleles around '
    '2^28, 2^29, 2^31; phase random: seeded calls with log-uniform allele indices; phase index: genotype indices 0..200k (thorough 0..4M) and T(k)-1, T(k), T(k)+1, T(k)+k for every k <= 32767. '
    'Distinct by (alleles, phased) / by index; non-trivial when ploidy >= 1.'
)
ASSUMPTIONS = [
    'engine half rests on vf/hail_call_model.py (transcription of Call.scala:14-148 and Genotype.scala:17-37,131-214; constants extracted from those files at run time)',
    'JVM semantics: Int arithmetic wraps modulo 2^32, Int division truncates toward zero, Double.toInt truncates, Math.sqrt is correctly rounded (as Python math.sqrt)',
]
TRUSTED_BASE = ['vf/hail_call_model.py']
SHARDS = {'quick': 1, 'thorough': 16}
TIMEOUT = {'quick': 900, 'thorough': 1800}
FLOORS = {
    'engine_accepts_compared': 9000, 'python_roundtrips': 9000, 'engine_rejects_seen': 100, 'packed_negative_int32': 50, 'indices_checked': 300_000,
    'phased_diploid_compared': 3000, 'unphased_diploid_compared': 3000, 'haploid_compared': 100, 'constants_extracted': 8,
}

# A call the engine rejects (allele representation >= 2^29, negative allele) is outside "allele indices in range"; set to True to
# demand that Python rejects it too (mechanism keys out-of-range/...).
OUT_OF_RANGE_IS_VIOLATION = False


def run(ctx):
    import os

    import hail.expr.types as T
    from hail.genetics import Call

    from vf import hail_call_model as M
    from vf.harness import Inconclusive

    try:
        m = M.load(os.environ.get('VERIF_REPO', '/repo'))
    except M.ExtractionError as e:
        raise Inconclusive(f'cannot extract the engine constants: {e}')
    ctx.count('constants_extracted', len(m.c))
    for k, v in m.c.items():
        ctx.seen('engine_constant', f'{k}={v if k != "small_allele_pair" else len(v)}')
    tcall = T.tcall
    I32 = struct.Struct('<i')

    # ---- the Python table must be the engine's ----------------------------------------------------------
    if ctx.shard == 0:
        eng = [m.allele_pair(j, k) for j, k in m.c['small_allele_pair']]
        if list(T.small_allele_pair) != eng:
            ctx.violation('table/small_allele_pair-differs', f'hail.expr.types.small_allele_pair != Genotype.smallAllelePair: {list(T.small_allele_pair)[:40]} vs {eng[:40]}',
                          {'python': list(T.small_allele_pair), 'engine': eng})
        ctx.count('table_entries_compared', len(eng))

    def kind(alleles, phased):
        return {0: 'ploidy0', 1: 'haploid', 2: 'diploid'}.get(len(alleles), 'polyploid') + ('-phased' if phased else '-unphased')

    def check_call(alleles, phased):
        """one call through both oracles"""
        w = {'alleles': list(alleles), 'phased': phased}
        nontrivial = len(alleles) >= 1
        enumerated = ctx.case_index is None
        if enumerated:  # enumerated phases: make the witness replayable (phase 'call', index = "a_b_p|u")
            ctx.case_index = ('call', '_'.join(str(a) for a in alleles) + ('_p' if phased else '_u'))
        try:
            _check_call(alleles, phased, w, nontrivial)
        finally:
            if enumerated:
                ctx.case_index = None

    def _check_call(alleles, phased, w, nontrivial):
        ctx.case(sample=w, key=(tuple(alleles), phased), nontrivial=nontrivial)
        # engine
        try:
            ec, wrapped = m.encode(list(alleles), phased)
            eng = 'accepts'
        except M.EngineRejects as e:
            ec, wrapped, eng = None, m.wrapped, 'rejects'
            w['engine'] = f'rejects: {e}'
        except ValueError:
            ctx.count('not_a_jvm_int')
            return
        if wrapped:
            # the engine's own Int arithmetic overflowed on this input: its answer is not a specification
            ctx.count('engine_overflow_not_judged')
            eng = 'overflow'
        # python
        try:
            c = Call(list(alleles), phased=phased)
        except Exception as e:
            ctx.count('python_call_constructor_raises')
            if eng == 'accepts':
                ctx.violation('construct/raises', f'Call({list(alleles)}, phased={phased}) raised {e!r} but the engine accepts it', w)
            return
        norm = list(c.alleles)
        try:
            b = tcall._to_encoding(c)
            pc = I32.unpack(b)[0] if len(b) == 4 else None
            py = 'accepts'
        except Exception as e:
            b, pc, py = None, None, 'rejects'
            w['python'] = f'rejects: {type(e).__name__}: {e}'
        w.update(python_int32=pc, engine_int32=ec, bytes=b)
        if eng == 'accepts':
            ctx.count('engine_accepts_compared')
            ctx.count({0: 'ploidy0_compared', 1: 'haploid_compared'}.get(len(alleles), ('phased' if phased else 'unphased') + '_diploid_compared'))
            if ec < 0:
                ctx.count('packed_negative_int32')
            if py == 'rejects':
                ctx.violation(f'pack/{kind(alleles, phased)}-rejected-by-python', f'engine packs Call({list(alleles)}, phased={phased}) as {ec}; Python raises {w["python"]}', w)
                return
            if pc is None:
                ctx.violation('pack/not-four-bytes', f'Call({list(alleles)}, phased={phased}) encodes to {len(b)} bytes', w)
                return
            if pc != ec:
                sub = ''
                if len(alleles) == 2:
                    sub = '-j-lt-k' if alleles[0] < alleles[1] else ('-j-gt-k' if alleles[0] > alleles[1] else '-j-eq-k')
                ctx.violation(f'pack/{kind(alleles, phased)}{sub}-differs-from-engine', f'Call({list(alleles)}, phased={phased}): Python int32 {pc}, engine {ec}', w)
            # model sanity: the engine decodes its own packing to the call
            try:
                ea, eph = m.decode(ec)
                want = list(alleles) if phased or len(alleles) < 2 else sorted(alleles)
                if (ea, eph) != (want, phased):
                    ctx.inconclusive_because(f'engine model does not invert itself on {w}: {ea} {eph}')
            except M.EngineRejects as e:
                ctx.inconclusive_because(f'engine model rejects its own packing of {w}: {e}')
            # Oracle A: Python decodes its own bytes to the call
            ctx.count('python_roundtrips')
            try:
                c2 = tcall._from_encoding(b)
                if not (isinstance(c2, Call) and c2.phased == phased and list(c2.alleles) == norm):
                    ctx.violation(f'unpack/{kind(alleles, phased)}-differs', f'decode(encode(Call({norm}, phased={phased}))) = {c2!r}', dict(w, decoded=repr(c2)))
            except Exception as e:
                ctx.violation(f'unpack/{kind(alleles, phased)}-raises', f'decode(encode(Call({norm}, phased={phased}))) raised {e!r}', w)
            # Python decodes the ENGINE's bytes to the call as well (what Backend.execute returns)
            if pc != ec:
                try:
                    c3 = tcall._from_encoding(I32.pack(ec))
                    if not (c3.phased == phased and list(c3.alleles) == norm):
                        ctx.violation(f'unpack/{kind(alleles, phased)}-engine-bytes-differ', f'engine int32 {ec} decodes to {c3!r}', w)
                except Exception as e:
                    ctx.violation(f'unpack/{kind(alleles, phased)}-engine-bytes-raise', f'engine int32 {ec}: {e!r}', w)
            if len(alleles) == 2 and not phased:
                try:
                    gi = c.unphased_diploid_gt_index()
                    if gi != m.allele_repr(ec):
                        ctx.violation('index/unphased_diploid_gt_index-differs', f'{c!r}.unphased_diploid_gt_index() = {gi!r}, engine allele representation {m.allele_repr(ec)}', w)
                except Exception as e:
                    ctx.violation('index/unphased_diploid_gt_index-raises', f'{c!r}: {e!r}', w)
        elif eng == 'rejects':
            ctx.count('engine_rejects_seen')
            if py == 'rejects':
                ctx.count('out_of_range_python_rejects')
            else:
                ctx.count('out_of_range_python_accepts')
                silently_other = None
                try:
                    c2 = tcall._from_encoding(b)
                    if not (c2.phased == phased and list(c2.alleles) == norm):
                        silently_other = repr(c2)
                except Exception:
                    pass
                if silently_other:
                    ctx.count('out_of_range_silently_packed_as_another_call')
                    ctx.seen('out_of_range_example', f'Call({norm}, phased={phased}) -> int32 {pc} = {silently_other}')
                if OUT_OF_RANGE_IS_VIOLATION:
                    ctx.violation('out-of-range/' + ('silently-packed-as-another-call' if silently_other else 'accepted-by-python'),
                                  f'engine rejects Call({list(alleles)}, phased={phased}) ({w["engine"]}); Python packs it as {pc}' + (f' = {silently_other}' if silently_other else ''), w)
        else:
            # engine overflow: only the Python half is judged -- never a *different* call
            if py == 'accepts':
                try:
                    c2 = tcall._from_encoding(b)
                    if not (c2.phased == phased and list(c2.alleles) == norm):
                        ctx.count('out_of_range_silently_packed_as_another_call')
                        ctx.seen('out_of_range_example', f'Call({norm}, phased={phased}) -> int32 {pc} = {c2!r}')
                        if OUT_OF_RANGE_IS_VIOLATION:
                            ctx.violation('out-of-range/silently-packed-as-another-call', f'Call({norm}, phased={phased}) packs as {pc} = {c2!r}', w)
                except Exception:
                    pass

    def both(j, k):
        check_call([j, k], False)
        check_call([j, k], True)

    if ctx.replay is not None and ctx.replay.get('phase') == 'call':
        parts = ctx.replay['case_index'].split('_')
        check_call([int(x) for x in parts[:-1] if x != ''], parts[-1] == 'p')

    # ---- phase small (exhaustive) ------------------------------------------------------------------------
    n = 0
    if ctx.replay is None:
        A = ctx.pick(64, 256)
        check_call([], False)
        check_call([], True)
        for a in range(A + 1):
            check_call([a], False)
            check_call([a], True)
        for j in range(A + 1):
            for k in range(A + 1):
                n += 1
                if n % ctx.n_shards != ctx.shard:
                    continue
                both(j, k)
        ctx.count('small_exhaustive_bound', A if ctx.shard == 0 else 0)

        # ---- phase boundary ------------------------------------------------------------------------------
        W = ctx.pick(12, 40)
        small = [0, 1, 2, 7, 8, 9, 100]

        def window(center):
            return range(max(0, center - W), center + W + 1)

        pairs = set()
        for center in (32768, 0xFFFF, 46340, 16384):
            for j in window(center):
                for k in window(center):
                    pairs.add((j, k))
            for s in small:
                for k in window(center):
                    pairs.add((s, k))
                    pairs.add((k, s))
        # allele representation around 2^28 (packed int crosses 2^31-1) and 2^29 (representable maximum), diploid
        for target in (1 << 28, 1 << 29):
            k = int(((8 * target + 1) ** 0.5 - 1) / 2)
            for kk in range(k - 2, k + 3):
                tri = kk * (kk + 1) // 2
                for j in range(max(0, target - tri - W), min(kk, target - tri + W) + 1):
                    pairs.add((j, kk))  # unphased (j <= kk); phased variant uses (j, kk - j)
                    pairs.add((j, kk - j))
                for j in list(range(0, min(W, kk) + 1)) + list(range(max(0, kk - W), kk + 1)):
                    pairs.add((j, kk))
                    pairs.add((j, kk - j))
        for idx, (j, k) in enumerate(sorted(pairs)):
            if idx % ctx.n_shards != ctx.shard:
                continue
            both(j, k)
        if ctx.shard == 0:
            hap = set()
            for center in (1 << 28, 1 << 29, (1 << 31) - 1, 0xFFFF, 1 << 16):
                hap.update(range(center - W, center + W + 1))
            hap.update([-1, -2, -(1 << 31), (1 << 31), (1 << 32), (1 << 32) + 5, (1 << 29) + (1 << 28)])
            for a in sorted(hap):
                check_call([a], False)
                check_call([a], True)
            for j, k in [(-1, 0), (0, -1), (-1, -1), (5, -3)]:
                both(j, k)

    # ---- phase random ----------------------------------------------------------------------------------
    N = ctx.pick(6_000, 40_000)
    for i, rng in ctx.cases(N, 'random'):
        def allele():
            bits = rng.choice([3, 6, 8, 10, 12, 14, 15, 15, 16, 17])
            return rng.randrange(0, 1 << bits)
        r = rng.random()
        if r < 0.1:
            bits = rng.choice([8, 16, 24, 28, 29, 30])
            check_call([rng.randrange(0, 1 << bits)], rng.random() < 0.5)
        else:
            check_call([allele(), allele()], rng.random() < 0.5)

    # ---- phase index: genotype index <-> allele pair ----------------------------------------------------
    if ctx.replay is None or ctx.replay.get('phase') == 'index':
        mask, shift = m.c['allele_pair_max'], m.c['allele_pair_k_shift']

        def check_index(i):
            ctx.case_index = ('index', i)
            ctx.count('indices_checked')
            ctx.case(key=('index', i), nontrivial=i > 0)
            try:
                p = T.allele_pair_sqrt(i)
            except Exception as e:
                ctx.violation('index/allele_pair_sqrt-raises', f'allele_pair_sqrt({i}) raised {e!r}', {'index': i})
                return
            j, k = p & mask, (p >> shift) & mask
            if not (0 <= j <= k and k * (k + 1) // 2 + j == i):
                ctx.violation('index/allele_pair_sqrt-not-inverse', f'allele_pair_sqrt({i}) = (j={j}, k={k}); k(k+1)/2+j = {k * (k + 1) // 2 + j}', {'index': i, 'j': j, 'k': k})
            try:
                ep = m.allele_pair_sqrt(i)
                if ep != p:
                    ctx.violation('index/allele_pair_sqrt-differs-from-engine', f'allele_pair_sqrt({i}) = {p}, engine {ep}', {'index': i})
            except M.EngineRejects as e:
                ctx.violation('index/allele_pair_sqrt-engine-asserts', f'engine asserts on index {i}: {e}; Python returns {p}', {'index': i})

        if ctx.replay is not None:
            check_index(ctx.replay['case_index'])
        else:
            bound = ctx.pick(200_000, 4_000_000)
            for i in range(ctx.shard, bound, ctx.n_shards):
                check_index(i)
            for k in range(0, 32768):
                if k % ctx.n_shards != ctx.shard:
                    continue
                tri = k * (k + 1) // 2
                for i in (tri - 1, tri, tri + 1, tri + k):
                    if 0 <= i < (1 << m.c['allele_repr_bits']):
                        check_index(i)
            if ctx.shard == 0:
                for i in range((1 << 29) - 70000, 1 << 29):
                    check_index(i)
        ctx.case_index = None
    ctx.exhaustive = False


# -------------------------------------------------------------------------------------------------
# Validation record (scratch worktree of /repo HEAD, VERIF_REPO=<scratch>, quick tier, seed 0).
#
# Unchanged tree: exit 0, seeds 0..4, both tiers.  The DESIGN section 6 candidate ("int_rep == 2**31-1 mapped out of int32") is NOT a defect:
# 0x7FFFFFFF has ploidy bits 11 (ploidy 3), which no call of ploidy <= 2 can produce; every packed value with the sign bit set
# (allele representation in [2^28, 2^29)) equals the engine's int32 (counter packed_negative_int32).
# Recorded, outside the statement ("allele indices in range"): for calls the engine REJECTS (allele representation >= 2^29, e.g.
# Call([2**29]) or Call([32767, 0], phased=True)) Python does not raise but silently packs ANOTHER call (int_rep - 2**32 lands back in
# int32): counters out_of_range_python_accepts / out_of_range_silently_packed_as_another_call, examples in observed_sets.
# Flip OUT_OF_RANGE_IS_VIOLATION to demand rejection (keys out-of-range/...).
#
# Breaks tried, one at a time (exit 1 in the quick tier unless stated):
#   B1 (DESIGN) diploid_gt_index returns k*(k+1)//2 + k                              caught  pack/diploid-*-differs-from-engine, unpack/*
#   B2 decoder: ap_k uses (p >> 15)                                                  caught  unpack/diploid-*-differs
#   S3 [j, k] = sorted(c.alleles) before packing (only phased diploid with j > k)    caught  pack/diploid-phased-j-gt-k-differs-from-engine
#   S4 allele_pair_sqrt: "... - 0.5 + 1e-4" (only indices T(k)-1 with k > ~10000)    caught  unpack/diploid-*-raises, index/allele_pair_sqrt-raises
#   S5 small_allele_pair[7] = allele_pair(3, 1)                                      caught  table/small_allele_pair-differs, unpack/*
#   S6 sign wrap one bit early (0 <= int_rep < 2**30; only representations in [2^27, 2^28))
#                                                                                    caught  pack/*-rejected-by-python
#   E7 Call.scala: one of the two 2^29 bounds edited                                 exit 2  INCONCLUSIVE (extraction consistency check)
#   E8 Genotype.scala: diploidGtIndex formula rewritten                              exit 2  INCONCLUSIVE (transcribed shape no longer present)
