"""C01 Scheduler job/core counters always match job states.

Real code: the batch SQL (triggers jobs_after_update / jobs_before_insert, commit_batch_update,
cancel_job_group, every procedure touching jobs.state) executed by minimysql, driven through
front_end._create_* / _commit_update / _cancel_job_group, driver/job.py, PoolScheduler, Canceller,
JPIM and the cleanup functions of driver/main.py.
Oracle (after every committed transaction): user_inst_coll_resources and
job_group_inst_coll_cancellable_resources summed over tokens equal a recount over committed jobs'
states, cancellation marks and always-run flags (vf/world/oracles.py: c01).
"""
from vf.world import oracles, sqlmon
from vf.world.run import Monitor

PID = 'C01'
LEVEL = 'exploration'
RULE = sqlmon.RULE_HISTORIES
ASSUMPTIONS = sqlmon.COMMON_ASSUMPTIONS
SHARDS = {'quick': 4, 'thorough': 16}
TIMEOUT = {'quick': 900, 'thorough': 3600}
FLOORS = {'commits_checked': 2000, 'sql_routine:jobs_after_update': 300, 'sql_routine:cancel_job_group': 10, 'sql_routine:commit_batch_update': 20,
          'histories_free_of_known_patterns': 50, 'sql_routine:mark_job_complete': 50}


class C01(Monitor):
    def __init__(self, patterns):
        self.p = patterns

    def on_commit(self, view):
        for key, what, wit in oracles.c01(view):
            k = wit['key']
            scope = ('uic', k[0], k[1]) if key.startswith('user-counters') else ('batch', k[0])
            self.r.violation(sqlmon.explain(self.p, key, [scope]), what, wit)


def run(ctx):
    sqlmon.standard_run(ctx, lambda p: [C01(p)])
