"""C01 Scheduler job/core counters always match job states.

Real code: the batch SQL (triggers jobs_after_update / jobs_before_insert, commit_batch_update,
cancel_job_group, every procedure touching jobs.state) executed by minimysql, driven through
front_end._create_* / _commit_update / _cancel_job_group, driver/job.py, PoolScheduler, Canceller,
JPIM and the cleanup functions of driver/main.py.
Oracle (after every committed transaction): user_inst_coll_resources and
job_group_inst_coll_cancellable_resources summed over tokens equal a recount over committed jobs'
states, cancellation marks and always-run flags (vf/world/oracles.py: c01).
"""
from vf.world import oracles, sqlmon
from vf.world.run import Monitor

PID = 'C01'
LEVEL = 'exploration'
RULE = sqlmon.RULE_HISTORIES
ASSUMPTIONS = sqlmon.COMMON_ASSUMPTIONS
SHARDS = {'quick': 4, 'thorough': 16}
TIMEOUT = {'quick': 900, 'thorough': 3600}
FLOORS = {'scripted_commits_of_a_cancelled_open_batch_through_the_route': 20, 'commits_checked': 2000, 'sql_routine:jobs_after_update': 300, 'sql_routine:cancel_job_group': 10, 'sql_routine:commit_batch_update': 20,
          'histories_free_of_known_patterns': 50, 'sql_routine:mark_job_complete': 50}


class C01(Monitor):
    def __init__(self, patterns):
        self.p = patterns

    def on_commit(self, view):
        for key, what, wit in oracles.c01(view):
            k = wit['key']
            scope = ('uic', k[0], k[1]) if key.startswith('user-counters') else ('batch', k[0])
            self.r.violation(sqlmon.explain(self.p, key, [scope]), what, wit)


async def scripted(runner, w, fz, rng):
    """directed prefix: orders of {submit, cancel, commit} that an ordinary client can produce through the ROUTES on one batch
    (1..3 parentless / chained jobs, some always-run, optionally a sub-group): cancel of the open batch then commit of update 1
    (the commit route refuses), commit then cancel, cancel of a sub-group then cancel of the batch, a second update after a cancel.
    The after-every-commit recount decides."""
    from aiohttp import web
    from batch.front_end.validate import validate_and_clean_jobs, validate_job_groups
    from vf.world.http import FrontEnd
    from vf.world.world import userdata

    ctx = runner.ctx
    user = 'alice'
    ud = userdata(user)
    fe = w.fe
    if fz.http_fe is None:
        fz.http_fe = FrontEnd(w)
        for u in fz.cfg['users']:
            fz.http_fe.auth_service.add('tok-' + u, userdata(u))
    n = rng.choice([1, 2, 3])
    sub = rng.random() < 0.4

    def spec(i, **kw):
        d = {'job_id': i, 'process': {'type': 'docker', 'command': ['true'], 'image': 'u'}, 'resources': {'cpu': rng.choice(['0.5', '1', '2']), 'memory': 'standard', 'storage': '1Gi'}}
        d.update(kw)
        return d
    bid = await fe._create_batch({'billing_project': 'bp-a', 'token': 'c01s', 'n_jobs': n, 'n_job_groups': 1 if sub else 0}, ud, w.db)
    fz.batches[bid] = {'user': user, 'token': 'c01s', 'groups': {0, 1} if sub else {0}, 'cancelled': set(), 'deleted': False}
    u1, _, _ = await fe._create_batch_update(bid, 'c01s', n, 1 if sub else 0, user, w.db)
    if sub:
        gs = [{'job_group_id': 1, 'absolute_parent_id': 0}]
        validate_job_groups(gs)
        await fe._create_job_groups(w.db, bid, u1, user, gs)
    js = []
    for i in range(1, n + 1):
        kw = {}
        if i > 1 and rng.random() < 0.4:
            kw['in_update_parent_ids'] = [i - 1]
        if rng.random() < 0.25:
            kw['always_run'] = True
        if sub and rng.random() < 0.5:
            kw['in_update_job_group_id'] = 1
        js.append(spec(i, **kw))
    validate_and_clean_jobs(js)
    await fe._create_jobs(ud, js, bid, u1, w.fe_app)
    order = rng.choice(['cancel-commit', 'cancel-commit', 'commit-cancel', 'cancel-commit-cancel'])

    async def route_commit():
        fz.commits_via_route.add((bid, u1))  # (known while the commit's own transaction is being judged)
        resp = await fz.http_fe.request('PATCH', f'/api/v1alpha/batches/{bid}/updates/{u1}/commit', token='tok-' + user)
        ctx.seen('scripted_commit_route_answers', f'{order}:{resp.status}')
        if resp.status >= 400:
            fz.commits_via_route.discard((bid, u1))
        return resp.status

    async def route_cancel():
        resp = await fz.http_fe.request('PATCH', f'/api/v1alpha/batches/{bid}/cancel', token='tok-' + user)
        if resp.status < 400:
            fz.batches[bid]['cancelled'].add(0)
        return resp.status
    fz.current = 'commit'
    for step in order.split('-'):
        if step == 'cancel':
            fz.current = 'cancel_batch'
            await route_cancel()
        else:
            fz.current = 'commit'
            await route_commit()
    for p in fz.plans:
        pass
    ctx.count('scripted_route_orders')
    if order.startswith('cancel-commit'):
        ctx.count('scripted_commits_of_a_cancelled_open_batch_through_the_route')


def run(ctx):
    from vf.world.patterns import Patterns
    from vf.world.run import HistoryRunner

    p = Patterns()
    r = HistoryRunner(ctx, [p, C01(p)], cfg={'weights': dict(sqlmon.WEIGHTS_RUN)}, n_ops=ctx.pick(10, 20), setup=scripted)
    for i, rng in ctx.cases(ctx.pick(24, 120), 'scripted'):
        res = r.run_case(i, rng)
        ops = res.get('ops', [])
        ctx.case(sample={'scripted-prefix+ops': ops[:30]}, key=('scripted', i, tuple(ops)), nontrivial=True)
    sqlmon.standard_run(ctx, lambda p: [C01(p)])
