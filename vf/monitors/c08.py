"""C08 Accepted job graphs can always finish.

Real code: the handlers create_batch_fast / update_batch_fast / create_jobs_for_update (unwrapped from
the auth decorator, everything below it real: json_request, validate_*, _create_batch,
_create_batch_update, _create_job_groups, _create_jobs, _commit_update) + commit_batch_update and the
driver code that drains the batch.
Oracle: an independent well-formedness predicate over the submission (every parent resolves to a job
that exists *earlier* in the same batch; job ids inside the update's reserved range).  Ill-formed =>
the request must end rejected and no job of it may exist / its update must not be committed.
Accepted and committed => driving every runnable job to Success reaches batch.state = 'complete'
within #jobs + 3 rounds of (schedule, complete, cancel) - bounded progress.
"""
import copy
import inspect
import logging
import random

from aiohttp import web

from vf.harness import Inconclusive
from vf.minimysql.values import Unsupported
from vf.sim.vloop import Deadlock, StepLimit, run_virtual
from vf.world import sqlmon
from vf.world.fuzz import FakeRequest, Fuzzer
from vf.world.oracles import TERMINAL, View
from vf.world.world import World, userdata

PID = 'C08'
LEVEL = 'exploration'
RULE = ('well-formed DAG submissions (1-6 jobs, in-update and cross-update parents, optional committed first update) are mutated by one schema-valid '
        'adversarial edit {none, self parent, later in-update parent, missing absolute parent, absolute parent in an uncommitted other update, '
        'duplicate parent, absolute parent id 0, job ids shifted past the reserved range, fewer jobs than reserved} and sent through one of the three '
        'submission endpoints; distinct by (endpoint, mutation, dag shape); non-trivial when the submission has a dependency or a mutation.')
ASSUMPTIONS = sqlmon.COMMON_ASSUMPTIONS + ['bounded progress: all schedulable attempts are completed successfully by the harness for #jobs+3 rounds']
SHARDS = {'quick': 4, 'thorough': 16}
TIMEOUT = {'quick': 900, 'thorough': 3600}
FLOORS = {'accepted_and_drained': 50, 'illformed_submissions': 100, 'wellformed_with_dependencies': 50}

MUTATIONS = ['none', 'none', 'self-parent', 'later-parent', 'missing-parent', 'parent-in-uncommitted-update', 'duplicate-parent', 'parent-id-zero',
             'job-ids-outside-range', 'jobs-missing-head', 'jobs-missing-head', 'jobs-missing-tail', 'fractional-parent-id', 'none']


def gen_jobs(rng, n, n_prior):
    jobs = []
    for i in range(1, n + 1):
        spec = {'job_id': i, 'process': {'type': 'docker', 'command': ['true'], 'image': 'ubuntu:22.04'},
                'resources': {'cpu': rng.choice(['0.25', '1']), 'memory': 'standard', 'storage': '1Gi'}}
        if i > 1 and rng.random() < 0.6:
            spec['in_update_parent_ids'] = sorted(rng.sample(range(1, i), rng.randint(1, min(2, i - 1))))
        if n_prior and rng.random() < 0.5:
            spec['absolute_parent_ids'] = sorted(rng.sample(range(1, n_prior + 1), rng.randint(1, min(2, n_prior))))
        if rng.random() < 0.15:
            spec['always_run'] = True
        jobs.append(spec)
    return jobs


def mutate(rng, jobs, kind, n_prior, foreign_ids):
    """returns (jobs, applied_kind or None)"""
    jobs = copy.deepcopy(jobs)
    n = len(jobs)
    t = rng.randrange(n)
    j = jobs[t]
    if kind == 'self-parent':
        j.setdefault('in_update_parent_ids', []).append(j['job_id'])
    elif kind == 'later-parent':
        if t == n - 1:
            return jobs, None
        j.setdefault('in_update_parent_ids', []).append(rng.randint(j['job_id'] + 1, n))
    elif kind == 'missing-parent':
        j.setdefault('absolute_parent_ids', []).append(n_prior + n + rng.randint(1, 50))
    elif kind == 'parent-in-uncommitted-update':
        if not foreign_ids:
            return jobs, None
        j.setdefault('absolute_parent_ids', []).append(rng.choice(foreign_ids))
    elif kind == 'duplicate-parent':
        ps = j.get('in_update_parent_ids')
        if not ps:
            return jobs, None
        ps.append(ps[0])
    elif kind == 'parent-id-zero':
        j.setdefault('absolute_parent_ids', []).append(0)
    elif kind == 'job-ids-outside-range':
        shift = rng.randint(1, 5)
        for x in jobs:
            x['job_id'] += shift
        return jobs, kind
    elif kind == 'fractional-parent-id':
        # a dependency must name a job: a JSON number that is not an integer names none (whatever the column type makes of it)
        if t == 0:
            return jobs, None
        frac = rng.choice([0.75, 0.5, 0.25, 0.999])
        j.setdefault('in_update_parent_ids', []).append(j['job_id'] - 1 + frac)
    elif kind in ('jobs-missing-head', 'jobs-missing-tail'):
        # fewer jobs than the update reserved: the head (ids 1..k absent, the highest id present) or the tail is never sent.
        # The reserved count stays n, so the batch could never reach n completed jobs; jobs naming an absent id can never run.
        if n < 2:
            return jobs, None
        k = rng.randint(1, n - 1)
        return (jobs[k:] if kind == 'jobs-missing-head' else jobs[: n - k]), kind
    elif kind == 'none':
        return jobs, 'none'
    for key in ('in_update_parent_ids', 'absolute_parent_ids'):
        if key in j:
            j[key] = list(j[key])
    return jobs, kind


def run(ctx):
    logging.disable(logging.CRITICAL)
    N = ctx.pick(120, 1200)
    for i, rng in ctx.cases(N):
        one_case(ctx, i, rng)


def one_case(ctx, i, rng):
    seed = rng.getrandbits(32)
    info = {}

    async def main(loop):
        w = World(seed=seed, loop=loop, n_tokens=rng.choice([1, 2]))
        await w.boot()
        fz = Fuzzer(w, random.Random(seed), {'job_private': False, 'worker_reject_p': 0, 'fault_schedule_db_p': 0})
        fe = w.fe
        h_create_fast = inspect.unwrap(fe.create_batch_fast)
        h_update_fast = inspect.unwrap(fe.update_batch_fast)
        h_jobs_create = inspect.unwrap(fe.create_jobs_for_update)
        user = 'alice'
        ud = userdata(user)
        try:
            endpoint = rng.choice(['create-fast', 'update-fast', 'jobs-create'])
            n_prior = 0
            bid = None
            foreign_ids = []
            if endpoint != 'create-fast':
                # a committed first update with k jobs
                k = rng.randint(1, 3)
                first = gen_jobs(rng, k, 0)
                body = {'batch': {'billing_project': 'bp-a', 'token': f'base{seed}', 'n_jobs': k}, 'bunch': first}
                resp = await h_create_fast(FakeRequest(w.fe_app, body), ud)
                import orjson

                bid = orjson.loads(resp.body)['id']
                n_prior = k
                if rng.random() < 0.5:
                    # another, never committed update occupying an id range
                    m = rng.randint(1, 2)
                    uid2, _, sj2 = await fe._create_batch_update(bid, f'foreign{seed}', m, 0, user, w.db)
                    fj = gen_jobs(rng, m, 0)
                    from batch.front_end.validate import validate_and_clean_jobs

                    validate_and_clean_jobs(fj)
                    await fe._create_jobs(ud, fj, bid, uid2, w.fe_app)
                    foreign_ids = list(range(sj2, sj2 + m))
                    n_prior += m
            n = rng.randint(1, 6)
            base = gen_jobs(rng, n, n_prior - len(foreign_ids) if foreign_ids else n_prior)
            kind = rng.choice(MUTATIONS)
            jobs, applied = mutate(rng, base, kind, n_prior, foreign_ids)
            if applied is None:
                applied = 'none'
                jobs = base
            has_dep = any(j.get('in_update_parent_ids') or j.get('absolute_parent_ids') for j in jobs)
            illformed = applied not in ('none', 'duplicate-parent')
            unspecified = applied == 'duplicate-parent'  # the statement does not say whether a repeated parent is acceptable
            info.update(endpoint=endpoint, mutation=applied, n=n, n_prior=n_prior, has_dep=has_dep,
                        shape=[(j['job_id'], tuple(j.get('in_update_parent_ids', ())), tuple(j.get('absolute_parent_ids', ()))) for j in jobs])
            before_jobs = set(View(w.engine).jobs)
            outcome = 'ok'
            uid = None
            try:
                if endpoint == 'create-fast':
                    body = {'batch': {'billing_project': 'bp-a', 'token': f't{seed}', 'n_jobs': n}, 'bunch': jobs}
                    resp = await h_create_fast(FakeRequest(w.fe_app, body), ud)
                    import orjson

                    bid = orjson.loads(resp.body)['id']
                elif endpoint == 'update-fast':
                    body = {'update': {'token': f't{seed}', 'n_jobs': n}, 'bunch': jobs}
                    await h_update_fast(FakeRequest(w.fe_app, body, match_info={'batch_id': str(bid)}), ud)
                else:
                    uid, _, _ = await fe._create_batch_update(bid, f't{seed}', n, 0, user, w.db)
                    await h_jobs_create(FakeRequest(w.fe_app, jobs, match_info={'batch_id': str(bid), 'update_id': str(uid)}), ud)
                    await fe._commit_update(w.fe_app, bid, uid, user, w.db)
            except web.HTTPException as e:
                outcome = f'http:{e.status}'
            except Unsupported as e:
                raise Inconclusive('minimysql unsupported: ' + str(e))
            except Exception as e:
                outcome = 'error:' + type(e).__name__
            info['outcome'] = outcome
            v = View(w.engine)
            new_jobs = sorted(k for k in v.jobs if k not in before_jobs)
            new_committed = [k for k in new_jobs if v.committed(v.jobs[k])]
            if illformed:
                ctx.count('illformed_submissions')
                ctx.count('illformed:' + applied)
                if outcome == 'ok' or new_committed:
                    ctx.count('illformed_accepted:' + applied)
                    ctx.violation(f'ill-formed-accepted/{applied}',
                                  f'{endpoint}: submission with {applied} was accepted (outcome {outcome}, {len(new_committed)} jobs committed)', {'case': info})
                elif new_jobs and not applied.startswith('jobs-missing'):
                    # (an incomplete update legitimately keeps the bunches it received; what must be refused is its commit)
                    ctx.violation(f'rejected-but-jobs-inserted/{applied}', f'{endpoint}: rejected ({outcome}) but {len(new_jobs)} jobs of it remain inserted', {'case': info})
            else:
                if has_dep:
                    ctx.count('wellformed_with_dependencies')
                if outcome != 'ok' and not unspecified:
                    ctx.violation('well-formed-rejected', f'{endpoint}: well-formed submission rejected with {outcome}', {'case': info})
            # bounded progress for whatever was accepted and committed
            if new_committed or (outcome == 'ok'):
                await w.create_instance('standard', cores=16)
                n_jobs_total = len(v.jobs)
                for rnd in range(n_jobs_total + 3):
                    await w.pools['standard'].scheduler.schedule_loop_body()
                    await fz._drain()
                    fz.sync_attempts_from_db()
                    for a in list(fz.attempts.values()):
                        row = w.engine.tables['attempts'].pk_get(a['batch_id'], a['job_id'], a['attempt_id'])
                        if row is not None and row['end_time'] is None:
                            inst = fz._instance_of(a)
                            now = w.now_ms()
                            st = {'batch_id': a['batch_id'], 'job_id': a['job_id'], 'attempt_id': a['attempt_id'], 'job_group_id': 0, 'state': 'succeeded',
                                  'start_time': now, 'end_time': now + 1, 'status': {}, 'resources': []}
                            await w.dm.job_complete(fz._worker_request(inst, {'status': st}))
                    await w.canceller.cancel_cancelled_ready_jobs_loop_body()
                    vv = View(w.engine)
                    if all(bt['state'] == 'complete' for b_, bt in vv.batches.items() if b_ == bid):
                        break
                vv = View(w.engine)
                bt = vv.batches.get(bid)
                stuck = [k for k, j in vv.jobs.items() if k[0] == bid and vv.committed(j) and j['state'] not in TERMINAL]
                if bt is not None and (bt['state'] != 'complete' or stuck):
                    key = f'accepted-graph-cannot-finish/{applied}' if illformed else 'accepted-graph-cannot-finish/well-formed'
                    ctx.violation(key, f'{endpoint}: committed batch {bid} is {bt["state"]} after draining; stuck jobs {stuck[:5]}',
                                  {'case': info, 'stuck': [(k, vv.jobs[k]['state'], vv.jobs[k]['n_pending_parents']) for k in stuck[:6]]})
                else:
                    ctx.count('accepted_and_drained')
        finally:
            await w.shutdown()
    try:
        run_virtual(main, max_steps=3_000_000)
    except (Deadlock, StepLimit) as e:
        ctx.inconclusive_because(f'case {i}: {type(e).__name__}: {e}')
    ctx.case(sample=info, key=(info.get('endpoint'), info.get('mutation'), str(info.get('shape'))), nontrivial=bool(info.get('has_dep') or info.get('mutation') != 'none'))
