"""C24 Rate limiter never exceeds its rate (and admits as soon as that is possible).

Real code: ``hailtop.utils.rate_limiter.RateLimiter`` entered with ``async with limiter:``; the
module's ``time`` is redirected to the virtual loop's clock (``asyncio.sleep`` already uses it).

Events (recorded by the entry coroutines, logical clock): ``request(i, r)`` immediately before
``async with``, ``admit(i, a)`` as first statement of the body (``__aenter__`` appends its own
``now`` and returns without a suspension point, so ``a`` is the timestamp the limiter stored).

Oracle (history, exact rational arithmetic on the recorded floats):

* rate - admissions sorted t_1 <= t_2 <= ...: every half-open window of length W holds at most
  ``count`` admissions  <=>  t_{i+count} - t_i >= W for all i.  Tolerance: one ulp of the clock value
  (the limiter evicts on ``items[0] <= now - W``; the float subtraction is off by at most ulp/2).
* work conservation - occ(tau) = #{k : tau - W < t_k <= tau} over the *final* admission history.
  For every entry that waited (r < a) there must be no stretch of logical time inside [r, a) longer
  than DELTA during which occ < count (admission was possible, by whoever, and this entry was not
  admitted).  DELTA = 2 microseconds >> the few ulps (2.4e-7 s at 1.7e9) by which correct code may
  wake late because ``now + delay`` and ``now - W`` are rounded.
* spin - the virtual clock only advances when nothing is runnable.  If the loop exceeds its step
  budget (20x what correct code needs) and the clock has not moved for the last 1000 iterations,
  some entry re-evaluates with a non-positive delay at a frozen instant tau; when occ(tau) < count
  in exact arithmetic it could have been admitted at tau and never is.  (With timers firing
  exactly - see below - correct code cannot spin: it either admits or sleeps a positive time.)
  Entries still not admitted when the budget runs out are judged by the work-conservation rule
  over [r, end of observation).

Clock: realistic ``time.time()`` magnitudes only (1.6e9..1.9e9, ulp 2.4e-7); tiny clock values would
let ``now + delay == now`` freeze a *correct* limiter under a clock that never moves by itself.
``loop._clock_resolution`` is lowered from the virtual loop's 1e-6 to one ulp inside this monitor:
with 1e-6 timers fire up to a microsecond early *without* the clock moving, and two waiters whose
remaining delay is below that could in principle wake each other's timers alternately for ever (an
artefact of the frozen clock, not of the limiter; precautionary - 3000 cases with the default 1e-6
showed neither a livelock nor a different verdict).

Workload: count 1-5, windows including non-representable ones, bursts, steady arrivals, arrivals at
exact multiples of the window after an earlier arrival (expiry instants), grid arrivals.

Phase ``abandon`` ("any pattern of concurrent entries" includes entries that never complete their entry):
the same arrival patterns, but a seeded subset of the entrants gives up - ``Task.cancel()`` from outside,
``asyncio.wait_for`` around the whole ``async with``, or a teardown that cancels every waiter at one
instant - after 0 / a fraction / a multiple of the window or exactly at an expiry instant; some retry at
once or after a back-off (a new entry); some bodies hold the limiter for a while, raise, or are cancelled
*after* admission.  Events: additionally ``gone(i, c)`` when CancelledError surfaces in entry ``i``.
Oracle over *real* admissions only (an entry whose ``gone`` precedes its ``admit`` was never admitted and
occupies nothing; one that was admitted counts for a whole window whatever happens to its body):
the rate rule as above; work conservation for every entry that waited - also for those queued behind
an abandoned waiter or arriving after it - and for the abandoned waiter itself over [r, c).
The counters of this phase carry the prefix ``ab_`` so that the floors of the main phase keep measuring
the main phase alone.
"""
import asyncio
import bisect
import collections
import math
from fractions import Fraction

PID = 'C24'
LEVEL = 'exploration'
RULE = (
    'seeded arrival patterns: count from 1..5, window from {0.001,0.1,0.25,0.3,1/3,0.5,0.7,1.0,1.1,2.5,3.0,60.0}, clock origin integer or '
    'fractional in [1.6e9,1.9e9], 2-24 entries; per case one of burst / steady (spacing 0.5,1,1.5 x window/count) / aligned (earlier '
    'arrival + k x window: arrivals at expiry instants) / grid (window/4) / mixed; virtual-time loop with exact timers. '
    'Distinct = (count, window, admission order with waited? flags, multiset of admission instants relative to origin); '
    'non-trivial = at least one entry had to wait. '
    'Phase abandon: the same patterns with a seeded 20/40/70% of the entrants giving up (external Task.cancel, asyncio.wait_for around the '
    'async with, or a common teardown instant) after 0, {0.1,0.25,0.5,0.75,1,1.5,2.5} x window or exactly at another arrival + k x window; '
    '40% of those retry (new entry) after 0/0.25/1 x window; 15% of the bodies hold for {0.1,0.5,1,2} x window, 10% raise; distinct additionally by '
    'which entries were abandoned while waiting; non-trivial = somebody waited or gave up while waiting.'
)
ASSUMPTIONS = [
    'virtual-time loop (vf/sim/vloop.py) with its timer resolution set to one ulp by this monitor; module-level `time` of rate_limiter redirected to it',
    'clock values have the magnitude of time.time() (about 1.7e9); the limiter under a frozen clock near 0 is out of scope',
    'tolerances: 1 ulp on the rate bound, 2 microseconds on lateness (documented float rounding of the implementation\'s own arithmetic)',
]
SHARDS = {'quick': 1, 'thorough': 16}
TIMEOUT = {'quick': 900, 'thorough': 900}


AB_FLOOR = {
    'cases_with_abandoned_waiter': 420,
    'waiters_abandoned_while_waiting': 1_100,
    'waiters_abandoned_by_cancel': 700,
    'waiters_abandoned_by_timeout': 400,
    'abandoned_exactly_at_expiry': 160,
    'abandoned_together_with_another_waiter': 200,
    'waiting_already_when_another_gave_up': 1_600,
    'waited_admissions_behind_an_abandoned_waiter': 2_100,
    'retries_after_abandonment': 540,
    'admitted_then_cancelled_in_body': 270,
    'admitted_then_body_raised': 1_100,
    'rate_pairs_checked': 9_500,
    'waiting_intervals_checked': 4_900,
}


def FLOORS(tier):
    k = 1 if tier == 'quick' else 60
    return {
        'evaluations': 4200 * k,
        'distinct': 2600 * k,
        'admissions': 25_000 * k,
        'waited_admissions': 10_000 * k,
        'rate_pairs_checked': 15_000 * k,
        'rate_pairs_at_exact_window': 1500 * k,
        'arrivals_exactly_at_expiry': 300 * k,
        'instants_with_two_or_more_waiters_waking': 500 * k,
        'waiting_intervals_checked': 10_000 * k,
        # phase abandon (entrants that give up while waiting / fail after admission); about half of the minimum over seeds 0..4
        'ab_cases': 1000 * k,
        'ab_cases_with_abandoned_waiter': AB_FLOOR['cases_with_abandoned_waiter'] * k,
        'ab_waiters_abandoned_while_waiting': AB_FLOOR['waiters_abandoned_while_waiting'] * k,
        'ab_waiters_abandoned_by_cancel': AB_FLOOR['waiters_abandoned_by_cancel'] * k,
        'ab_waiters_abandoned_by_timeout': AB_FLOOR['waiters_abandoned_by_timeout'] * k,
        'ab_abandoned_waiting_intervals_checked': AB_FLOOR['waiters_abandoned_while_waiting'] * k,
        'ab_abandoned_exactly_at_expiry': AB_FLOOR['abandoned_exactly_at_expiry'] * k,
        'ab_abandoned_together_with_another_waiter': AB_FLOOR['abandoned_together_with_another_waiter'] * k,
        'ab_waiting_already_when_another_gave_up': AB_FLOOR['waiting_already_when_another_gave_up'] * k,
        'ab_waited_admissions_behind_an_abandoned_waiter': AB_FLOOR['waited_admissions_behind_an_abandoned_waiter'] * k,
        'ab_retries_after_abandonment': AB_FLOOR['retries_after_abandonment'] * k,
        'ab_admitted_then_cancelled_in_body': AB_FLOOR['admitted_then_cancelled_in_body'] * k,
        'ab_admitted_then_body_raised': AB_FLOOR['admitted_then_body_raised'] * k,
        'ab_rate_pairs_checked': AB_FLOOR['rate_pairs_checked'] * k,
        'ab_waiting_intervals_checked': AB_FLOOR['waiting_intervals_checked'] * k,
    }


DELTA = Fraction(2, 1_000_000)
MAX_STEPS = 3000  # correct code needs < 150 loop iterations for the largest case
SPIN_STEPS = 1000
WINDOWS = [0.001, 0.1, 0.25, 0.3, 1 / 3, 0.5, 0.7, 1.0, 1.1, 2.5, 3.0, 60.0]


def gen(rng):
    count = rng.choice([1, 1, 2, 2, 3, 3, 4, 5])
    window = rng.choice(WINDOWS)
    r = rng.random()
    if r < 0.4:
        start = float(rng.randrange(1_600_000_000, 1_900_000_000))
    elif r < 0.5:
        start = 1_700_000_000.0
    else:
        start = rng.uniform(1.6e9, 1.9e9)
    n = rng.randint(2, 24)
    mode = rng.choice(['burst', 'steady', 'aligned', 'grid', 'mixed', 'mixed'])
    spacing = rng.choice([0.5, 1.0, 1.0, 1.5])
    offsets = []
    for i in range(n):
        m = mode if mode != 'mixed' else rng.choice(['burst', 'steady', 'aligned', 'grid'])
        if m == 'aligned' and not offsets:
            m = 'burst'
        if m == 'burst':
            off = rng.choice([0, 0, 0, 1, 2]) * window * rng.choice([1, 1, 0.5])
        elif m == 'steady':
            off = i * (window / count) * spacing
        elif m == 'aligned':
            off = rng.choice(offsets) + rng.randint(1, 3) * window
        else:
            off = rng.randrange(0, 4 * (n // count + 2)) * window / 4
        offsets.append(off)
    return {'count': count, 'window': window, 'start': start, 'offsets': offsets}


SCALE = 2**90  # every float used here (clock values ~1.7e9, windows >= 1e-3, ulps) is an integer multiple of 2**-90


def to_i(x):
    """exact integer representation of a float in units of 2**-90 s"""
    fr = Fraction(x) * SCALE
    if fr.denominator != 1:
        raise ValueError(f'{x!r} is not a multiple of 2**-90')
    return fr.numerator


DELTA_I = int(DELTA * SCALE)


def occupancy(adm_sorted, w, tau):
    """#{t in adm : tau - w < t <= tau}; adm_sorted ascending (exact integers)"""
    return bisect.bisect_right(adm_sorted, tau) - bisect.bisect_right(adm_sorted, tau - w)


def check_history(case, req, adm_by_entry, stats, t_end=None, abandoned=None):
    """returns (key, what, detail) or None.  All arithmetic exact (integers in units of 2**-90 s).

    ``abandoned``: {entry: instant at which it gave up waiting} for entries that were never admitted; they
    are judged over [r, c).  Only real admissions (``adm_by_entry``) occupy the window."""
    abandoned = abandoned or {}
    count = case['count']
    W = to_i(case['window'])
    S = to_i(case['start'])
    entries = sorted(adm_by_entry)
    adm_f = sorted(adm_by_entry[i] for i in entries)
    adm = [to_i(t) for t in adm_f]

    def rel(x):
        return float(Fraction(x - S, SCALE))

    # ---- rate ---------------------------------------------------------------------------
    for i in range(len(adm) - count):
        stats['rate_pairs_checked'] += 1
        diff = adm[i + count] - adm[i]
        if diff == W:
            stats['rate_pairs_at_exact_window'] += 1
        eps = to_i(math.ulp(adm_f[i + count]))
        if diff < W:
            stats['rate_pairs_short_within_tolerance'] += 1
            stats['max_rate_shortfall_in_1000th_ulp'] = max(stats['max_rate_shortfall_in_1000th_ulp'], (W - diff) * 1000 // eps)
        if diff < W - eps:
            return (
                'rate/window-exceeded',
                f'{count + 1} admissions within {float(Fraction(diff, SCALE))!r} s < window {case["window"]!r} (count={count}): admissions #{i}..#{i + count} of the sorted history',
                {'t_i': rel(adm[i]), 't_i_plus_count': rel(adm[i + count]), 'short_by_s': float(Fraction(W - diff, SCALE))},
            )
    # ---- work conservation ------------------------------------------------------------------
    points = sorted(set(adm) | {t + W for t in adm})
    pending = [e for e in sorted(req) if e not in adm_by_entry and e not in abandoned] if t_end is not None else []
    for e in entries + sorted(abandoned) + pending:
        # an entry that was never admitted is judged over [r, instant it gave up) resp. [r, end of observation)
        r, a = to_i(req[e]), to_i(adm_by_entry[e] if e in adm_by_entry else abandoned[e] if e in abandoned else t_end)
        if a <= r:
            continue
        stats['waiting_intervals_checked'] += 1
        if e in abandoned:
            stats['abandoned_waiting_intervals_checked'] += 1
        bps = [r] + points[bisect.bisect_right(points, r):bisect.bisect_left(points, a)] + [a]
        run_start = None
        for p, q in zip(bps, bps[1:]):
            if occupancy(adm, W, p) < count:
                if run_start is None:
                    run_start = p
                if q - run_start > DELTA_I:
                    return (
                        'work-conservation/late-admission',
                        f'entry {e} requested at +{rel(r):.9g} was {"admitted at" if e in adm_by_entry else "not admitted before it gave up at" if e in abandoned else "still not admitted at"} +{rel(a):.9g} although fewer than {count} admissions lay in the '
                        f'window from +{rel(run_start):.9g} on ({float(Fraction(q - run_start, SCALE)):.6g} s of admissible time unused)',
                        {'entry': e, 'admissible_from': rel(run_start), 'admitted_at': rel(a)},
                    )
            else:
                if run_start is not None and p > run_start:
                    stats['late_within_tolerance'] += 1
                    stats['max_lateness_ns'] = max(stats['max_lateness_ns'], (p - run_start) * 10**9 // SCALE)
                run_start = None
        if run_start is not None and a > run_start:
            stats['late_within_tolerance'] += 1
            stats['max_lateness_ns'] = max(stats['max_lateness_ns'], (a - run_start) * 10**9 // SCALE)
    return None


def execute(case, rl_mod, run_virtual, on_quiescent, Deadlock, StepLimit):
    req = {}
    adm = {}
    order = []
    loops = []
    last_jump = [0]
    stats = collections.Counter()

    async def main(loop):
        loop._clock_resolution = math.ulp(loop.time())  # timers fire exactly, never early (see module docstring)
        on_quiescent(loop, lambda: last_jump.__setitem__(0, loop.steps))
        rl_mod.time = loop.time_module()
        limiter = rl_mod.RateLimiter(rl_mod.RateLimit(case['count'], case['window']))

        async def entry(i, off):
            await asyncio.sleep(off)
            req[i] = loop.time()
            async with limiter:
                adm[i] = loop.time()
                order.append(i)

        tasks = [asyncio.ensure_future(entry(i, off)) for i, off in enumerate(case['offsets'])]
        await asyncio.gather(*tasks)

    outcome = 'completed'
    saved = rl_mod.time
    try:
        run_virtual(main, start=case['start'], max_steps=MAX_STEPS, loop_out=loops)
    except Deadlock:
        outcome = 'deadlock'
    except StepLimit:
        outcome = 'steplimit'
    finally:
        rl_mod.time = saved
    # busy-wait = the step budget ran out and the clock has not moved for SPIN_STEPS loop iterations
    spinning = outcome == 'steplimit' and loops[0].steps - last_jump[0] >= SPIN_STEPS
    return req, adm, order, outcome, loops[0].time(), stats, spinning


# ---- phase abandon: entrants that give up while waiting / fail after admission -----------------------------
class BodyError(Exception):
    pass


GIVE_UP_FRACTIONS = [0.1, 0.25, 0.5, 0.75, 1.0, 1.5, 2.5]


def gen_abandon(rng):
    """arrival pattern of gen() + a per-entry plan: when and how it gives up, whether it retries, what its body does"""
    while True:
        case = gen(rng)
        if len(case['offsets']) > case['count']:  # somebody may have to wait
            break
    window, offsets = case['window'], case['offsets']
    p_give = rng.choice([0.2, 0.4, 0.7])
    # a common teardown instant: every chosen entrant still waiting then is cancelled at once
    teardown = rng.choice(offsets) + rng.choice([0.25, 0.5, 1.0, 1.5, 2.0]) * window if rng.random() < 0.35 else None
    plans = []
    for off in offsets:
        plan = {'give_up': None, 'how': None, 'retry': False, 'backoff': 0.0, 'hold': 0.0, 'fail': False}
        if rng.random() < p_give:
            kind = rng.choice(['fraction', 'fraction', 'expiry', 'zero', 'teardown', 'teardown'])
            if kind == 'teardown' and (teardown is None or teardown < off):
                kind = 'fraction'
            if kind == 'fraction':
                dt = rng.choice(GIVE_UP_FRACTIONS) * window
            elif kind == 'expiry':  # gives up at the instant at which some admission may leave the window
                dt = rng.choice(offsets) + rng.randint(1, 3) * window - off
                if dt < 0:
                    dt = rng.choice(GIVE_UP_FRACTIONS) * window
            elif kind == 'zero':
                dt = 0.0
            else:
                dt = teardown - off
            plan['give_up'] = dt
            plan['how'] = 'cancel' if kind == 'teardown' else rng.choice(['cancel', 'timeout'])
            plan['retry'] = rng.random() < 0.4
            plan['backoff'] = rng.choice([0, 0, 0.25, 1]) * window
        if rng.random() < 0.15:
            plan['hold'] = rng.choice([0.1, 0.5, 1.0, 2.0]) * window
        if rng.random() < 0.1:
            plan['fail'] = True
        plans.append(plan)
    case['plans'] = plans
    return case


def execute_abandon(case, rl_mod, run_virtual, on_quiescent, Deadlock, StepLimit):
    """as execute(), entries follow their plan.  Returns additionally gone = {entry: (instant, how)} for every entry in
    which CancelledError surfaced (before or after its admission), raised = {entry: (instant, exception)} for exceptions
    that came out of the limiter, and body_failed = entries whose body raised."""
    req = {}
    adm = {}
    gone = {}
    raised = {}
    body_failed = []
    order = []
    loops = []
    last_jump = [0]
    n = len(case['offsets'])

    async def main(loop):
        loop._clock_resolution = math.ulp(loop.time())
        on_quiescent(loop, lambda: last_jump.__setitem__(0, loop.steps))
        rl_mod.time = loop.time_module()
        limiter = rl_mod.RateLimiter(rl_mod.RateLimit(case['count'], case['window']))

        async def attempt(i, plan, how):
            req[i] = loop.time()
            try:
                async with limiter:
                    adm[i] = loop.time()
                    order.append(i)
                    if plan['hold']:
                        await asyncio.sleep(plan['hold'])
                    if plan['fail']:
                        raise BodyError()
            except asyncio.CancelledError:
                gone[i] = (loop.time(), how)
                raise
            except BodyError:
                body_failed.append(i)
            except Exception as exc:  # the body raises BodyError only: this came out of the limiter itself
                raised[i] = (loop.time(), repr(exc))

        async def entry(i, off, plan):
            await asyncio.sleep(off)
            if plan['give_up'] is None:
                await attempt(i, plan, None)
                return
            if plan['how'] == 'timeout':  # the caller's own timeout around the rate-limited operation
                try:
                    await asyncio.wait_for(attempt(i, plan, 'timeout'), plan['give_up'])
                except asyncio.TimeoutError:
                    pass
            else:  # somebody else cancels the task that is entering
                task = asyncio.ensure_future(attempt(i, plan, 'cancel'))
                done, _ = await asyncio.wait({task}, timeout=plan['give_up'])
                if not done:
                    task.cancel()
                    await asyncio.wait({task})
            if plan['retry'] and i in gone and i not in adm:
                if plan['backoff']:
                    await asyncio.sleep(plan['backoff'])
                await attempt(n + i, {'hold': 0.0, 'fail': False}, None)

        tasks = [asyncio.ensure_future(entry(i, off, plan)) for i, (off, plan) in enumerate(zip(case['offsets'], case['plans']))]
        await asyncio.gather(*tasks)

    outcome = 'completed'
    saved = rl_mod.time
    try:
        run_virtual(main, start=case['start'], max_steps=MAX_STEPS, loop_out=loops)
    except Deadlock:
        outcome = 'deadlock'
    except StepLimit:
        outcome = 'steplimit'
    finally:
        rl_mod.time = saved
    spinning = outcome == 'steplimit' and loops[0].steps - last_jump[0] >= SPIN_STEPS
    return req, adm, gone, raised, body_failed, order, outcome, loops[0].time(), spinning


def run_abandon(ctx, rl_mod, run_virtual, on_quiescent, Deadlock, StepLimit, maxima):
    N = ctx.pick(2_000, 12_500)
    for i, rng in ctx.cases(N, phase='abandon'):
        case = gen_abandon(rng)
        req, adm, gone, raised, body_failed, order, outcome, t_end, spinning = execute_abandon(case, rl_mod, run_virtual, on_quiescent, Deadlock, StepLimit)
        start = case['start']
        W = to_i(case['window'])
        # never admitted: the cancellation surfaced before any admission was recorded
        abandoned = {e: c for e, (c, _) in gone.items() if e not in adm}
        left_waiting = {e: c for e, c in abandoned.items() if c > req[e]}  # gave up after really having waited
        waited = [e for e in adm if adm[e] > req[e]]
        ctx.count('ab_cases')
        ctx.count('ab_outcome_' + outcome)
        ctx.count('ab_admissions', len(adm))
        ctx.count('ab_waited_admissions', len(waited))
        ctx.count('ab_entries_abandoned_before_admission', len(abandoned))
        ctx.count('ab_waiters_abandoned_while_waiting', len(left_waiting))
        for e in left_waiting:
            ctx.count('ab_waiters_abandoned_by_' + gone[e][1])
        ctx.count('ab_retries_after_abandonment', sum(1 for e in req if e >= len(case['offsets'])))
        ctx.count('ab_admitted_then_cancelled_in_body', sum(1 for e in gone if e in adm))
        ctx.count('ab_admitted_then_body_raised', len(body_failed))
        if left_waiting:
            ctx.count('ab_cases_with_abandoned_waiter')
        adm_set = {to_i(t) for t in adm.values()}
        for e, c in left_waiting.items():
            if to_i(c) - W in adm_set:
                ctx.count('ab_abandoned_exactly_at_expiry')
            if sum(1 for g, cg in left_waiting.items() if cg == c) >= 2:
                ctx.count('ab_abandoned_together_with_another_waiter')
        # waiters for whom a leftover of an abandoned waiter would matter: they were (still) waiting when somebody gave
        # up, or started to wait within two windows of it
        behind = [e for e in waited if any(c < adm[e] and req[e] < c + 2 * case['window'] for c in left_waiting.values())]
        ctx.count('ab_waited_admissions_behind_an_abandoned_waiter', len(behind))
        ctx.count('ab_waiting_already_when_another_gave_up', sum(1 for e in waited if any(req[e] <= c < adm[e] for c in left_waiting.values())))
        stats = collections.Counter()
        bad = check_history(case, req, adm, stats, t_end if outcome != 'completed' else None, abandoned=abandoned)
        for k, v in stats.items():
            if k.startswith('max_'):
                maxima[k] = max(maxima[k], v)
            else:
                ctx.count('ab_' + k, v)
        rel = tuple(sorted(round(t - start, 7) for t in adm.values()))
        ctx.case(
            sample={
                'case': case,
                'admission_order': order,
                'admitted_at': [round(adm[e] - start, 7) for e in order],
                'abandoned_at': {e: round(c - start, 7) for e, c in sorted(abandoned.items())},
            },
            key=('abandon', case['count'], repr(case['window']), tuple((e, adm[e] > req[e]) for e in order), rel, tuple(sorted(left_waiting))),
            nontrivial=bool(left_waiting) or bool(waited) or outcome != 'completed',
        )
        extra = {
            'gave_up_rel': {e: [c - start, how] for e, (c, how) in sorted(gone.items())},
            'never_admitted': sorted(abandoned),
            'body_raised': body_failed,
        }
        if raised and not bad:
            e = min(raised)
            extra['limiter_raised'] = {k: [c - start, what] for k, (c, what) in sorted(raised.items())}
            bad = (
                'entry/raised-instead-of-admitting',
                f'entering the limiter raised {raised[e][1]} in entry {e} at +{raised[e][0] - start:.9g} ({"after" if e in adm else "before"} its admission); {len(raised)} entries affected',
                {'entry': e},
            )
        report(ctx, case, req, adm, order, outcome, t_end, spinning, bad, abandoned=abandoned, extra=extra)


def report(ctx, case, req, adm, order, outcome, t_end, spinning, bad, abandoned=None, extra=None):
    """turn the oracle's finding / the run's outcome into a violation (shared by both phases)"""
    start = case['start']
    abandoned = abandoned or {}
    witness = {
        'case': case,
        'outcome': outcome,
        'requests_rel': {e: req[e] - start for e in sorted(req)},
        'admissions_rel': {e: adm[e] - start for e in sorted(adm)},
        'admission_order': order,
    }
    if extra:
        witness.update(extra)
    pending = [e for e in req if e not in adm and e not in abandoned]
    if bad:
        key, what, detail = bad
        witness['detail'] = detail
        ctx.violation(key, what, witness)
    elif outcome == 'deadlock':
        ctx.violation('liveness/deadlock', f'{len(pending)} entries blocked for ever with nothing scheduled', witness)
    elif outcome == 'steplimit':
        occ = occupancy(sorted(to_i(t) for t in adm.values()), to_i(case['window']), to_i(t_end))
        witness['frozen_at_rel'] = t_end - start
        witness['occupancy_at_frozen_instant'] = occ
        witness['clock_frozen'] = spinning
        if spinning and pending and occ < case['count']:
            ctx.violation(
                'work-conservation/spins-without-admitting',
                f'at +{t_end - start:.9g} only {occ} < {case["count"]} admissions lie in the window, entries {pending} keep re-evaluating with a non-positive delay and are never admitted',
                witness,
            )
        else:
            ctx.count('step_budget_exhausted_undecided')
            if ctx.counters['step_budget_exhausted_undecided'] > 3:
                ctx.inconclusive_because(
                    'step budget exhausted without a decidable history (busy-wait at an instant at which admission is not possible, or a very long run)'
                )


def run(ctx):
    import hailtop.utils.rate_limiter as rl_mod

    from vf.sim.quiesce import on_quiescent
    from vf.sim.vloop import Deadlock, StepLimit, run_virtual

    N = ctx.pick(3_000, 18_750)
    maxima = collections.Counter()
    for i, rng in ctx.cases(N):
        case = gen(rng)
        req, adm, order, outcome, t_end, stats, spinning = execute(case, rl_mod, run_virtual, on_quiescent, Deadlock, StepLimit)
        start = case['start']
        waited = [e for e in adm if adm[e] > req[e]]
        ctx.count('admissions', len(adm))
        ctx.count('waited_admissions', len(waited))
        ctx.count('immediate_admissions', len(adm) - len(waited))
        ctx.count('outcome_' + outcome)
        ctx.seen('count', case['count'])
        ctx.seen('window', repr(case['window']))
        # observation counters: arrivals exactly at an expiry instant; instants at which >= 2 waiters were due
        W = to_i(case['window'])
        adm_set = {to_i(t) for t in adm.values()}
        for e, r in req.items():
            if to_i(r) - W in adm_set:
                ctx.count('arrivals_exactly_at_expiry')
        for t in {adm[e] for e in waited}:
            if sum(1 for e in waited if req[e] < t <= adm[e]) >= 2:
                ctx.count('instants_with_two_or_more_waiters_waking')
        bad = check_history(case, req, adm, stats, t_end if outcome != 'completed' else None)
        for k, v in stats.items():
            if k.startswith('max_'):
                maxima[k] = max(maxima[k], v)
            else:
                ctx.count(k, v)
        rel = tuple(sorted(round(t - start, 7) for t in adm.values()))
        ctx.case(
            sample={'case': case, 'admission_order': order, 'admitted_at': [round(adm[e] - start, 7) for e in order]},
            key=(case['count'], repr(case['window']), tuple((e, adm[e] > req[e]) for e in order), rel),
            nontrivial=bool(waited) or outcome != 'completed',
        )
        report(ctx, case, req, adm, order, outcome, t_end, spinning, bad)
    run_abandon(ctx, rl_mod, run_virtual, on_quiescent, Deadlock, StepLimit, maxima)
    for k, v in maxima.items():
        ctx.seen(k, v)  # how close correct code comes to the tolerances (per shard maximum)


# ------------------------------------------------------------------------------------------------
# Breaks tried in a scratch worktree of hail/python/hailtop/utils/rate_limiter.py (VERIF_REPO=/tmp/scratch-async,
# quick tier, seed 0), one at a time; unchanged tree: exit 0 for seeds 0..4 quick and seed 0 thorough.
# Closest approach of correct code to the tolerances (seed 0): rate shortfall 0.4 ulp (bound 0.5, tolerance 1),
# lateness 47 ns (tolerance 2000 ns).
#   B1 (DESIGN) eviction `<` for `<=`                                   -> caught  work-conservation/spins-without-admitting
#      (only observable when `now - window == items[0]` exactly: the limiter then sleeps 0 for ever under a clock
#       that does not move by itself; with a real clock it would busy-wait for one clock tick)
#   B2 (DESIGN) sleep `window` instead of the remaining time             -> caught  work-conservation/late-admission
#   B3 `len(items) <= count` (admits count+1)                            -> caught  rate/window-exceeded
#   B4 no re-check after the sleep (pop oldest, append, return)          -> caught  rate/window-exceeded
#      (needs two entries sleeping towards the same expiry instant)
#   B5 sleep until the *newest* item expires                             -> caught  work-conservation/late-admission
#   B6 eviction bound loosened by 1 microsecond (`now - window + 1e-6`)  -> caught  rate/window-exceeded (short by 7e-7 s)
#   B7 `now = time.time()` hoisted out of the loop (stale clock)         -> caught  work-conservation/late-admission, rate/window-exceeded
#
# Phase abandon (added after seeded change C24-agent4: admission time reserved in the deque *before* the sleep, a waiter
# cancelled while sleeping leaves a phantom admission).  Unchanged tree: exit 0 quick seeds 0..4, thorough seeds 0..2.
# Scratch worktree, quick tier, seed 0, one at a time (all silent in the main phase, caught in phase abandon only):
#   C24-agent4 reserve-before-sleep, nothing undone on cancel              -> caught  work-conservation/late-admission
#   A1 on CancelledError in the sleep: rotate the head to the back        -> caught  work-conservation/late-admission
#   A2 reserve-before-sleep with `items.remove(own)` on cancel            -> caught  rate/window-exceeded, work-conservation/late-admission,
#      (followers keep their later slots; remove() of an evicted value)               entry/raised-instead-of-admitting
#   A3 `__aexit__` pops the newest admission when the body failed         -> caught  rate/window-exceeded
#   A4 on CancelledError in the sleep: `items.clear()`                    -> caught  rate/window-exceeded
#   A5 a waiter counter that a cancelled waiter never decrements          -> caught  work-conservation/late-admission (already by the main phase:
#      the break also delays uncancelled waiters)
