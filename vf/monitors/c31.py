"""C31 Hail type strings round-trip.

Real code: HailType.__str__ / _parsable_string / dtype (type_grammar + TypeConstructor on the parsimonious shim),
escape_parsable / unescape_parsable (hail.utils.java), escape_id (hail.utils.misc).

Oracle A (Python half, decided on real executions): dtype(str(t)) == t for every generated type, and
unescape_parsable inverts escape_parsable on every generated identifier.

Oracle B (engine half, model-based): a Python transcription of the engine's IRLexer (Parser.scala) tokenises
t._parsable_string() and everything escape_parsable / escape_id emit; the token stream is read by a transcription of
IRParser.type_expr and must denote the same constructor tree and the same *names* after the lexer's own unescaping.
Where the Scala/Java behaviour cannot be decided from the sources (Unicode-version dependent character classes,
exotic Integer.parseInt inputs, type names type_expr does not list) the case is counted as not judged -- never guessed.

Workload: random nested types (depth <= 4) over a hostile identifier pool (ASCII identifiers, keywords, empty string,
spaces/controls, backticks, backslashes, quotes, punctuation, Latin-1, number-other, BMP, astral, combining marks,
digits-first, lone surrogates, random code points), reference-genome names from the same pool (real ReferenceGenome
objects on a backend-free registry), plus an enumeration of single code points (exhaustive in the thorough tier).
"""
import re
import unicodedata

PID = 'C31'
LEVEL = 'exploration'
RULE = (
    'phase types: seeded random nested Hail types (depth <= 4, every constructor incl. locus over hostile reference-genome names, '
    'ndarray, stream, void, rng_state) whose struct field names are drawn from 16 hostile categories + random code points; '
    'distinct by printed form, non-trivial when the type has at least one struct field or locus name. '
    'phase names: seeded single identifiers through escape_parsable / unescape_parsable / escape_id; distinct by name. '
    "phase codepoints: identifiers 'a'+chr(c) and chr(c) for code points c (quick: every c < 0x3000 plus a stride over the rest; "
    'thorough: every code point 0..0x10FFFF, sharded); distinct by code point.'
)
ASSUMPTIONS = [
    'engine half rests on the transcription (in this file) of IRLexer.token/quotedLiteral (Parser.scala:57-130), '
    'StringEscapeUtils.unescapeString (StringEscapeUtils.scala:135-190) and IRParser.type_expr/repsepUntil (Parser.scala:289-303, 468-544)',
    'JavaTokenParsers.ident = rep1(Character.isJavaIdentifierStart, Character.isJavaIdentifierPart) on UTF-16 code units (scala-parser-combinators; '
    'not in the repository), with java.lang.Character classes derived from Unicode general categories; a character whose category differs between '
    'Unicode 3.2 and the running Python UCD is not judged (JVM Unicode version unknown)',
    'dtype runs on the parsimonious shim (vf/shims/pkgs/parsimonious)',
    'reference genomes: real ReferenceGenome objects registered in a backend-free stand-in for Env._hc (vf/gen_hail_types.py)',
]
TRUSTED_BASE = ['vf/monitors/c31.py: IRLexer/unescapeString/type_expr transcription', 'vf/shims/pkgs/parsimonious', 'vf/gen_hail_types.py']
SHARDS = {'quick': 1, 'thorough': 16}
TIMEOUT = {'quick': 900, 'thorough': 1800}
FLOORS = {
    'roundtrip_checked': 2000, 'engine_types_judged': 1500, 'engine_identifiers_judged': 20000, 'escaped_identifiers': 5000,
    'bare_identifiers': 1000, 'name_category': 17,
}


# =================================================================================================
# Engine model (trusted base).  Works on UTF-16 code units: a Python str whose characters are all < 0x10000,
# astral characters being represented by their two surrogate code units, exactly like a java.lang.String.
# =================================================================================================
class LexFailure(Exception):
    def __init__(self, reason, pos, ch=None):
        super().__init__(reason)
        self.reason, self.pos, self.ch = reason, pos, ch


class NotJudged(Exception):
    pass


def to_utf16(s):
    out = []
    for ch in s:
        o = ord(ch)
        if o >= 0x10000:
            o -= 0x10000
            out.append(chr(0xD800 + (o >> 10)))
            out.append(chr(0xDC00 + (o & 0x3FF)))
        else:
            out.append(ch)
    return ''.join(out)


def from_utf16(u):
    """java String -> Python str (surrogate pairs combined, lone surrogates kept)"""
    return u.encode('utf-16-le', 'surrogatepass').decode('utf-16-le', 'surrogatepass')


_ucd32 = unicodedata.ucd_3_2_0
_START_CATS = {'Lu', 'Ll', 'Lt', 'Lm', 'Lo', 'Nl', 'Sc', 'Pc'}  # Character.isJavaIdentifierStart (javadoc)
_PART_EXTRA = {'Nd', 'Mn', 'Mc', 'Cf'}  # + digit, combining mark, non-spacing mark, isIdentifierIgnorable(FORMAT)
_cls_cache = {}


def java_ident_class(unit):
    """-> (is_start, is_part) for one UTF-16 code unit; raises NotJudged when it depends on the JVM's Unicode version."""
    r = _cls_cache.get(unit)
    if r is None:
        o = ord(unit)
        if 0xD800 <= o <= 0xDFFF:
            r = (False, False)  # Character.getType(char) == SURROGATE: neither start nor part
        elif o < 0x80:
            cat = unicodedata.category(unit)
            ign = o <= 8 or 0x0E <= o <= 0x1B or o == 0x7F  # isIdentifierIgnorable
            r = (cat in _START_CATS, cat in _START_CATS or cat in _PART_EXTRA or ign)
        else:
            cat = unicodedata.category(unit)
            if cat == 'Cn' or _ucd32.category(unit) != cat:
                r = 'unknown'
            else:
                ign = 0x7F <= o <= 0x9F
                r = (cat in _START_CATS, cat in _START_CATS or cat in _PART_EXTRA or ign)
        _cls_cache[unit] = r
    if r == 'unknown':
        raise NotJudged(f'Unicode-version dependent character U+{ord(unit):04X}')
    return r


_WS = ' \t\n\x0b\x0c\r'  # RegexParsers.whiteSpace = """\s+""".r ; java.util.regex \s (no UNICODE_CHARACTER_CLASS)
_ESCAPE_CHARS = set('\\bfnrtu\'"`')  # Parser.scala:83
_PUNCT = set('()[]{}<>,:+@=')  # Parser.scala:63
_FLOAT_RES = [re.compile(r'-inf'), re.compile(r'[+-]?[0-9]+(\.[0-9]+)?[eE][+-]?[0-9]+'), re.compile(r'[+-]?[0-9]*\.[0-9]+')]  # Parser.scala:120-123
_INT_RE = re.compile(r'-?[0-9]+')  # JavaTokenParsers.wholeNumber = """-?\d+"""


def unescape_string(s):
    """StringEscapeUtils.unescapeString (StringEscapeUtils.scala:135-190)."""
    sb = []
    had_slash = False
    in_unicode = False
    uni = ''
    for ch in s:
        if in_unicode:
            uni += ch
            if len(uni) == 4:
                if not all(c in '0123456789abcdefABCDEF' for c in uni):
                    # Integer.parseInt(_, 16) also accepts signs / non-ASCII digits or throws -> fatal; never emitted by the front end
                    raise NotJudged('non-hex \\u escape')
                sb.append(chr(int(uni, 16)))
                uni = ''
                in_unicode = False
                had_slash = False
        elif had_slash:
            had_slash = False
            if ch in '\\\'"`':
                sb.append(ch)
            elif ch == 'r':
                sb.append('\r')
            elif ch == 'f':
                sb.append('\f')
            elif ch == 't':
                sb.append('\t')
            elif ch == 'n':
                sb.append('\n')
            elif ch == 'b':
                sb.append('\b')
            elif ch == 'u':
                in_unicode = True
            else:
                raise LexFailure('invalid string escape character', 0, ch)  # fatal(...) line 176
        elif ch == '\\':
            had_slash = True
        else:
            sb.append(ch)
    if had_slash:
        sb.append('\\')
    return ''.join(sb)


def _skip_ws(u, p):
    n = len(u)
    while p < n and u[p] in _WS:
        p += 1
    return p


def _quoted(u, p, delim):
    """IRLexer.quotedLiteral (Parser.scala:67-107); `p` is at the opening delimiter."""
    n = len(u)
    p += 1
    sb = []
    while True:
        if p >= n:
            raise LexFailure('unterminated literal', p)
        c = u[p]
        p += 1
        if c == delim:
            break
        sb.append(c)
        if c == '\\':
            if p >= n:
                raise LexFailure('unterminated literal', p)
            d = u[p]
            if d not in _ESCAPE_CHARS:
                raise LexFailure('invalid escape character', p, d)
            sb.append(d)
            p += 1
    return unescape_string(''.join(sb)), p


def irlexer(text):
    """IRLexer.parse (Parser.scala:58-65,125-129): list of (kind, value); raises LexFailure / NotJudged."""
    u = to_utf16(text)
    n = len(u)
    p = 0
    toks = []
    while True:
        p = _skip_ws(u, p)
        if p >= n:
            return toks
        c = u[p]
        if c == '`':  # identifier = backtickLiteral | ident   (no other alternative can start with a backtick)
            v, p = _quoted(u, p, '`')
            toks.append(('id', from_utf16(v)))
            continue
        if java_ident_class(c)[0]:
            q = p + 1
            while q < n and java_ident_class(u[q])[1]:
                q += 1
            toks.append(('id', from_utf16(u[p:q])))
            p = q
            continue
        m = None
        for r in _FLOAT_RES:
            m = r.match(u, p)
            if m:
                break
        if m:
            toks.append(('float', m.group()))
            p = m.end()
            continue
        m = _INT_RE.match(u, p)
        if m:
            toks.append(('int', int(m.group())))
            p = m.end()
            continue
        if c in '"\'':
            v, p = _quoted(u, p, c)
            toks.append(('str', from_utf16(v)))
            continue
        if c in _PUNCT:
            toks.append(('punct', c))
            p += 1
            continue
        raise LexFailure('no token', p, c)


class ParseFailure(Exception):
    pass


def engine_type_expr(toks):
    """IRParser.type_expr (Parser.scala:468-544) on the token list -> neutral tree."""
    pos = [0]

    def head():
        return toks[pos[0]] if pos[0] < len(toks) else None

    def consume():
        if pos[0] >= len(toks):
            raise ParseFailure('no more tokens')
        t = toks[pos[0]]
        pos[0] += 1
        return t

    def punct(sym):
        t = consume()
        if t != ('punct', sym):
            raise ParseFailure(f'expected {sym!r} found {t!r}')

    def ident():
        t = consume()
        if t[0] != 'id':
            raise ParseFailure(f'expected identifier found {t!r}')
        return t[1]

    def int32():
        t = consume()
        if t[0] != 'int' or not -(2**31) <= t[1] < 2**31:
            raise ParseFailure(f'expected int32 found {t!r}')
        return t[1]

    def repsep_until(f, sep, end):  # Parser.scala:289-303
        xs = []
        while head() is not None and head() != ('punct', end):
            xs.append(f())
            if head() == ('punct', sep):
                consume()
        return xs

    def field():  # struct_field, Parser.scala:367-374 (decorators are never emitted by the front end)
        name = ident()
        punct(':')
        return (name, typ())

    def typ():
        if head() == ('punct', '+'):
            consume()
        k = ident()
        if k in ('Boolean', 'Int32', 'Int64', 'Float32', 'Float64', 'String', 'Call', 'Void'):
            return (k,)
        if k == 'Int':
            return ('Int32',)
        if k in ('Interval', 'Stream', 'Array', 'Set'):
            punct('[')
            e = typ()
            punct(']')
            return (k, e)
        if k == 'Locus':
            punct('(')
            rg = ident()
            punct(')')
            return ('Locus', rg)
        if k == 'NDArray':
            punct('[')
            e = typ()
            punct(',')
            nd = int32()
            punct(']')
            return ('NDArray', e, nd)
        if k == 'Dict':
            punct('[')
            kt = typ()
            punct(',')
            vt = typ()
            punct(']')
            return ('Dict', kt, vt)
        if k == 'Tuple':
            punct('[')
            ts = repsep_until(typ, ',', ']')
            punct(']')
            return ('Tuple',) + tuple(ts)
        if k == 'Struct':
            punct('{')
            fs = repsep_until(field, ',', '}')
            punct('}')
            return ('Struct',) + tuple(fs)
        raise NotJudged(f'type_expr has no case for {k!r}')  # scala.MatchError in the engine parser; the property speaks about the lexer

    t = typ()
    if pos[0] != len(toks):
        raise ParseFailure('trailing tokens')
    return t


def neutral_tree(t):
    """What the engine should understand for the Python type `t`."""
    import hail.expr.types as T

    simple = {T._tbool: 'Boolean', T._tint32: 'Int32', T._tint64: 'Int64', T._tfloat32: 'Float32', T._tfloat64: 'Float64', T._tstr: 'String',
              T._tcall: 'Call', T._tvoid: 'Void'}
    if type(t) in simple:
        return (simple[type(t)],)
    if isinstance(t, T._trngstate):
        raise NotJudged('rng_state')
    if isinstance(t, T.tinterval):
        return ('Interval', neutral_tree(t.point_type))
    if isinstance(t, T.tstream):
        return ('Stream', neutral_tree(t.element_type))
    if isinstance(t, T.tarray):
        return ('Array', neutral_tree(t.element_type))
    if isinstance(t, T.tset):
        return ('Set', neutral_tree(t.element_type))
    if isinstance(t, T.tlocus):
        return ('Locus', t.reference_genome.name)
    if isinstance(t, T.tndarray):
        return ('NDArray', neutral_tree(t.element_type), t.ndim)
    if isinstance(t, T.tdict):
        return ('Dict', neutral_tree(t.key_type), neutral_tree(t.value_type))
    if isinstance(t, T.ttuple):
        return ('Tuple',) + tuple(neutral_tree(x) for x in t.types)
    if isinstance(t, T.tstruct):
        return ('Struct',) + tuple((f, neutral_tree(x)) for f, x in t.items())
    raise NotJudged(f'no neutral tree for {t}')


# =================================================================================================
# classifiers
# =================================================================================================
def _char_kind(units_text, pos):
    """describe the code unit at `pos` of the UTF-16 form for a mechanism key"""
    u = to_utf16(units_text)
    if pos >= len(u):
        return 'end'
    c = u[pos]
    o = ord(c)
    if 0xD800 <= o <= 0xDFFF:
        return 'astral'
    cat = unicodedata.category(c)
    return {'No': 'number-other'}.get(cat, 'category-' + cat)


def classify_lex_failure(emitter, text, e):
    """emitter: 'parsable' (escape_parsable / _parsable_string) or 'escape_id'."""
    pre = 'engine-lexer/' if emitter == 'parsable' else 'engine-lexer/escape_id-'
    if e.reason == 'invalid escape character':
        if e.ch in ('x', 'U', 'N', 'a', 'v', '0'):
            return f'{pre}{e.ch}-escape-rejected'
        return pre + 'invalid-escape-rejected'
    if e.reason == 'no token':
        kind = _char_kind(text, e.pos)
        if kind in ('astral', 'number-other'):
            return f'{pre}bare-identifier-{kind}'
        return pre + 'bare-identifier-rejected'
    return pre + 'rejected'


def first_name_difference(want, got):
    """first (expected_name, engine_name) that differs between two neutral trees, or None if the shapes differ elsewhere"""
    if want == got:
        return None
    if not isinstance(want, tuple) or not isinstance(got, tuple) or len(want) != len(got) or want[0] != got[0]:
        return ('<shape>', '<shape>')
    if want[0] == 'Locus':
        return (want[1], got[1])
    if want[0] == 'Struct':
        for (wn, wt), (gn, gt) in zip(want[1:], got[1:]):
            if wn != gn:
                return (wn, gn)
            d = first_name_difference(wt, gt)
            if d:
                return d
        return None
    for w, g in zip(want[1:], got[1:]):
        if isinstance(w, tuple):
            d = first_name_difference(w, g)
            if d:
                return d
        elif w != g:
            return ('<shape>', '<shape>')
    return None


def classify_name_difference(emitter, name, got):
    pre = 'engine-lexer/' if emitter == 'parsable' else 'engine-lexer/escape_id-'
    if name == '<shape>':
        return pre + 'structure-differs'
    if any(ord(c) >= 0x10000 for c in name):
        return pre + 'astral-misdecoded'
    return pre + 'name-differs'


# =================================================================================================
def run(ctx):
    import hail as hl
    from hail.utils.java import escape_parsable, unescape_parsable
    from hail.utils.misc import escape_id

    from vf import gen_hail_types as G

    G.install_reference_backend()

    def A(s):
        return ascii(s)[1:-1]

    # ---- Oracle B on one emitted identifier --------------------------------------------------------------
    def engine_identifier(emitter, name, emitted, witness):
        try:
            toks = irlexer(emitted)
        except NotJudged as e:
            ctx.count('engine_not_judged')
            ctx.seen('not_judged_reason', str(e).split(' U+')[0])
            return
        except LexFailure as e:
            ctx.count('engine_identifiers_judged')
            ctx.violation(classify_lex_failure(emitter, emitted, e),
                          f'{emitter} emits {A(emitted)} for the name {A(name)}; IRLexer: {e.reason} at offset {e.pos} ({A(e.ch or "")})', witness)
            return
        ctx.count('engine_identifiers_judged')
        if toks != [('id', name)]:
            key = classify_name_difference(emitter, name, toks) if len(toks) == 1 and toks[0][0] == 'id' else (
                ('engine-lexer/' if emitter == 'parsable' else 'engine-lexer/escape_id-') + 'not-one-identifier')
            ctx.violation(key, f'{emitter} emits {A(emitted)} for the name {A(name)}; IRLexer reads {A(repr(toks))}', dict(witness, tokens=toks))

    def check_name(name, cat, parse_too):
        if from_utf16(to_utf16(name)) != name:
            # a high surrogate directly followed by a low surrogate: not a distinct string for a JVM (it *is* the astral
            # character); outside the property's domain of names
            ctx.count('skipped_adjacent_lone_surrogates')
            return
        ctx.seen('name_category', cat.split('+')[0])
        w = {'name': name, 'name_ascii': A(name), 'category': cat}
        try:
            ep = escape_parsable(name)
        except Exception as e:
            ctx.violation('roundtrip/escape-raises', f'escape_parsable({A(name)}) raised {e!r}', w)
            return
        w['escape_parsable'] = ep
        bare = not ep.startswith('`')
        ctx.count('bare_identifiers' if bare else 'escaped_identifiers')
        # Oracle A at identifier level
        if not bare:
            try:
                back = unescape_parsable(ep[1:-1])
                if back != name:
                    ctx.violation('roundtrip/identifier-unescape-differs', f'unescape_parsable(escape_parsable({A(name)})) = {A(back)}', dict(w, back=back))
            except Exception as e:
                ctx.violation('roundtrip/identifier-unescape-raises', f'unescape_parsable({A(ep)}) raised {e!r}', w)
        if parse_too:
            t = hl.tstruct(**{name: hl.tint32})
            roundtrip(t, w)
        engine_identifier('parsable', name, ep, w)
        try:
            ei = escape_id(name)
        except Exception as e:
            ctx.violation('engine-lexer/escape_id-raises', f'escape_id({A(name)}) raised {e!r}', w)
            return
        engine_identifier('escape_id', name, ei, dict(w, escape_id=ei))

    # ---- Oracle A on a type ------------------------------------------------------------------------------
    def roundtrip(t, w):
        ctx.count('roundtrip_checked')
        try:
            s = str(t)
        except Exception as e:
            ctx.violation('roundtrip/str-raises', f'str(type) raised {e!r}', w)
            return None
        try:
            t2 = hl.dtype(s)
        except Exception as e:
            ctx.violation('roundtrip/parse-error', f'dtype({A(s)}) raised {type(e).__name__}: {A(str(e))[:200]}', dict(w, printed=s))
            return s
        if not (t2 == t) or not (t == t2):
            ctx.violation('roundtrip/not-equal', f'dtype(str(t)) != t: printed {A(s)} re-printed {A(str(t2))}', dict(w, printed=s, reparsed=str(t2)))
        elif str(t2) != s:
            ctx.violation('roundtrip/print-unstable', f'equal types print differently: {A(s)} vs {A(str(t2))}', dict(w, printed=s, reparsed=str(t2)))
        return s

    def engine_type(t, w):
        try:
            ps = t._parsable_string()
        except Exception as e:
            ctx.violation('engine-lexer/parsable-string-raises', f'_parsable_string raised {e!r}', w)
            return
        try:
            want = neutral_tree(t)
            toks = irlexer(ps)
            got = engine_type_expr(toks)
        except NotJudged as e:
            ctx.count('engine_not_judged')
            ctx.seen('not_judged_reason', str(e).split(' U+')[0])
            return
        except LexFailure as e:
            ctx.count('engine_types_judged')
            ctx.violation(classify_lex_failure('parsable', ps, e),
                          f'IRLexer rejects _parsable_string() {A(ps)[:300]}: {e.reason} at offset {e.pos} ({A(e.ch or "")})', dict(w, parsable=ps))
            return
        except ParseFailure as e:
            ctx.count('engine_types_judged')
            ctx.violation('engine-lexer/structure-differs', f'type_expr cannot read the tokens of {A(ps)[:300]}: {e}', dict(w, parsable=ps))
            return
        ctx.count('engine_types_judged')
        if got != want:
            d = first_name_difference(want, got) or ('<shape>', '<shape>')
            ctx.violation(classify_name_difference('parsable', d[0], d[1]),
                          f'engine reads a different type from {A(ps)[:300]}: name {A(d[0])} read as {A(d[1])}', dict(w, parsable=ps, want=want, got=got))

    # ---- phase types --------------------------------------------------------------------------------------
    N = ctx.pick(6_000, 25_000)
    stats = {}
    for i, rng in ctx.cases(N, 'types'):
        t = G.gen_type(rng, depth=rng.choice([1, 2, 3, 4, 4]), mode='any', stats=stats)
        w = {'type_repr_ascii': A(str(t))[:2000], 'depth': G.type_depth(t)}
        s = roundtrip(t, w)
        engine_type(t, w)
        ctx.seen('depth', G.type_depth(t))
        ctx.case(sample={'printed': A(s or '')[:300]}, key=s, nontrivial=('{' in (s or '') and '{}' != (s or '')[-2:]) or 'locus<' in (s or ''))
    for k, v in stats.items():
        if k.startswith('name:'):
            ctx.seen('name_category', k[5:].split('+')[0])
        else:
            ctx.count('constructor[' + k + ']', v)

    # ---- phase names --------------------------------------------------------------------------------------
    N = ctx.pick(12_000, 40_000)
    for i, rng in ctx.cases(N, 'names'):
        name, cat = G.gen_name(rng)
        check_name(name, cat, parse_too=(i % 4 == 0))
        ctx.case(sample={'name': A(name)}, key=('name', name), nontrivial=name != '')

    # ---- phase codepoints ----------------------------------------------------------------------------------
    if ctx.replay is None or ctx.replay.get('phase') == 'codepoints':
        if ctx.replay is not None:
            cps = [ctx.replay['case_index']]
        elif ctx.quick:
            cps = list(range(0, 0x3000)) + list(range(0x3000, 0x110000, 97))
        else:
            cps = range(0, 0x110000)
        n = 0
        for c in cps:
            n += 1
            if ctx.replay is None and n % ctx.n_shards != ctx.shard:
                continue
            ch = chr(c)
            ctx.case_index = ('codepoints', c)
            for name in ('a' + ch, ch):
                w_before = len(ctx.violations)
                check_name(name, 'codepoint', parse_too=(c % 64 == 0))
                for v in ctx.violations[w_before:]:
                    if isinstance(v['witness'], dict):
                        v['witness']['codepoint'] = c
            ctx.case(key=('cp', c), nontrivial=True)
            ctx.count('codepoints_enumerated')
        ctx.case_index = None
    ctx.exhaustive = False


# -------------------------------------------------------------------------------------------------
# Validation record (scratch worktree of /repo HEAD, VERIF_REPO=<scratch>, quick tier, seed 0).
#
# Unchanged tree: Oracle A silent; Oracle B reports 7 mechanism keys, all genuine (see proposed_fixes/C31-engine-lexer-escapes.diff):
#   engine-lexer/x-escape-rejected                       escape_parsable('\xe9') = `\xe9`            escape set of IRLexer.quotedLiteral has no 'x'
#   engine-lexer/U-escape-rejected                       escape_parsable('\U0001f600') = `\U0001f600` ... and no 'U'
#   engine-lexer/bare-identifier-number-other            escape_parsable('a\xb2') = a\xb2 (bare)      Python \w accepts category No, isJavaIdentifierPart does not
#   engine-lexer/bare-identifier-astral                  escape_parsable('a\U0001d41a') bare          UTF-16 surrogates are never Java identifier parts
#   engine-lexer/escape_id-bare-identifier-number-other  escape_id('a\xb2') bare
#   engine-lexer/escape_id-bare-identifier-astral        escape_id('a\U0001d41a') bare
#   engine-lexer/escape_id-astral-misdecoded             escape_id('\U0001f600') = `\u1F600` -> engine reads U+1F60 followed by '0'
# With the proposed fix applied: exit 0, seeds 0..4, both tiers.
#
# Breaks tried on top of the fixed tree, one at a time (all exit 1 in the quick tier):
#   B1 unescape_parsable no longer un-escapes \`                          caught  roundtrip/not-equal
#   B2 escape_parsable lets digits-first names go bare ([_a-zA-Z0-9]\w*)  caught  engine-lexer/structure-differs (lexer reads an integer token)
#   S3 visit_escaped_identifier uses node.text.strip('`') instead of [1:-1] (only names starting/ending with a backtick)
#                                                                          caught  roundtrip/parse-error
#   S4 escape_parsable spells U+000B as \v (Python reads it back; engine escape set lacks v; only vertical tab)
#                                                                          caught  engine-lexer/v-escape-rejected
# No false alarm was found in the parsimonious shim; names with a high surrogate directly followed by a low surrogate are excluded
# from the domain (a JVM cannot tell them from the astral character).
