"""C27 Database transactions retry only transient errors, atomically.   (fault_enumeration)

Real code: gear/gear/database.py entirely (retry_transient_mysql_errors, transaction, Transaction,
Database.*) on the aiomysql shim over minimysql.
Fault catalogue x sites: MySQL errors injected at connect, START TRANSACTION, every statement of a
generated multi-statement body, and COMMIT, before or after the statement took effect, with the
server-side effect MySQL has (1213 / 2013 roll the whole transaction back, 1205 only the statement).
Oracle: retryable fault => the operation is re-run and finally returns with tables equal to the
fault-free twin and attempts = 1 + #faults; non-retryable => the same exception reaches the caller
after exactly one attempt and tables equal the initial dump; never a strict subset of the body's
writes; afterwards no pool connection is checked out and no transaction holds the write lock.
"""
import asyncio
import itertools
import logging
import random

import pymysql

from vf.harness import Inconclusive
from vf.sim.vloop import Deadlock, StepLimit, run_virtual

PID = 'C27'
LEVEL = 'fault_enumeration'
RULE = ('fault catalogue (5 retryable + 9 non-retryable MySQL/driver errors + task cancellation) x injection site (connect, START TRANSACTION, statement k, COMMIT) '
        'x timing (before / after the effect) x 12 transaction bodies (1-5 statements over 2 tables) x 6 API forms of gear.Database; all single faults are '
        'enumerated, pairs of faults are enumerated in the thorough tier (sampled in quick). Distinct by (api, body, faults); every case is non-trivial.')
ASSUMPTIONS = [
    'minimysql + aiomysql/pymysql shims stand where MySQL and the drivers are; error classes follow PyMySQL 1.x error mapping',
    'server-side effect of an injected error is modelled per the MySQL manual: 1213 and lost connection roll the transaction back, 1205 rolls back the statement only, 1040/2003 fail at connect',
    'a lost response to COMMIT *after* the commit took effect is recorded as informational (the retry then applies the body twice; the property speaks about partial writes)',
]
SHARDS = {'quick': 2, 'thorough': 16}
TIMEOUT = {'quick': 900, 'thorough': 3600}
FLOORS = {'retryable_faults_retried': 200, 'nonretryable_faults_propagated': 200, 'sites_hit': 4, 'rollbacks_observed': 100}

OE, IE, IntE, PE, DE = pymysql.err.OperationalError, pymysql.err.InternalError, pymysql.err.IntegrityError, pymysql.err.ProgrammingError, pymysql.err.DataError

RETRYABLE = [
    ('OperationalError-1213', lambda: OE(1213, 'Deadlock found when trying to get lock; try restarting transaction'), 'txn'),
    ('OperationalError-2013', lambda: OE(2013, 'Lost connection to MySQL server during query'), 'txn'),
    ('InternalError-1205', lambda: IE(1205, 'Lock wait timeout exceeded; try restarting transaction'), 'stmt'),
    ('OperationalError-1040', lambda: OE(1040, 'Too many connections'), 'connect'),
    ('OperationalError-2003', lambda: OE(2003, "Can't connect to MySQL server"), 'connect'),
]
NON_RETRYABLE = [
    ('IntegrityError-1062', lambda: IntE(1062, "Duplicate entry '1' for key 't.PRIMARY'"), 'stmt'),
    ('IntegrityError-1048', lambda: IntE(1048, "Column 'v' cannot be null"), 'stmt'),
    ('IntegrityError-1452', lambda: IntE(1452, 'Cannot add or update a child row'), 'stmt'),
    ('OperationalError-1644', lambda: OE(1644, 'job group has already been cancelled'), 'stmt'),
    ('OperationalError-1054', lambda: OE(1054, "Unknown column 'x'"), 'stmt'),
    ('OperationalError-1317', lambda: OE(1317, 'Query execution was interrupted'), 'stmt'),
    ('ProgrammingError-1064', lambda: PE(1064, 'You have an error in your SQL syntax'), 'stmt'),
    ('DataError-1406', lambda: DE(1406, "Data too long for column 'v'"), 'stmt'),
    ('InternalError-1030', lambda: IE(1030, 'Got error 28 from storage engine'), 'stmt'),
    ('RuntimeError', lambda: RuntimeError('boom'), 'stmt'),
    ('CancelledError', lambda: asyncio.CancelledError(), 'stmt'),
]

BODIES = [
    [("INSERT INTO vt1 (k, v) VALUES (%s, %s)", (10, 1))],
    [("UPDATE vt1 SET v = v + 1 WHERE k = %s", (1,))],
    [("INSERT INTO vt1 (k, v) VALUES (%s, %s)", (10, 1)), ("INSERT INTO vt2 (k, v) VALUES (%s, %s)", (10, 7))],
    [("UPDATE vt1 SET v = v + 1 WHERE k = %s", (1,)), ("UPDATE vt2 SET v = v - 1 WHERE k = %s", (1,))],
    [("INSERT INTO vt1 (k, v) VALUES (%s, %s)", (11, 5)), ("UPDATE vt1 SET v = v * 2 WHERE k = %s", (11,)), ("DELETE FROM vt2 WHERE k = %s", (2,))],
    [("DELETE FROM vt1 WHERE k = %s", (1,)), ("INSERT INTO vt1 (k, v) VALUES (%s, %s)", (1, 99))],
    [("SELECT v FROM vt1 WHERE k = %s FOR UPDATE", (1,)), ("UPDATE vt1 SET v = v + 10 WHERE k = %s", (1,)), ("INSERT INTO vt2 (k, v) VALUES (%s, %s)", (12, 0))],
    [("INSERT INTO vt2 (k, v) VALUES (%s, %s) ON DUPLICATE KEY UPDATE v = v + 1", (1, 0)), ("UPDATE vt1 SET v = v + 1 WHERE k = %s", (2,))],
    [("UPDATE vt1 SET v = v + 1 WHERE k = %s", (1,)), ("UPDATE vt1 SET v = v + 1 WHERE k = %s", (2,)), ("UPDATE vt2 SET v = v + 1 WHERE k = %s", (1,)),
     ("UPDATE vt2 SET v = v + 1 WHERE k = %s", (2,)), ("INSERT INTO vt1 (k, v) VALUES (%s, %s)", (13, 13))],
    [("INSERT INTO vt1 (k, v) VALUES (%s, %s)", (14, 1)), ("INSERT INTO vt1 (k, v) VALUES (%s, %s)", (15, 1)), ("DELETE FROM vt1 WHERE k = %s", (14,))],
    [("UPDATE vt1 SET v = 0", ()), ("UPDATE vt2 SET v = 0", ())],
    [("DELETE FROM vt2", ()), ("INSERT INTO vt2 (k, v) VALUES (%s, %s)", (1, 1)), ("INSERT INTO vt2 (k, v) VALUES (%s, %s)", (2, 2))],
]
APIS = ['transaction-decorator', 'start-context', 'execute_update', 'just_execute', 'execute_many', 'execute_and_fetchone']


def make_engine():
    from vf.minimysql.engine import Database as Engine
    from vf.minimysql.schema import parse_create_table

    eng = Engine(seed=0)
    for n in ('vt1', 'vt2'):
        parse_create_table(f'CREATE TABLE {n} (k INT NOT NULL, v INT NOT NULL, PRIMARY KEY (k))', eng.tables)
    return eng


def seed_tables(eng):
    eng.reset()
    c = eng.connect()
    for n in ('vt1', 'vt2'):
        for k in (1, 2, 3):
            c.execute(f'INSERT INTO {n} (k, v) VALUES (%s, %s)', (k, k * 10))


def dump(eng):
    return {n: sorted((r['k'], r['v']) for r in eng.tables[n].rows) for n in ('vt1', 'vt2')}


def run(ctx):
    logging.disable(logging.CRITICAL)
    import aiomysql

    eng = make_engine()
    aiomysql.ENGINE = eng
    faults_all = [(n, f, scope, True) for n, f, scope in RETRYABLE] + [(n, f, scope, False) for n, f, scope in NON_RETRYABLE]
    cases = []
    for api in APIS:
        bodies = BODIES if api in ('transaction-decorator', 'start-context') else [b for b in BODIES if len(b) == 1]
        if api == 'execute_many':
            bodies = [[("INSERT INTO vt1 (k, v) VALUES (%s, %s)", [(20, 1), (21, 2), (22, 3)])]]
        for bi, body in enumerate(bodies):
            n_stmt = len(body)
            sites = ['connect', 'start'] + [f'stmt{k}' for k in range(n_stmt)] + ['commit']
            for (fname, mk, scope, retry), site, when in itertools.product(faults_all, sites, ('before', 'after')):
                if scope == 'connect' and site != 'connect':
                    continue
                if site == 'connect' and (when == 'after' or scope == 'stmt' and fname not in ('RuntimeError', 'CancelledError')):
                    continue
                if site == 'start' and when == 'after':
                    continue
                cases.append((api, bi, body, [(fname, mk, scope, retry, site, when)]))
    single = list(cases)
    pairs = []
    prng = ctx.rng('pairs')
    for api, bi, body, f1 in single:
        if f1[0][3]:  # first fault retryable -> a second fault can hit the retry
            for (fname, mk, scope, retry) in faults_all:
                site2 = prng.choice(['connect' if scope == 'connect' else 'stmt0', 'commit' if scope != 'connect' else 'connect'])
                if scope == 'stmt' and site2 == 'connect' and fname not in ('RuntimeError', 'CancelledError'):
                    continue
                pairs.append((api, bi, body, f1 + [(fname, mk, scope, retry, site2, 'before')]))
    if ctx.quick:
        pairs = prng.sample(pairs, min(len(pairs), 1500))
    allc = single + pairs
    mine = [c for i, c in enumerate(allc) if i % ctx.n_shards == ctx.shard]
    if ctx.replay is not None:
        w = (ctx.replay.get('witness') or {})
        mine = [c for c in allc if [c[0], c[1], [(f[0], f[4], f[5]) for f in c[3]]] == [w.get('api'), w.get('body'), [tuple(x) for x in w.get('faults', [])]]]

    state = {'pending': [], 'attempt_log': []}

    def hook_fault(site, conn, sql):
        return _decide(site, conn, sql, 'before')

    def hook_after(site, conn, sql):
        return _decide(site, conn, sql, 'after')

    def _decide(site, conn, sql, when):
        # map the shim's site + statement text onto the logical site of the case
        if site == 'connect':
            logical = 'connect'
        elif site == 'commit':
            logical = 'commit'
        elif site == 'rollback':
            ctx.count('rollbacks_observed')
            return None
        elif sql and sql.strip().upper().startswith('START TRANSACTION'):
            logical = 'start'
            if when == 'before':
                state['attempt_log'].append('start')
        else:
            k = state.get('stmt_index', 0)
            logical = f'stmt{k}'
            if when == 'after':
                state['stmt_index'] = k + 1
        for f in state['pending']:
            fname, mk, scope, retry, fsite, fwhen = f
            if fsite == logical and fwhen == when:
                state['pending'].remove(f)
                ctx.seen('sites_hit', logical.rstrip('0123456789'))
                ctx.count('faults_injected')
                if scope == 'txn' and conn is not None:
                    conn._c.rollback()  # the server has rolled the transaction back
                    conn._wake()
                if fwhen == 'after' and logical == 'commit':
                    state['commit_lost_after_effect'] = True
                return mk()
        return None

    aiomysql.HOOKS['fault'] = hook_fault
    aiomysql.HOOKS['fault_after'] = hook_after

    async def one(loop, api, body, faults):
        from gear import Database, transaction

        seed_tables(eng)
        initial = dump(eng)
        # fault-free twin
        c = eng.connect()
        c.begin()
        for sql, args in body:
            if isinstance(args, list):
                for a in args:
                    c.execute(sql, a)
            else:
                c.execute(sql, args)
        c.commit()
        expected = dump(eng)
        seed_tables(eng)
        db = Database()
        await db.async_init(maxsize=3)
        state['pending'] = list(faults)
        state['attempt_log'] = []
        state['stmt_index'] = 0
        state['commit_lost_after_effect'] = False
        attempts = {'n': 0}
        raised = None

        async def body_fn(tx):
            attempts['n'] += 1
            state['stmt_index'] = 0
            for sql, args in body:
                if sql.startswith('SELECT'):
                    await tx.execute_and_fetchone(sql, args)
                else:
                    await tx.just_execute(sql, args)
        try:
            if api == 'transaction-decorator':
                await transaction(db)(body_fn)()
            elif api == 'start-context':
                # un-decorated use: no retry layer of its own; wrap like Database.* methods do
                from gear.database import retry_transient_mysql_errors

                @retry_transient_mysql_errors
                async def go():
                    async with db.start() as tx:
                        await body_fn(tx)
                await go()
            else:
                sql, args = body[0]
                state['stmt_index'] = 0
                if api == 'execute_update':
                    await db.execute_update(sql, args)
                elif api == 'just_execute':
                    await db.just_execute(sql, args)
                elif api == 'execute_many':
                    await db.execute_many(sql, args)
                elif api == 'execute_and_fetchone':
                    await db.execute_and_fetchone(sql, args)
        except BaseException as e:  # noqa: B036
            raised = e
        # let the connection-release tasks run
        for _ in range(5):
            await asyncio.sleep(0)
        final = dump(eng)
        pool = db.pool
        leaked = pool.checked_out
        lock_held = eng.lock_owner is not None
        try:
            await db.async_close()
        except Exception:
            pass
        return initial, expected, final, raised, attempts['n'], leaked, lock_held, len(state['attempt_log']), state['commit_lost_after_effect'], list(state['pending'])

    for idx, (api, bi, body, faults) in enumerate(mine):
        desc = {'api': api, 'body': bi, 'faults': [(f[0], f[4], f[5]) for f in faults]}
        try:
            res = run_virtual(lambda loop: one(loop, api, body, faults), max_steps=500_000)
        except (Deadlock, StepLimit) as e:
            ctx.violation('hang/' + type(e).__name__, f'operation never returned: {desc}', desc)
            ctx.case(sample=desc, key=str(desc))
            continue
        initial, expected, final, raised, n_attempts, leaked, lock_held, n_starts, lost_commit, not_fired = res
        ctx.case(sample=desc, key=str(desc))
        fired = [f for f in faults if f not in not_fired]
        if not fired:
            ctx.count('cases_where_no_fault_fired')
            continue
        first_nonretry = next((f for f in fired if not f[3]), None)
        if lost_commit:
            ctx.count('informational_commit_response_lost_after_effect')
            continue
        if leaked:
            ctx.violation('connection-leaked', f'{leaked} pool connection(s) still checked out after {desc}', desc)
        if lock_held:
            ctx.violation('write-lock-held', f'a transaction still holds the write lock after {desc}', desc)
        if first_nonretry is None:
            ctx.count('retryable_faults_retried', len(fired))
            if raised is not None:
                ctx.violation('retryable-error-not-retried/' + fired[0][0], f'{type(raised).__name__}{getattr(raised, "args", ())} reached the caller in {desc}', desc)
            elif final != expected:
                key = 'partial-writes-after-retry' if final != initial else 'writes-lost-after-retry'
                ctx.violation(key, f'tables after retry differ from the fault-free twin: {final} vs {expected} in {desc}', dict(desc, final=final, expected=expected))
        else:
            ctx.count('nonretryable_faults_propagated')
            name = first_nonretry[0]
            if raised is None:
                ctx.violation('non-retryable-error-swallowed/' + name, f'operation returned normally although {name} was injected: {desc}', desc)
            else:
                want_type = name.split('-')[0]
                if type(raised).__name__ != want_type:
                    ctx.violation('wrong-exception/' + name, f'{type(raised).__name__} raised instead of {want_type}: {desc}', desc)
                n_retry_before = sum(1 for f in fired if f[3])
                if api in ('transaction-decorator', 'start-context') and n_attempts > 1 + n_retry_before:
                    ctx.violation('non-retryable-error-retried/' + name, f'body ran {n_attempts} times after {name}: {desc}', desc)
                if n_starts > 1 + n_retry_before:
                    ctx.violation('non-retryable-error-retried/' + name, f'{n_starts} transactions were started after {name}: {desc}', desc)
            if final != initial:
                sub = 'partial-writes-after-failure' if final != expected else 'writes-committed-despite-failure'
                ctx.violation(sub, f'tables changed although the operation failed with {name}: {final} vs initial {initial} in {desc}', dict(desc, final=final, initial=initial))
    aiomysql.HOOKS.pop('fault', None)
    aiomysql.HOOKS.pop('fault_after', None)
