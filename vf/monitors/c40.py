"""C40 Weighted transfer semaphore is safe and releases on cancellation.

Real code: ``hailtop.aiotools.weighted_semaphore.WeightedSemaphore`` used through
``acquire_manager`` (``async with sem.acquire_manager(n)``), as the copier does.

Events (recorded by the job coroutines / the cancelling tasks, one logical clock, one sequence):
``request(j, w)`` before ``async with``; ``grant(j)`` first statement of the body; ``release(j, how)``
last action of the body (how = normal | error | cancelled; ``__aexit__`` follows without a
suspension point); ``cancel(j, state)`` when some other task calls ``task.cancel()`` on job j;
``cancelled-before-grant(j)`` when a job ends with CancelledError without ever entering the body.

Oracle:

* safety       - the sum of weights between grant and release never exceeds ``max``;
* conservation - at every quiescent point of the virtual loop (nothing runnable; every woken task
  has resumed) the capacity that is not held by a body must be available:
  ``sem.value == sem.max - sum(held)``.  A smaller value means that weight is consumed by nobody:
  either a granted weight was not returned on exit (normal / error / cancellation), or a waiter that
  was cancelled before being granted consumed capacity - the two conservation clauses of the
  statement.  (A *larger* value is not stated as a violation; it is caught when it manifests as
  over-capacity, which the final probe forces.)
* final probe  - after all jobs have finished, ``acquire(max)`` must be granted (history-level
  confirmation of conservation) and, while it is held, ``acquire(1)`` must not be (over-release).

A small reference semaphore (same policy: smallest weight first, ties by arrival; cancellation
removes the waiter) is used only to *classify* cancellations (queued vs. already woken by
``release`` but not yet resumed) and hence the mechanism key; it never decides a verdict.

Workload: 2-10 jobs, weights <= max, arrival / hold / cancel instants on a coarse grid (ties),
bodies that raise, cancellation of waiting jobs, of holding jobs, of jobs in the very step in which
``release`` woke them (a holder cancels a chosen waiter right after leaving its ``async with``).
"""
import asyncio
import bisect
import collections
import itertools
import sys

PID = 'C40'
LEVEL = 'exploration'
RULE = (
    'seeded random schedules: max from {1,2,3,4,5,6,8,50}, 2-10 jobs, weights <= max, arrival/hold/cancel instants multiples of 0.25 s '
    'on a short grid (ties, zero holds), 10% of bodies raise, 0-4 timed cancellations of arbitrary jobs plus, per job with p=0.3, a '
    'cancellation of a chosen other job issued in the same step as its own release (grant-instant cancellation); virtual-time loop. '
    'Distinct = (max, observed grant order, sequence of (cancelled job, state when cancelled)); non-trivial = at least one '
    'cancellation hit a waiting or holding job.'
)
ASSUMPTIONS = [
    'virtual-time loop keeps asyncio\'s ready-queue FIFO order (vf/sim/vloop.py); quiescent points taken from the selector call (vf/sim/quiesce.py)',
    'sem.value / sem.max are the public accounting attributes of WeightedSemaphore (read, never written, by the monitor)',
    'the reference semaphore in this file only classifies cancellations for the mechanism key; verdicts do not depend on it',
]
SHARDS = {'quick': 1, 'thorough': 16}
TIMEOUT = {'quick': 900, 'thorough': 900}


def FLOORS(tier):
    k = 1 if tier == 'quick' else 50
    return {
        'evaluations': 4000 * k,
        'distinct': 2000 * k,
        'grants': 15_000 * k,
        'blocked_grants': 4000 * k,
        'cancel_while_queued': 1500 * k,
        'cancel_at_grant_instant': 150 * k,
        'cancel_while_holding': 1500 * k,
        'release_error': 500 * k,
        'release_cancelled': 1000 * k,
        'quiescent_conservation_checks': 20_000 * k,
        'final_probe_runs': 3000 * k,
    }


UNIT = 0.25


class Boom(Exception):
    pass


def gen(rng):
    cap = rng.choice([1, 2, 2, 3, 4, 5, 6, 8, 50])
    n = rng.randint(2, 10)
    span = rng.choice([1, 2, 3, 5])
    holds = rng.choice([[0, 1], [1, 2], [1, 2, 3, 5], [2], [0, 0, 1]])

    def weight():
        r = rng.random()
        if r < 0.2:
            return 1
        if r < 0.45:
            return cap
        if r < 0.6:
            return min(cap, cap // 2 + 1)
        return rng.randint(1, cap)

    jobs = []
    for j in range(n):
        kick = None
        if n > 1 and rng.random() < 0.3:
            kick = rng.choice([x for x in range(n) if x != j])
        jobs.append({'arrival': rng.randrange(span), 'w': weight(), 'hold': rng.choice(holds), 'boom': rng.random() < 0.1, 'kick': kick})
    cancels = []
    for _ in range(rng.choice([0, 1, 1, 2, 3, 4])):
        # half-grid instants too: cancellation strictly between two grid instants
        cancels.append({'at': rng.randrange(2 * (span + 5)) / 2, 'target': rng.randrange(n)})
    return {'max': cap, 'jobs': jobs, 'cancels': cancels}


class Recorder:
    def __init__(self, loop, sem, cap, jobs):
        self.loop = loop
        self.sem = sem
        self.cap = cap
        self.t0 = loop.time()
        self.events = []
        self.w = [j['w'] for j in jobs]
        self.state = ['new'] * len(jobs)  # new | waiting | holding | done
        self.held_sum = 0
        self.grant_order = []
        self.cancel_log = []
        self.stats = collections.Counter()
        self.violation = None
        # classification-only reference semaphore
        self.m_value = cap
        self.m_queue = []  # sorted [(w, seq, j)]
        self.m_inflight = set()
        self.m_seq = 0
        # cancelled waiters whose weight must not be consumed: j -> kind
        self.cancelled_waiters = {}
        self.grant_instant_this_instant = []
        self.holder_exits_this_instant = []

    def _ev(self, kind, j, extra=None):
        self.events.append((len(self.events), round(self.loop.time() - self.t0, 6), kind, j, self.w[j] if j is not None else None, extra))

    def _flag(self, key, what):
        if self.violation is None:
            self.violation = (key, what, len(self.events) - 1)

    # ---- reference (classification only) --------------------------------------------------
    def _m_drain(self):
        while self.m_queue and self.m_queue[0][0] <= self.m_value:
            w, _, j = self.m_queue.pop(0)
            self.m_value -= w
            self.m_inflight.add(j)

    # ---- boundary events ------------------------------------------------------------------
    def request(self, j):
        self._ev('request', j)
        self.state[j] = 'waiting'
        w = self.w[j]
        if self.m_value >= w:
            self.m_value -= w
            self.m_inflight.add(j)
        else:
            self.m_seq += 1
            bisect.insort(self.m_queue, (w, self.m_seq, j))

    def grant(self, j):
        self._ev('grant', j)
        blocked = not (self.events[-2][2] == 'request' and self.events[-2][3] == j)
        self.stats['grants'] += 1
        self.stats['blocked_grants' if blocked else 'immediate_grants'] += 1
        self.state[j] = 'holding'
        self.held_sum += self.w[j]
        self.grant_order.append((j, self.w[j]))
        self.m_inflight.discard(j)
        if self.held_sum > self.cap:
            self._flag('safety/over-capacity', f'granted weights sum to {self.held_sum} > max {self.cap} when job {j} (w={self.w[j]}) entered its body')

    def release(self, j, how):
        self._ev('release', j, how)
        self.state[j] = 'done'
        self.held_sum -= self.w[j]
        self.stats['release_' + how] += 1
        if how != 'normal':
            self.holder_exits_this_instant.append((j, how))
        self.m_value += self.w[j]
        self._m_drain()

    def cancel(self, j, by):
        st = self.state[j]
        kind = st
        if st == 'waiting':
            if j in self.m_inflight:
                kind = 'grant-instant'
            else:
                kind = 'queued'
        self._ev('cancel', j, {'state': kind, 'by': by})
        self.cancel_log.append((j, kind))
        self.stats[{'new': 'cancel_before_arrival', 'queued': 'cancel_while_queued', 'grant-instant': 'cancel_at_grant_instant',
                    'holding': 'cancel_while_holding', 'done': 'cancel_after_done'}[kind]] += 1

    def cancelled_before_grant(self, j):
        """job j ended with CancelledError after its request and without entering the body"""
        self._ev('cancelled-before-grant', j)
        self.state[j] = 'done'
        w = self.w[j]
        if j in self.m_inflight:
            self.m_inflight.discard(j)
            self.m_value += w
            self._m_drain()
            self.cancelled_waiters[j] = 'grant-instant'
            self.grant_instant_this_instant.append(j)
        else:
            self.m_queue = [x for x in self.m_queue if x[2] != j]
            self.cancelled_waiters[j] = 'queued'

    def cancelled_before_request(self, j):
        self.state[j] = 'done'

    def probe_hold(self, dw):
        self.events.append((len(self.events), round(self.loop.time() - self.t0, 6), 'probe-grant' if dw > 0 else 'probe-release', None, abs(dw), None))
        self.held_sum += dw
        if self.held_sum > self.cap:
            self._flag('safety/over-capacity', f'granted weights sum to {self.held_sum} > max {self.cap} in the final probe (capacity was returned more than once)')

    # ---- oracle at quiescent points ---------------------------------------------------------
    def quiescent(self):
        self.stats['quiescent_conservation_checks'] += 1
        expected = self.cap - self.held_sum
        value = self.sem.value
        if value < expected and self.violation is None:
            missing = expected - value
            key, why = self._classify(missing)
            self._flag(
                key,
                f'at a quiescent point (t={self.loop.time() - self.t0:g}) bodies hold {self.held_sum} of {self.cap} but only {value} is available: '
                f'{missing} consumed by nobody ({why})',
            )
        elif value > expected:
            self.stats['quiescent_points_with_surplus_value'] += 1
        self.grant_instant_this_instant = []
        self.holder_exits_this_instant = []

    def _classify(self, missing):
        queued = [j for j, k in self.cancelled_waiters.items() if k == 'queued']
        gi = list(self.grant_instant_this_instant)
        cand = queued + gi
        best = None
        for r in range(1, min(len(cand), 8) + 1):
            for sub in itertools.combinations(cand, r):
                if sum(self.w[j] for j in sub) == missing:
                    pure_q = all(j in queued for j in sub)
                    pure_g = all(j in gi for j in sub)
                    # a cancellation at the grant instant happened in this very instant: most specific explanation
                    rank = 0 if pure_g else (1 if pure_q else 2)
                    if best is None or rank < best[0]:
                        best = (rank, sub)
            if best is not None and best[0] == 0:
                break
        if best is not None:
            rank, sub = best
            if rank == 0:
                return 'cancel-at-grant-instant-leaks-capacity', f'job(s) {list(sub)} were cancelled after release() had woken them and before they resumed; their weight was never returned'
            return 'cancelled-waiter-leaks-capacity', f'job(s) {list(sub)} were cancelled while queued in acquire() and were later "granted" by release()'
        for j, how in self.holder_exits_this_instant:
            if self.w[j] == missing:
                return 'holder-exit-leaks-capacity', f'job {j} left its body by {how} and its weight was not returned'
        return 'capacity-leak', 'no cancelled waiter explains the amount'


def execute(case, WeightedSemaphore, run_virtual, on_quiescent, Deadlock, StepLimit):
    box = {}

    async def main(loop):
        sem = WeightedSemaphore(case['max'])
        rec = Recorder(loop, sem, case['max'], case['jobs'])
        box['rec'] = rec
        on_quiescent(loop, rec.quiescent)
        tasks = []

        async def job(j, spec):
            requested = False
            granted = False
            try:
                await asyncio.sleep(spec['arrival'] * UNIT)
                requested = True
                rec.request(j)
                async with sem.acquire_manager(spec['w']):
                    granted = True
                    rec.grant(j)
                    try:
                        await asyncio.sleep(spec['hold'] * UNIT)
                        if spec['boom']:
                            raise Boom()
                    finally:
                        et = sys.exc_info()[0]
                        rec.release(j, 'normal' if et is None else ('cancelled' if issubclass(et, asyncio.CancelledError) else 'error'))
            except Boom:
                pass
            except asyncio.CancelledError:
                if requested and not granted:
                    rec.cancelled_before_grant(j)
                elif not requested:
                    rec.cancelled_before_request(j)
                raise
            finally:
                # same step as the release above: a waiter that release() has just woken has not resumed yet
                if granted and spec['kick'] is not None:
                    rec.cancel(spec['kick'], by=f'job {j} right after its release')
                    tasks[spec['kick']].cancel()

        async def canceller(c):
            await asyncio.sleep(c['at'] * UNIT)
            rec.cancel(c['target'], by='timer')
            tasks[c['target']].cancel()

        for j, spec in enumerate(case['jobs']):
            tasks.append(asyncio.ensure_future(job(j, spec)))
        cancellers = [asyncio.ensure_future(canceller(c)) for c in case['cancels']]
        await asyncio.gather(*tasks, *cancellers, return_exceptions=True)
        rec.quiescent()

        # ---- final probe -----------------------------------------------------------------------
        rec.stats['final_probe_runs'] += 1
        probe = {'p1': False, 'p2': False}
        p1_release = asyncio.Event()

        async def p1():
            async with sem.acquire_manager(case['max']):
                probe['p1'] = True
                rec.probe_hold(case['max'])
                try:
                    await p1_release.wait()
                finally:
                    rec.probe_hold(-case['max'])

        async def p2():
            async with sem.acquire_manager(1):
                probe['p2'] = True
                rec.probe_hold(1)
                rec.probe_hold(-1)

        t1 = asyncio.ensure_future(p1())
        await asyncio.sleep(UNIT)
        if not probe['p1']:
            rec._flag('capacity-leak', f'after every job has finished acquire(max={case["max"]}) is not granted (value={sem.value})')
            t1.cancel()
        else:
            t2 = asyncio.ensure_future(p2())
            await asyncio.sleep(UNIT)
            t2.cancel()
            p1_release.set()
        await asyncio.gather(t1, return_exceptions=True)
        box['probe'] = probe

    outcome = 'completed'
    try:
        run_virtual(main, max_steps=200_000)
    except Deadlock:
        outcome = 'deadlock'
    except StepLimit:
        outcome = 'steplimit'
    return box['rec'], outcome, box.get('probe')


def run(ctx):
    from hailtop.aiotools.weighted_semaphore import WeightedSemaphore

    from vf.sim.quiesce import on_quiescent
    from vf.sim.vloop import Deadlock, StepLimit, run_virtual

    N = ctx.pick(6_000, 25_000)
    for i, rng in ctx.cases(N):
        case = gen(rng)
        rec, outcome, probe = execute(case, WeightedSemaphore, run_virtual, on_quiescent, Deadlock, StepLimit)
        for k, v in rec.stats.items():
            ctx.count(k, v)
        ctx.count('outcome_' + outcome)
        ctx.seen('max', case['max'])
        hit = any(kind in ('queued', 'grant-instant', 'holding') for _, kind in rec.cancel_log)
        ctx.case(
            sample={'case': case, 'grant_order': rec.grant_order, 'cancels': rec.cancel_log},
            key=(case['max'], tuple(rec.grant_order), tuple(rec.cancel_log)),
            nontrivial=hit,
        )
        if outcome == 'steplimit':
            ctx.count('cases_step_limit')
            if ctx.counters['cases_step_limit'] > 3:
                ctx.inconclusive_because('virtual loop step limit hit repeatedly')
        if outcome == 'deadlock' and rec.violation is None:
            # jobs hold only across timers, so a dead loop means waiters that can never be served
            rec.violation = ('waiters-never-served', 'the loop has nothing left to run but jobs are still blocked in acquire although no capacity is missing', len(rec.events) - 1)
        if rec.violation:
            key, what, at = rec.violation
            ctx.violation(key, what, witness={'case': case, 'outcome': outcome, 'probe': probe, 'violating_event_index': at, 'events': rec.events[: at + 12]})


# ------------------------------------------------------------------------------------------------
# Unchanged tree (78296c9bd): exit 1 for seeds 0..4 in both tiers with exactly two mechanism keys, both genuine:
#   cancelled-waiter-leaks-capacity         (cancelled while queued; stays in sem.events; a later release() "grants" it)
#   cancel-at-grant-instant-leaks-capacity  (release() woke the waiter, it is cancelled before it resumes; __aexit__ never runs)
# Proposed repair: /verif/proposed_fixes/C40-cancelled-waiter-leaks-capacity.diff (try/except around event.wait()).
# With the repair applied in a scratch worktree: exit 0 for seeds 0..4 quick and seed 0 thorough.
#
# Breaks tried on top of the repaired scratch worktree (hail/python/hailtop/aiotools/weighted_semaphore.py,
# VERIF_REPO=/tmp/scratch-async, quick tier, seed 0), one at a time:
#   B1 __aexit__ releases only when exc_type is None                    -> caught  holder-exit-leaks-capacity
#   B2 acquire fast path forgets `self.value -= n`                       -> caught  safety/over-capacity
#   B3 repair without the `event.is_set()` branch (half fix)             -> caught  cancel-at-grant-instant-leaks-capacity
#      (needs: holder releases, wakes waiter, waiter cancelled in the same step)
#   B4 repair without `self.events.remove(entry)` (other half)           -> caught  cancelled-waiter-leaks-capacity
#   B5 __aexit__ releases twice when the holder was cancelled            -> caught  safety/over-capacity (in run and in final probe)
#   B6 release() forgets `self.value -= _n` for a woken waiter           -> caught  safety/over-capacity
#   B7 release() uses `self.value > _n`                                  -> caught  waiters-never-served
