"""C03 Billed attempt time is monotone and bounded by the attempt.

Real code: trigger attempts_before_update (batch/sql/067) as reached through every procedure that
updates `attempts` (schedule_job, mark_job_creating, mark_job_started, mark_job_complete,
unschedule_job, deactivate_instance via the real CALL statements of driver/job.py / instance.py) and
through billing_update_1's direct UPDATE (real handler).
Events: the committed (start, rollup, end, reason) tuple of one attempt before and after every report.
Oracle per step: billed >= 0; once ended billed <= end - start; billed never decreases unless the
report moved the end earlier or is an activation timeout; start only moves earlier (NULL only by an
activation-timeout report); once a reason is set it never changes and end only moves earlier.
Workload: all report sequences up to length L over an alphabet of 8 report kinds x a 4-point time
grid (equal, earlier and later times), plus seeded random longer sequences.
"""
import itertools
import logging
import random

from vf.harness import Inconclusive
from vf.minimysql.values import Unsupported
from vf.sim.vloop import run_virtual
from vf.world import sqlmon
from vf.world.fuzz import FakeRequest, Fuzzer
from vf.world.world import World, userdata

PID = 'C03'
LEVEL = 'exploration'
RULE = ('phase enum: every sequence of length <= L (L=3 quick, 4 thorough) that is admissible (worker reports only from an active instance, creating / activation timeout only on a pending one) over the alphabet {activate, schedule, creating(t), cancel_complete(t), started(t), heartbeat(t), '
        'complete(ts,te), unschedule(t), deactivate(t), activation_timeout(t)} with t from a 4-point grid {T-10, T, T, T+7} (exhaustive for that alphabet, '
        'length and grid; sharded); phase random: seeded sequences of length 3..7. Distinct by the sequence; non-trivial when it has >= 2 reports.')
ASSUMPTIONS = sqlmon.COMMON_ASSUMPTIONS
SHARDS = {'quick': 4, 'thorough': 16}
TIMEOUT = {'quick': 900, 'thorough': 3600}
FLOORS = {'prefixed_sequences': 1500, 'steps_checked': 3000, 'steps_changing_attempt': 1000, 'sql_routine:attempts_before_update': 1000, 'steps_after_end_reason_set': 200}

T0 = 1_700_000_100_000
GRID = [T0 - 10, T0, T0, T0 + 7]


def admissible(seq):
    """message realism (DESIGN 2.4): worker reports (started / heartbeat / complete) are only admitted from an *active*
    instance (@active_instances_only), the driver schedules only on active instances, mark_job_creating happens on a
    pending instance, an activation timeout only hits a pending instance; unschedule and canceller completions can be
    issued by the driver at any time"""
    st = 'pending'
    for op in seq:
        k = op[0]
        if k == 'activate':
            if st != 'pending':
                return False
            st = 'active'
        elif k == 'creating':
            if st != 'pending':
                return False
        elif k in ('schedule', 'started', 'heartbeat', 'complete'):
            if st != 'active':
                return False
        elif k == 'deactivate':
            if st not in ('pending', 'active'):
                return False
            st = 'inactive'
        elif k == 'activation_timeout':
            if st != 'pending':
                return False
            st = 'inactive'
    return True


def alphabet():
    a = [('schedule',), ('activate',)]
    for t in (0, 1, 3):
        a.append(('cancel_complete', GRID[t]))
    for t in (0, 1, 3):
        a += [('creating', GRID[t]), ('started', GRID[t]), ('heartbeat', GRID[t]), ('unschedule', GRID[t]), ('deactivate', GRID[t]), ('activation_timeout', GRID[t])]
    for ts, te in ((0, 1), (1, 1), (1, 3), (3, 0), (0, 3), (None, 1)):
        a.append(('complete', None if ts is None else GRID[ts], GRID[te]))
    return a


def billed(r):
    if r is None or r['rollup_time'] is None or r['start_time'] is None:
        return 0
    return max(r['rollup_time'] - r['start_time'], 0)


def check_step(ctx, seq, k, op, old, new):
    out = []
    if new is None:
        return out
    b_new, b_old = billed(new), billed(old)
    # billed = GREATEST(COALESCE(rollup - start, 0), 0) is what the triggers bill: non-negative by construction; C02 ties it to the aggregates
    if new['end_time'] is not None and new['start_time'] is not None and b_new > max(new['end_time'] - new['start_time'], 0):
        # (a hostile report may carry end < start; billed is then 0, the smallest value "never negative" allows)
        out.append(('billed-exceeds-attempt', f'billed {b_new} > end - start = {new["end_time"] - new["start_time"]}'))
    if new['end_time'] is not None and new['rollup_time'] is not None and new['rollup_time'] > new['end_time']:
        out.append(('rollup-after-end', f'rollup {new["rollup_time"]} > end {new["end_time"]}'))
    if old is not None:
        timeout_report = op[0] == 'activation_timeout'
        # an attempt that has not ended has end = +infinity: the first end report also "moves the end earlier"
        end_earlier = new['end_time'] is not None and (old['end_time'] is None or new['end_time'] < old['end_time'])
        if b_new < b_old and not (timeout_report or end_earlier):
            out.append(('billed-decreased', f'billed {b_old} -> {b_new} by {op}'))
        elif b_new < b_old and end_earlier and not timeout_report and new['start_time'] is not None:
            # an earlier end takes back only what lies beyond it: billed may drop to (end - start), not below
            floor_ = min(b_old, max(new['end_time'] - new['start_time'], 0))
            if b_new < floor_:
                out.append(('billed-decreased-below-what-the-earlier-end-forces', f'billed {b_old} -> {b_new} by {op} although the new end {new["end_time"]} leaves {floor_} of it inside the attempt'))
        if old['start_time'] is not None:
            if new['start_time'] is None:
                if not timeout_report:
                    out.append(('start-became-null', f'start {old["start_time"]} -> NULL by {op}'))
            elif new['start_time'] > old['start_time']:
                out.append(('start-moved-later', f'start {old["start_time"]} -> {new["start_time"]} by {op}'))
        if old['reason'] is not None:
            moved_earlier = old['end_time'] is not None and new['end_time'] is not None and new['end_time'] < old['end_time']
            if new['reason'] != old['reason'] and not moved_earlier:
                # (the report that replaces the end with an earlier one also brings its reason: that is the end being replaced)
                out.append(('reason-changed', f'reason {old["reason"]} -> {new["reason"]} by {op} without an earlier end'))
            if old['end_time'] is not None and (new['end_time'] is None or new['end_time'] > old['end_time']):
                out.append(('end-moved-later-after-reason', f'end {old["end_time"]} -> {new["end_time"]} by {op}'))
    return out


def run(ctx):
    logging.disable(logging.CRITICAL)
    A = alphabet()
    L = ctx.pick(3, 4)
    seqs = []
    n = 0
    for length in range(1, L + 1):
        for tup in itertools.product(A, repeat=length):
            n += 1
            if not admissible(tup):
                continue
            if n % ctx.n_shards == ctx.shard:
                seqs.append(tup)
    # phase prefixed: the enumeration above spends its length on getting an attempt started; here every suffix of <= 3 reports
    # (complete / unschedule / deactivate / canceller completion / late start / heartbeat) follows a realistic prefix in which
    # the attempt already has billed time (pool: activate, schedule, started, heartbeat; job-private: creating, activate, started, heartbeat)
    reports = [a for a in A if a[0] in ('started', 'heartbeat', 'complete', 'unschedule', 'deactivate', 'cancel_complete')]
    prefixes = [
        (('activate',), ('schedule',), ('started', GRID[0]), ('heartbeat', GRID[1])),
        (('activate',), ('schedule',), ('started', GRID[1]), ('heartbeat', GRID[3])),
        (('creating', GRID[0]), ('activate',), ('started', GRID[1]), ('heartbeat', GRID[3])),
        (('activate',), ('schedule',), ('heartbeat', GRID[1]), ('started', GRID[0])),
    ]
    Lp = ctx.pick(2, 3)
    m = 0
    n_prefixed = 0
    for pre in prefixes:
        for length in range(1, Lp + 1):
            for tup in itertools.product(reports, repeat=length):
                m += 1
                cand = pre + tup
                if m % ctx.n_shards == ctx.shard and admissible(cand):
                    seqs.append(cand)
                    n_prefixed += 1
    ctx.count('prefixed_sequences', n_prefixed)
    n_random = ctx.pick(400, 3000)
    rr = ctx.rng('random-seqs')
    rand = []
    while len(rand) < n_random:
        cand = tuple(rr.choice(A) for _ in range(rr.randint(3, 7)))
        if rr.random() < 0.7:
            cand = (('activate',),) + cand  # most random sequences live on an activated instance
        if admissible(cand):
            rand.append(cand)
    if ctx.replay is not None:
        w = ctx.replay.get('witness') or {}
        seqs, rand = [tuple(tuple(x) for x in w.get('sequence', []))], []
    ctx.count('enumerated_sequences', len(seqs))
    all_seqs = seqs + rand
    state = {}

    async def main(loop):
        w = World(seed=ctx.seed, loop=loop, n_tokens=2)
        await w.boot()
        fz = Fuzzer(w, random.Random(1), {'job_private': False})
        fe = w.fe
        ud = userdata('alice')
        from batch.front_end.validate import validate_and_clean_jobs
        from batch.driver.job import add_attempt_resources

        at = w.engine.tables['attempts']
        db = w.db
        bid = None
        next_job = 0
        cap = 0
        try:
            for si, seq in enumerate(all_seqs):
                if next_job >= cap:
                    # a fresh batch with 200 single-core jobs
                    tok = f'c03-{si}'
                    bid = await fe._create_batch({'billing_project': 'bp-a', 'token': tok, 'n_jobs': 200}, ud, db)
                    uid, _, _ = await fe._create_batch_update(bid, tok, 200, 0, 'alice', db)
                    jobs = [{'job_id': i, 'process': {'type': 'docker', 'command': ['true'], 'image': 'u'}, 'resources': {'cpu': '1', 'memory': 'standard', 'storage': '1Gi'}} for i in range(1, 201)]
                    validate_and_clean_jobs(jobs)
                    await fe._create_jobs(ud, jobs, bid, uid, w.fe_app)
                    await fe._commit_update(w.fe_app, bid, uid, 'alice', db)
                    next_job, cap = 1, 201
                jid = next_job
                next_job += 1
                inst = await w.create_instance('standard', cores=16, activate=False)
                aid = f'att{si}'
                old = None
                for k, op in enumerate(seq):
                    kind = op[0]
                    try:
                        if kind == 'activate':
                            await inst.activate('10.9.9.9', T0 - 20)
                        elif kind == 'cancel_complete':
                            await db.execute_and_fetchone('CALL mark_job_complete(%s, %s, %s, %s, %s, %s, %s, %s, %s, %s);',
                                                          (bid, jid, aid, inst.name, 'Cancelled', None, None, op[1], 'cancelled', op[1]))
                        elif kind == 'schedule':
                            await db.execute_and_fetchone('CALL schedule_job(%s, %s, %s, %s);', (bid, jid, aid, inst.name))
                        elif kind == 'creating':
                            await db.execute_and_fetchone('CALL mark_job_creating(%s, %s, %s, %s, %s);', (bid, jid, aid, inst.name, op[1]))
                        elif kind == 'started':
                            await db.execute_and_fetchone('CALL mark_job_started(%s, %s, %s, %s, %s);', (bid, jid, aid, inst.name, op[1]))
                            await add_attempt_resources(w.dr_app, db, bid, jid, aid, [{'name': 'compute/n1-preemptible/1', 'quantity': 1000}])
                        elif kind == 'heartbeat':
                            body = {'timestamp': op[1], 'attempts': [{'batch_id': bid, 'job_id': jid, 'attempt_id': aid}]}
                            await w.dm.billing_update_1(FakeRequest(w.dr_app, body), inst)
                        elif kind == 'complete':
                            await db.execute_and_fetchone('CALL mark_job_complete(%s, %s, %s, %s, %s, %s, %s, %s, %s, %s);',
                                                          (bid, jid, aid, inst.name, 'Success', None, op[1], op[2], 'completed', op[2]))
                        elif kind == 'unschedule':
                            await db.execute_and_fetchone('CALL unschedule_job(%s, %s, %s, %s, %s, %s);', (bid, jid, aid, inst.name, op[1], 'cancelled'))
                        elif kind == 'deactivate':
                            await db.execute_and_fetchone('CALL deactivate_instance(%s, %s, %s);', (inst.name, 'preempted', op[1]))
                        elif kind == 'activation_timeout':
                            await db.execute_and_fetchone('CALL deactivate_instance(%s, %s, %s);', (inst.name, 'activation_timeout', op[1]))
                    except Unsupported as e:
                        raise Inconclusive('minimysql unsupported: ' + str(e))
                    row = at.pk_get(bid, jid, aid)
                    new = dict(row) if row is not None else None
                    ctx.count('steps_checked')
                    if new != old:
                        ctx.count('steps_changing_attempt')
                    if old is not None and old['reason'] is not None:
                        ctx.count('steps_after_end_reason_set')
                    for key, what in check_step(ctx, seq, k, op, old, new):
                        ctx.violation(key, f'{what} (step {k} of {list(seq)})', {'sequence': [list(x) for x in seq], 'step': k, 'old': old, 'new': new})
                    old = new
                ctx.case(sample={'sequence': [list(x) for x in seq[:6]]}, key=seq, nontrivial=len(seq) >= 2)
                # keep the instance table small
                try:
                    await inst.deactivate('done', T0 + 1000)
                    await inst.inst_coll.remove_instance(inst, 'done', T0 + 1000)
                except Exception:
                    pass
        finally:
            for name, c in w.engine.routine_calls.items():
                ctx.count('sql_routine:' + name, c)
            await w.shutdown()
    run_virtual(main, max_steps=50_000_000)
    if not rand and ctx.replay is None:
        ctx.exhaustive = True
