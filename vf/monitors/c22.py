"""C22 Copy tool reproduces sources exactly.

Real code: Copier.copy / SourceCopier / Transfer (copier.py) over RouterAsyncFS -> LocalAsyncFS /
LocalMultiPartCreate, exactly as hailtop/aiotools/copy.py drives it (list of transfers, caller holds one
semaphore slot, return_exceptions=False), on mkdtemp scratch trees, in a real asyncio loop with a real thread
pool.  The part size (LocalAsyncFS.copy_part_size) and Copier.BUFFER_SIZE are patched down to 1..64 bytes so that
tiny files take the multi-part path (size > part size) with several buffers per part.

Oracle: a reference model of the destination rules (Transfer constructor + SourceCopier._full_dest as documented
by the repo's own COPY_TEST_SPECS table, which the model is checked against at start-up):
  * source: file (no trailing slash) / directory / otherwise FileNotFoundError;
  * DEST_DIR, a list of sources, a trailing slash under INFER_DEST, or INFER_DEST onto an existing directory
    -> copy to dest/basename(src);  DEST_IS_TARGET or INFER_DEST onto a file / a missing path -> copy to dest;
  * file onto a directory -> IsADirectoryError; directory onto a file / through a file -> NotADirectoryError;
    DEST_IS_TARGET with several sources -> NotADirectoryError (at construction).
After a run that the model says succeeds, the destination root must contain exactly the pre-existing entries
plus the modelled copies, byte for byte (directories too: no other path may appear).  When the model says the
run fails, Copier.copy must raise one of the modelled exception classes, and nothing outside the modelled write
set may have been touched (sibling transfers are cancelled midway, so their targets may be partial or absent).

Not expressible between local paths: a source that is both file and directory (FileAndDirectoryError).
"""
import asyncio
import os
import shutil
import tempfile

PID = 'C22'
LEVEL = 'exploration'
RULE = (
    'phase specs: the 324 configurations of the repo table COPY_TEST_SPECS (src type x dest type x dest basename x mode x slashes), '
    'each run through the real copier with seeded part/buffer sizes; phase random: 1-4 simultaneous transfers, each with its own '
    'destination root (pre-state absent/file/dir, with overlapping, conflicting and unrelated pre-existing entries), 1-3 sources per '
    'transfer (file, dir, nested, missing, trailing slash), all three treat_dest_as modes, file sizes drawn around multiples of the '
    'part size (1..64) and buffer size (1..64), semaphore 1-8, thread pool 1-8, and an optional yielding FS wrapper. '
    'Distinct by (per-transfer mode, source kinds, destination state, slashes, outcome; multi-part shape); non-trivial when at least '
    'one file is copied or an error is expected.'
)
ASSUMPTIONS = [
    'the reference model below is the documented destination rule set (it is checked against the repo table COPY_TEST_SPECS at start-up)',
    'the sandbox local filesystem (tmpfs / ext4) behaves as POSIX for open/stat/scandir/makedirs',
    'thread scheduling is not controlled: interleavings vary with semaphore size, pool size and the yielding wrapper, not enumerated',
    'FileAndDirectoryError (source both file and directory) cannot occur between local paths and is not exercised',
]
TRUSTED_BASE = ['reference model in vf/monitors/c22.py', 'COPY_TEST_SPECS table of the repository (cross-check only)', 'local filesystem of the sandbox']
SHARDS = {'quick': 4, 'thorough': 16}
TIMEOUT = {'quick': 600, 'thorough': 1800}
FLOORS = {
    'model_specs_agree': 324, 'runs_success': 300, 'runs_error': 60, 'files_verified': 1000, 'multipart_files_verified': 150,
    'multipart_exact_multiple_verified': 20, 'outcome_classes': 4, 'modes_seen': 3,
}

DEST_DIR, DEST_IS_TARGET, INFER_DEST = 'dest_dir', 'dest_is_target', 'infer_dest'


# --------------------------------------------------------------------------------------------------
# reference model
# --------------------------------------------------------------------------------------------------


class MFS:
    """model file tree: absolute normalised paths"""

    def __init__(self):
        self.files = {}
        self.dirs = set()

    def copy(self):
        m = MFS()
        m.files = dict(self.files)
        m.dirs = set(self.dirs)
        return m

    def kind(self, p):
        p = norm(p)
        if p in self.files:
            return 'file'
        if p in self.dirs:
            return 'dir'
        return None

    def add_dir(self, p):
        p = norm(p)
        while p and p != '/':
            assert p not in self.files, p
            self.dirs.add(p)
            p = os.path.dirname(p)

    def add_file(self, p, data):
        p = norm(p)
        assert p not in self.dirs, p
        self.add_dir(os.path.dirname(p))
        self.files[p] = data

    def files_under(self, p):
        p = norm(p)
        pre = p + '/'
        return {k[len(pre) :]: v for k, v in self.files.items() if k.startswith(pre)}


def norm(p):
    q = p.rstrip('/')
    return q if q else '/'


def join(a, b):
    return a + b if a.endswith('/') else a + '/' + b


def model_ctor(src, dest, mode):
    """Transfer.__init__: -> (error class name | None, effective mode)"""
    if mode not in (DEST_DIR, DEST_IS_TARGET, INFER_DEST):
        return 'ValueError', mode
    if mode == DEST_IS_TARGET and isinstance(src, list):
        return 'NotADirectoryError', mode
    if mode == INFER_DEST and dest.endswith('/'):
        mode = DEST_DIR
    return None, mode


def model_source(m, src, dest, mode, src_is_list):
    """One source of one transfer against model tree m (pre-state).
    -> dict(errors=set of class names, writes={target: bytes}, file_errors={target: cls})"""
    out = {'errors': set(), 'writes': {}, 'src_kind': None}
    trailing = src.endswith('/')
    k = m.kind(src)
    is_file = (not trailing) and k == 'file'
    is_dir = k == 'dir'
    if not is_file and not is_dir:
        out['errors'].add('FileNotFoundError')
        out['src_kind'] = 'missing' if k is None else 'file-with-slash'
        anc = os.path.dirname(norm(src))
        while anc and anc != '/':
            if m.kind(anc) == 'file':
                # a missing source *below a regular file*: POSIX answers ENOTDIR, the rules do not say which of the
                # two classes wins => either is accepted (unspecified, not a violation)
                out['errors'].add('NotADirectoryError')
                out['src_kind'] = 'missing-below-file'
                break
            anc = os.path.dirname(anc)
        return out
    out['src_kind'] = 'file' if is_file else 'dir'
    # destination type as the copier sees it
    if mode == INFER_DEST:
        dest_type = 'dir' if src_is_list else m.kind(dest)
    else:
        dest_type = None
    if mode == DEST_DIR or (mode == INFER_DEST and dest_type == 'dir'):
        full_dest, full_type = join(dest, os.path.basename(norm(src))), None
    else:
        full_dest = dest
        full_type = dest_type if mode == INFER_DEST else ('dir' if dest.endswith('/') else None)
    out['full_dest'] = full_dest
    if is_file:
        if full_type == 'dir':
            out['errors'].add('IsADirectoryError')
            return out
        planned = {norm(full_dest): m.files[norm(src)]}
    else:
        if full_type == 'file':
            out['errors'].add('NotADirectoryError')
            return out
        planned = {norm(join(full_dest, rel)): data for rel, data in m.files_under(src).items()}
    for target, data in planned.items():
        err = None
        anc = os.path.dirname(target)
        while anc and anc != '/':
            if m.kind(anc) == 'file':
                err = 'NotADirectoryError'
                break
            anc = os.path.dirname(anc)
        if err is None and m.kind(target) == 'dir':
            err = 'IsADirectoryError'
        if err:
            out['errors'].add(err)
        out['writes'][target] = data  # on error runs: may or may not have happened
    return out


def model_run(pre, transfers):
    """transfers: list of dict(src, dest, mode).  -> dict(ctor_error, errors, writes, per_transfer)"""
    res = {'ctor_error': None, 'errors': set(), 'writes': {}, 'per_transfer': []}
    for t in transfers:
        ce, mode = model_ctor(t['src'], t['dest'], t['mode'])
        if ce:
            res['ctor_error'] = ce
            res['per_transfer'].append({'ctor_error': ce})
            return res
        srcs = t['src'] if isinstance(t['src'], list) else [t['src']]
        per = []
        for s in srcs:
            o = model_source(pre, s, t['dest'], mode, isinstance(t['src'], list))
            per.append(o)
            res['errors'] |= o['errors']
            for k, v in o['writes'].items():
                assert k not in res['writes'] or res['writes'][k] == v, ('generator produced overlapping targets', k)
                res['writes'][k] = v
        res['per_transfer'].append({'mode': mode, 'sources': per})
    return res


# --------------------------------------------------------------------------------------------------
# cross-check of the model against the repo's own table
# --------------------------------------------------------------------------------------------------


def spec_world(spec, base):
    """The pre-state and transfer that test/hailtop/inter_cloud/generate_copy_test_specs.py::run_test_spec builds."""
    m = MFS()
    src_base, dest_base = base + '/src/', base + '/dest/'
    m.add_dir(src_base)
    m.add_dir(dest_base)
    m.add_file(dest_base + 'keep', b'')

    def data(name, base_, typ):
        if typ == 'file':
            m.add_file(base_ + 'a', f'{name}/a'.encode())
        elif typ == 'dir':
            m.add_dir(base_ + 'a')
            if name == 'src':
                m.add_file(base_ + 'a/file1', b'src/a/file1')
            m.add_dir(base_ + 'a/subdir')
            m.add_file(base_ + 'a/subdir/file2', f'{name}/a/subdir/file2'.encode())
            if name == 'dest':
                m.add_file(base_ + 'a/file3', b'dest/a/file3')

    data('src', src_base, spec['src_type'])
    data('dest', dest_base, spec['dest_type'])
    src = src_base + 'a' + ('/' if spec['src_trailing_slash'] else '')
    dest = dest_base + spec['dest_basename'] if spec['dest_basename'] else dest_base
    if spec['dest_trailing_slash']:
        if not dest.endswith('/'):
            dest += '/'
    else:
        dest = dest.rstrip('/')
    return m, {'src': src, 'dest': dest, 'mode': spec['treat_dest_as']}, norm(dest_base)


def load_specs():
    import runpy

    repo = os.environ.get('VERIF_REPO', '/repo')
    path = os.path.join(repo, 'hail', 'python', 'test', 'hailtop', 'inter_cloud', 'copy_test_specs.py')
    return runpy.run_path(path)['COPY_TEST_SPECS']


def check_model_against_specs(ctx, specs):
    from vf.harness import Inconclusive

    for spec in specs:
        m, t, dest_root = spec_world(spec, '/base')
        r = model_run(m, [t])
        want = spec['result']
        if 'exception' in want:
            got = {'exception': sorted(r['errors'] | ({r['ctor_error']} if r['ctor_error'] else set()))}
            ok = got['exception'] == [want['exception']]
        else:
            post = m.copy()
            for k, v in r['writes'].items():
                post.add_file(k, v)
            got = {'files': {k[len(dest_root) :]: v.decode() for k, v in post.files.items() if k.startswith(dest_root + '/')}}
            ok = not r['errors'] and not r['ctor_error'] and got == want
        if not ok:
            raise Inconclusive(f'reference model disagrees with the repo table COPY_TEST_SPECS on {spec}: model says {got}')
        ctx.count('model_specs_agree')


# --------------------------------------------------------------------------------------------------
# real-world plumbing
# --------------------------------------------------------------------------------------------------


def materialise(m, root):
    for d in sorted(m.dirs):
        if d.startswith(root):
            os.makedirs(d, exist_ok=True)
    for p, data in m.files.items():
        if p.startswith(root):
            with open(p, 'wb') as f:
                f.write(data)


def snapshot(root):
    files, dirs = {}, set()
    for dp, dns, fns in os.walk(root):
        dirs.add(dp)
        for fn in fns:
            p = os.path.join(dp, fn)
            with open(p, 'rb') as f:
                files[p] = f.read()
    return files, dirs


class _Jitter:
    """Transparent proxy that yields to the event loop a seeded number of times around every coroutine method
    (and around async-with / async-for steps) of the wrapped FS object and of the streams / part creators /
    listings it hands out.  No wall-clock sleeps."""

    def __init__(self, inner, rng, counter):
        object.__setattr__(self, '_inner', inner)
        object.__setattr__(self, '_rng', rng)
        object.__setattr__(self, '_counter', counter)

    async def _yield(self):
        n = self._rng.choice((0, 0, 1, 1, 2, 3, 6))
        self._counter[0] += n
        for _ in range(n):
            await asyncio.sleep(0)

    def _wrap(self, r):
        if r is None or isinstance(r, (bytes, str, int, bool, float, tuple, list, dict)):
            return r
        if hasattr(r, '__aenter__') or hasattr(r, '__anext__') or hasattr(r, '__aiter__'):
            return _Jitter(r, self._rng, self._counter)
        return r

    def __getattr__(self, name):
        attr = getattr(self._inner, name)
        if asyncio.iscoroutinefunction(attr):
            async def call(*a, **k):
                await self._yield()
                r = await attr(*a, **k)
                await self._yield()
                return self._wrap(r)

            return call
        return attr

    async def __aenter__(self):
        await self._yield()
        r = await self._inner.__aenter__()
        return self if r is self._inner else self._wrap(r)

    async def __aexit__(self, *exc):
        await self._yield()
        return await self._inner.__aexit__(*exc)

    def __aiter__(self):
        it = self._inner.__aiter__()
        return self if it is self._inner else _Jitter(it, self._rng, self._counter)

    async def __anext__(self):
        await self._yield()
        return await self._inner.__anext__()


def run(ctx):
    from concurrent.futures import ThreadPoolExecutor

    from hailtop.aiotools import Copier, Transfer
    from hailtop.aiotools.local_fs import LocalAsyncFS
    from hailtop.aiotools.router_fs import RouterAsyncFS

    specs = load_specs()
    check_model_against_specs(ctx, specs)
    ctx.seen('not_expressible_locally', 'FileAndDirectoryError (source both file and directory)')

    tmp_parent = '/dev/shm' if os.path.isdir('/dev/shm') and os.access('/dev/shm', os.W_OK) else None
    scratch_parent = tempfile.mkdtemp(prefix='verif-c22-', dir=tmp_parent)
    orig_part = LocalAsyncFS.__dict__.get('copy_part_size')
    orig_buf = Copier.BUFFER_SIZE

    def execute(case, pre, root):
        """run the real copier on the materialised pre-state; -> (exception or None, yields)"""
        P, B = case['part_size'], case['buffer_size']
        LocalAsyncFS.copy_part_size = staticmethod(lambda url: P)
        Copier.BUFFER_SIZE = B
        pool = ThreadPoolExecutor(max_workers=case['pool'])
        counter = [0]
        import random as _random

        jrng = _random.Random(case['jitter_seed'])

        async def main():
            transfers = []
            for t in case['transfers']:
                transfers.append(Transfer(t['src'], t['dest'], treat_dest_as=t['mode']))
            arg = transfers[0] if (len(transfers) == 1 and case['single_not_list']) else transfers
            async with RouterAsyncFS(local_kwargs={'thread_pool': pool}, gcs_bucket_allow_list=[]) as rfs:
                fs = _Jitter(rfs, jrng, counter) if case['jitter'] else rfs
                sema = asyncio.Semaphore(case['sema'])
                async with sema:
                    await Copier.copy(fs, sema, arg)

        exc = None
        try:
            try:
                asyncio.run(asyncio.wait_for(main(), 120))
            except asyncio.TimeoutError:
                raise
            except Exception as e:  # noqa: BLE001 - the raised class is the observation
                exc = e
        finally:
            pool.shutdown(wait=True)  # no straggling writes after the snapshot
            if orig_part is None:
                try:
                    del LocalAsyncFS.copy_part_size
                except AttributeError:
                    pass
            else:
                LocalAsyncFS.copy_part_size = orig_part
            Copier.BUFFER_SIZE = orig_buf
        return exc, counter[0]

    def describe(case, pre):
        return {
            'part_size': case['part_size'], 'buffer_size': case['buffer_size'], 'sema': case['sema'], 'pool': case['pool'],
            'jitter': case['jitter'], 'transfers': case['transfers'],
            'pre_files': {k: len(v) for k, v in sorted(pre.files.items())}, 'pre_dirs': sorted(d for d in pre.dirs if len(d) > len(scratch_parent)),
        }

    def evaluate(case, pre, root, dst_root, phase):
        model = model_run(pre, case['transfers'])
        # the model's paths are the real paths: `root` is a fresh scratch directory
        materialise(pre, root)
        try:
            exc, yields = execute(case, pre, root)
        except asyncio.TimeoutError:
            ctx.inconclusive_because('a copy did not finish within the 120 s watchdog (hang; not decided on wall-clock time)')
            return
        files, dirs = snapshot(dst_root)
        P = case['part_size']
        expected_errors = set(model['errors'])
        if model['ctor_error']:
            expected_errors = {model['ctor_error']}
        got_name = type(exc).__name__ if exc is not None else None
        ctx.count('yields_injected', yields)
        for t in case['transfers']:
            ctx.seen('modes_seen', t['mode'])
        outcome = got_name or 'success'
        ctx.seen('outcome_classes', outcome)
        # ---- abstraction key
        shape = []
        for t, pt in zip(case['transfers'], model['per_transfer']):
            if 'ctor_error' in pt:
                shape.append((t['mode'], 'ctor', pt['ctor_error']))
                continue
            shape.append((
                t['mode'], isinstance(t['src'], list), tuple(s['src_kind'] for s in pt['sources']), pre.kind(t['dest']), t['dest'].endswith('/'),
                tuple(sorted(e for s in pt['sources'] for e in s['errors'])),
                tuple(sorted({(pre.kind(k) or 'new') for s in pt['sources'] for k in s['writes']})),
            ))
        mp = sorted({(min(-(-len(v) // P), 9), len(v) % P == 0) for v in model['writes'].values() if len(v) > P})
        key = (tuple(shape), tuple(mp), case['sema'] == 1, case['jitter'])
        nontrivial = bool(model['writes']) or bool(expected_errors)
        ctx.case(sample=describe(case, pre) if ctx.evaluations < 3 else {'transfers': case['transfers'], 'P': P}, key=key, nontrivial=nontrivial)

        def witness(extra):
            w = describe(case, pre)
            w.update({'expected_errors': sorted(expected_errors), 'raised': repr(exc)[:300], 'phase': phase,
                      'actual_files': {k: len(v) for k, v in sorted(files.items())}, 'actual_dirs': sorted(dirs)})
            w.update(extra)
            return w

        pre_files = {k: v for k, v in pre.files.items() if k.startswith(dst_root + '/')}
        pre_dirs = {d for d in pre.dirs if d == dst_root or d.startswith(dst_root + '/')}
        ctx.count(f'runs_{phase}')
        if expected_errors:
            ctx.count('runs_error')
            ctx.count(f'runs_error_{phase}')
            if exc is None:
                ctx.violation(f'error/not-raised/{sorted(expected_errors)[0]}', f'copy succeeded but the rules say {sorted(expected_errors)}', witness({}))
                return
            if got_name not in expected_errors:
                ctx.violation(f'error/wrong-class/{got_name}-for-{sorted(expected_errors)[0]}', f'copy raised {exc!r} but the rules say {sorted(expected_errors)}', witness({}))
                return
            ctx.count(f'error_{got_name}')
            # nothing outside the modelled write set may have been touched
            allowed_dirs = set(pre_dirs)
            for k in model['writes']:
                a = os.path.dirname(k)
                while a.startswith(dst_root) and a != dst_root:
                    allowed_dirs.add(a)
                    a = os.path.dirname(a)
            for p, data in files.items():
                if p in model['writes']:
                    continue
                if p not in pre_files:
                    ctx.violation('error-run/unexpected-path-created', f'{p} created by a failing copy outside the modelled targets', witness({'path': p}))
                elif pre_files[p] != data:
                    ctx.violation('error-run/bystander-file-modified', f'{p} is not a copy target but changed', witness({'path': p}))
            for p in pre_files:
                if p not in files and p not in model['writes']:
                    ctx.violation('error-run/bystander-file-removed', f'{p} is not a copy target but disappeared', witness({'path': p}))
            for d in dirs:
                if d not in allowed_dirs:
                    ctx.violation('error-run/unexpected-path-created', f'directory {d} created outside the modelled targets', witness({'path': d}))
            return

        ctx.count('runs_success')
        if exc is not None:
            ctx.violation(f'error/spurious/{got_name}', f'copy raised {exc!r} but the rules say it succeeds', witness({}))
            return
        exp_files = dict(pre_files)
        exp_files.update(model['writes'])
        exp_dirs = set(pre_dirs)
        for k in model['writes']:
            a = os.path.dirname(k)
            while a.startswith(dst_root) and a != dst_root:
                exp_dirs.add(a)
                a = os.path.dirname(a)
        missing = [p for p in exp_files if p not in files]
        extra = [p for p in files if p not in exp_files]
        for p in missing:
            moved = [q for q in extra if files[q] == exp_files[p]]
            if moved and exp_files[p]:
                ctx.violation('dest/misplaced', f'expected {p} but its bytes are at {moved[0]}', witness({'expected_path': p, 'found_at': moved[0]}))
            else:
                ctx.violation('copy/file-missing', f'expected {p} ({len(exp_files[p])} bytes) was not created', witness({'expected_path': p}))
        for p in extra:
            if not any(files[p] == exp_files[m_] and exp_files[m_] for m_ in missing):
                ctx.violation('copy/unexpected-path-created', f'{p} was created but is not a modelled target', witness({'path': p}))
        for d in dirs - exp_dirs:
            ctx.violation('copy/unexpected-path-created', f'directory {d} was created but is not needed by any modelled target', witness({'path': d}))
        for d in exp_dirs - dirs:
            ctx.violation('copy/directory-missing', f'directory {d} is missing', witness({'path': d}))
        for p, want in exp_files.items():
            if p not in files:
                continue
            got = files[p]
            written = p in model['writes']
            if got == want:
                if written:
                    ctx.count('files_verified')
                    ctx.count('bytes_verified', len(want))
                    if len(want) > P:
                        ctx.count('multipart_files_verified')
                        ctx.count('parts_verified', -(-len(want) // P))
                        if len(want) % P == 0:
                            ctx.count('multipart_exact_multiple_verified')
                    if p in pre_files:
                        ctx.count('overwrites_verified')
                else:
                    ctx.count('bystanders_verified')
                continue
            if not written:
                ctx.violation('copy/bystander-file-modified', f'{p} is not a copy target but changed', witness({'path': p}))
                continue
            multi = len(want) > P
            if multi:
                n_parts = -(-len(want) // P)
                bad = [i for i in range(n_parts) if got[i * P : (i + 1) * P] != want[i * P : (i + 1) * P]]
                if len(got) != len(want) and bad == [n_parts - 1]:
                    mech = 'multipart/last-part-size-wrong'
                elif len(got) != len(want):
                    mech = 'multipart/size-mismatch'
                elif bad == [n_parts - 1]:
                    mech = 'multipart/last-part-content-wrong'
                else:
                    mech = 'multipart/part-content-wrong'
                detail = {'bad_parts': bad[:10], 'n_parts': n_parts, 'rem': len(want) % P}
            else:
                if len(got) > len(want) and got.startswith(want):
                    mech = 'copy/not-truncated'
                elif len(got) < len(want) and want.startswith(got):
                    mech = 'copy/short'
                else:
                    mech = 'copy/content-mismatch'
                detail = {}
            detail.update({'path': p, 'want_len': len(want), 'got_len': len(got), 'want_head': want[:48], 'got_head': got[:48]})
            ctx.violation(mech, f'{p}: {len(got)} bytes differ from the source ({len(want)} bytes), part size {P}', witness(detail))

    # ---------------------------------------------------------------------------------------------
    try:
        # ---- phase specs: the repo's own configuration grid through the real copier ------------
        for i, rng in ctx.cases(len(specs), 'specs'):
            if i % ctx.n_shards != ctx.shard and ctx.replay is None:
                continue
            root = tempfile.mkdtemp(prefix='s-', dir=scratch_parent)
            try:
                pre, t, dst_root = spec_world(specs[i], root)
                case = {
                    'transfers': [t], 'part_size': rng.choice([1, 2, 3, 4, 5, 8, 11, 64]), 'buffer_size': rng.choice([1, 2, 3, 7, 64]),
                    'sema': rng.randrange(1, 9), 'pool': rng.randrange(1, 9), 'jitter': rng.random() < 0.5, 'jitter_seed': rng.randrange(1 << 30),
                    'single_not_list': rng.random() < 0.5,
                }
                evaluate(case, pre, root, dst_root, 'specs')
            finally:
                shutil.rmtree(root, ignore_errors=True)

        # ---- phase random -----------------------------------------------------------------------
        N = ctx.pick(260, 1800)  # per shard
        for i, rng in ctx.cases(N, 'random'):
            root = tempfile.mkdtemp(prefix='r-', dir=scratch_parent)
            try:
                case, pre = gen_case(rng, root)
                evaluate(case, pre, root, root + '/dst', 'random')
            finally:
                shutil.rmtree(root, ignore_errors=True)
    finally:
        shutil.rmtree(scratch_parent, ignore_errors=True)


# --------------------------------------------------------------------------------------------------
# workload generator
# --------------------------------------------------------------------------------------------------

NAMES = ['a', 'b', 'c', 'd', 'e', 'f.txt', 'g h', 'x']


def gen_size(rng, P, B):
    c = rng.random()
    if c < 0.12:
        return 0
    if c < 0.2:
        return 1
    if c < 0.72:
        k = rng.choice([1, 1, 2, 2, 2, 3, 3, 4, 6])
        return max(0, k * P + rng.choice([-1, 0, 0, 1]))
    if c < 0.82 and B <= 64:
        k = rng.choice([1, 2, 3])
        return max(0, min(8 * P + 1, k * B + rng.choice([-1, 0, 1])))
    if c < 0.97:
        return rng.randrange(0, 5 * P + 2)
    return rng.randrange(0, 25 * P + 2)


def gen_tree(rng, m, base, P, B, depth, names):
    """populate model dir `base` with a small random tree"""
    m.add_dir(base)
    n = rng.choice([0, 1, 1, 2, 2, 3]) if depth else rng.choice([1, 2, 3, 4])
    for name in rng.sample(names, min(n, len(names))):
        p = base + '/' + name
        if depth < 2 and rng.random() < 0.35:
            gen_tree(rng, m, p, P, B, depth + 1, names)
        else:
            m.add_file(p, rng.randbytes(gen_size(rng, P, B)))


def gen_case(rng, root):
    P = rng.choice([1, 1, 2, 3, 4, 5, 7, 8, 16, 17, 32, 64])
    B = rng.choice([1, 2, 3, 5, 8, 16, 64, 64, 8 * 1024 * 1024])
    pre = MFS()
    src_root, dst_root = root + '/src', root + '/dst'
    pre.add_dir(dst_root)
    gen_tree(rng, pre, src_root, P, B, 0, NAMES)
    src_files = sorted(k for k in pre.files if k.startswith(src_root + '/'))
    src_dirs = sorted(d for d in pre.dirs if d.startswith(src_root + '/'))
    n_transfers = rng.choice([1, 1, 1, 2, 2, 3, 4])
    transfers = []

    def one_transfer(pre, ti):
        D = f'{dst_root}/t{ti}'
        pre.add_dir(D)
        if rng.random() < 0.5:
            pre.add_file(D + '/keep', rng.randbytes(rng.randrange(0, 5)))
        mode = rng.choice([DEST_DIR, DEST_IS_TARGET, INFER_DEST])

        def pick_source():
            c = rng.random()
            if c < 0.025:
                return src_root + '/' + rng.choice(['nope', 'nope', 'a/nope', 'zz/'])
            if c < 0.5 and src_files:
                s = rng.choice(src_files)
                return s + ('/' if rng.random() < 0.05 else '')
            if src_dirs:
                s = rng.choice(src_dirs)
                return s + ('/' if rng.random() < 0.3 else '')
            return src_root + ('/' if rng.random() < 0.3 else '')

        if rng.random() < 0.3:
            srcs, seen = [], set()
            for _ in range(rng.choice([2, 2, 3])):
                s = pick_source()
                b = os.path.basename(norm(s))
                if b in seen:
                    continue
                seen.add(b)
                srcs.append(s)
            src = srcs
            if mode == DEST_IS_TARGET and rng.random() < 0.8:
                mode = rng.choice([DEST_DIR, INFER_DEST])
        else:
            src = pick_source()
        # destination and its own state
        dk = rng.choice(['root', 'root', 'child-absent', 'child-absent', 'child-file', 'child-dir', 'child-dir', 'deep-absent'])
        if dk == 'root':
            dest = D
        elif dk == 'child-absent':
            dest = D + '/' + rng.choice(['x', 'new', 'a'])
        elif dk == 'child-file':
            dest = D + '/' + rng.choice(['x', 'a', 'b'])
            pre.add_file(dest, rng.randbytes(rng.choice([0, 3, 200, 900])))
        elif dk == 'child-dir':
            dest = D + '/' + rng.choice(['x', 'a', 'sub'])
            pre.add_dir(dest)
        else:
            dest = D + '/n1/n2'
        if rng.random() < 0.3:
            dest += '/'
        t = {'src': src, 'dest': dest, 'mode': mode}
        # pre-populate what the copy will land on (overwrite / merge / conflict / bystanders)
        ce, emode = model_ctor(src, dest, mode)
        if ce is None:
            for s in src if isinstance(src, list) else [src]:
                o = model_source(pre, s, dest, emode, isinstance(src, list))
                fd = o.get('full_dest')
                if fd is None or o['errors']:
                    continue
                fdn = norm(fd)
                # only if every ancestor of the landing point is (or can become) a directory
                anc_ok = True
                a = os.path.dirname(fdn)
                while a and a != '/':
                    if pre.kind(a) == 'file':
                        anc_ok = False
                    a = os.path.dirname(a)
                if not anc_ok or not fdn.startswith(D + '/'):
                    continue
                c = rng.random()
                if o['src_kind'] == 'file':
                    if pre.kind(fdn) is None and pre.kind(dest) == 'dir':
                        if c < 0.3:
                            pre.add_file(fdn, rng.randbytes(rng.choice([0, 1, 50, 800])))  # overwritten (maybe longer than the source)
                        elif c < 0.36:
                            pre.add_dir(fdn)  # file onto directory
                elif pre.kind(fdn) in (None, 'dir') and (pre.kind(fdn) == 'dir' or pre.kind(dest) == 'dir'):
                    if pre.kind(fdn) is None and c < 0.1 and pre.kind(dest) == 'dir':
                        pre.add_file(fdn, b'in the way')  # directory onto file
                        continue
                    if pre.kind(fdn) is None and c < 0.5:
                        continue
                    for rel, data in sorted(pre.files_under(s).items()):
                        target = fdn + '/' + rel
                        r = rng.random()
                        blocked = False
                        a = os.path.dirname(target)
                        while a != fdn and a.startswith(fdn):
                            if pre.kind(a) == 'file':
                                blocked = True
                            a = os.path.dirname(a)
                        if blocked or pre.kind(target) is not None:
                            continue
                        if r < 0.3:
                            pre.add_file(target, rng.randbytes(rng.choice([0, 1, len(data) + 7, 2 * len(data) + 1])))
                        elif r < 0.33:
                            pre.add_dir(target)  # conflict: directory where a file must go
                        elif r < 0.36 and os.path.dirname(target) != fdn and pre.kind(os.path.dirname(target)) is None:
                            pre.add_file(os.path.dirname(target), b'blocker')  # conflict: file where a directory must go
                    if rng.random() < 0.5 and pre.kind(fdn + '/bystander') is None and pre.kind(fdn) != 'file':
                        pre.add_file(fdn + '/bystander', rng.randbytes(4))
        return t

    # error runs decide less (sibling transfers are cancelled midway): keep them to roughly a quarter of the runs
    accept_err = 0.3 if n_transfers == 1 else 0.12
    for ti in range(n_transfers):
        for _ in range(6):
            cand = pre.copy()
            t = one_transfer(cand, ti)
            r = model_run(cand, [t])
            if not (r['errors'] or r['ctor_error']) or rng.random() < accept_err:
                break
        pre = cand
        transfers.append(t)
    case = {
        'transfers': transfers, 'part_size': P, 'buffer_size': B, 'sema': rng.randrange(1, 9), 'pool': rng.randrange(1, 9),
        'jitter': rng.random() < 0.6, 'jitter_seed': rng.randrange(1 << 30), 'single_not_list': rng.random() < 0.5,
    }
    return case, pre


# --------------------------------------------------------------------------------------------------
# Validation record (scratch worktree /tmp/scratch-fs at HEAD 78296c9bd, quick tier, seed 0; removed afterwards)
#
# Unchanged tree: HELD for VERIF_SEED 0..4 in both tiers (no violation, no known finding).
#
# Breaks tried, one at a time (file: edit -> result, first mechanism keys printed):
#  1. copier.py  this_part_size = rem - 1 for the last part (DESIGN: off-by-one in the last part's size)
#        -> exit 1  multipart/last-part-size-wrong
#  2. copier.py  this_part_size = rem if i == n_parts - 1 else part_size   (own, subtle: last part empty ONLY when the
#                size is an exact multiple of the part size)
#        -> exit 1  multipart/last-part-size-wrong
#  3. copier.py  Transfer.__init__: INFER_DEST + trailing slash => DEST_IS_TARGET (DESIGN: trailing slash treated as target)
#        -> exit 1  dest/misplaced, copy/file-missing, copy/unexpected-path-created, error/spurious/IsADirectoryError, ...
#  4. copier.py  _full_dest: url_basename(self.src) without rstrip('/') (own, subtle: wrong only for sources with a trailing slash)
#        -> exit 1  dest/misplaced, copy/file-missing, error/not-raised/NotADirectoryError, ...
#  5. copier.py  _copy_part reads every buffer of a part from the part's start (own, subtle: wrong only when part > buffer)
#        -> exit 1  multipart/part-content-wrong
#  6. local_fs.py multi_part_create opens the destination 'ab' instead of truncating (own: wrong only when overwriting a longer file)
#        -> exit 1  multipart/size-mismatch, multipart/last-part-size-wrong
#  7. copier.py  SourceCopier.copy: FileNotFoundError no longer raised for a non-directory source with a trailing slash
#        -> exit 1  error/not-raised/FileNotFoundError
#  8. local_fs.py LocalMultiPartCreate.create_part seeks one byte early for the last of >= 3 parts (own, subtle)
#        -> exit 1  multipart/size-mismatch, multipart/last-part-size-wrong
#  9. copier.py  `size <= part_size` -> `size < part_size` (a file of exactly one part size goes through multi-part with one part)
#        -> exit 0: behaviour-preserving mutant (destination still byte-identical); silence is the correct answer
#
# Observations that are NOT C22 violations (reported to the lead):
#  * Copier.copy(fs, sema, [t1, t2], return_exceptions=True) copies nothing: bounded_gather2(return_exceptions=True,
#    cancel_on_error=True) raises ValueError, which is stored in the CopyReport.  No production caller passes
#    return_exceptions=True (copy.py and hailtop/fs/router_fs.py use the default), so the monitor drives the default path.
#  * A missing source *below a regular file* (src/a/nope with src/a a file) raises NotADirectoryError (ENOTDIR from
#    os.stat) rather than FileNotFoundError; the rules do not say which, the model accepts either.
# --------------------------------------------------------------------------------------------------
