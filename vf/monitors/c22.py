"""C22 Copy tool reproduces sources exactly.

Real code: Copier.copy / SourceCopier / Transfer (copier.py) over RouterAsyncFS -> LocalAsyncFS /
LocalMultiPartCreate, exactly as hailtop/aiotools/copy.py drives it (list of transfers, caller holds one
semaphore slot, return_exceptions=False), on mkdtemp scratch trees, in a real asyncio loop with a real thread
pool.  The part size (LocalAsyncFS.copy_part_size) and Copier.BUFFER_SIZE are patched down to 1..64 bytes so that
tiny files take the multi-part path (size > part size) with several buffers per part.

Oracle: a reference model of the destination rules (Transfer constructor + SourceCopier._full_dest as documented
by the repo's own COPY_TEST_SPECS table, which the model is checked against at start-up):
  * source: file (no trailing slash) / directory / otherwise FileNotFoundError;
  * DEST_DIR, a list of sources, a trailing slash under INFER_DEST, or INFER_DEST onto an existing directory
    -> copy to dest/basename(src);  DEST_IS_TARGET or INFER_DEST onto a file / a missing path -> copy to dest;
  * file onto a directory -> IsADirectoryError; directory onto a file / through a file -> NotADirectoryError;
    DEST_IS_TARGET with several sources -> NotADirectoryError (at construction).
After a run that the model says succeeds, the destination root must contain exactly the pre-existing entries
plus the modelled copies, byte for byte (directories too: no other path may appear).  When the model says the
run fails, Copier.copy must raise one of the modelled exception classes, and nothing outside the modelled write
set may have been touched (sibling transfers are cancelled midway, so their targets may be partial or absent).

"For every set of transfers": the verdict of one Copier.copy call depends only on the tree that exists when the call
starts.  Phase history therefore runs SEQUENCES of 2-6 copies inside one process on the same path strings - half of
them through one long-lived event loop / thread pool / RouterAsyncFS (as hailtop/fs/router_fs.py::RouterFS.copy does),
half with a fresh loop and FS per copy (as copy.py does) - while the harness changes the tree between the copies the
way a caller, a cleanup job or another process would (destination directories made by an earlier copy removed, emptied,
replaced by a file; destination files removed, rewritten, replaced by a directory; source files rewritten with the same
or another length, added, removed, file <-> directory).  Later copies mostly repeat the (source, destination) strings
of earlier ones, possibly under another mode or trailing slash.  Every copy is judged by the same model and the same
byte-for-byte comparison against the tree as it is at its start (the scratch tree is compared with the model tree
before every copy), so anything the copier remembers from an earlier call (created directories, destination type,
source type / size / listing) shows as a spurious or missing error, a missing, misplaced or stale file.

Not expressible between local paths: a source that is both file and directory (FileAndDirectoryError).
"""
import asyncio
import os
import shutil
import tempfile

PID = 'C22'
LEVEL = 'exploration'
RULE = (
    'phase specs: the 324 configurations of the repo table COPY_TEST_SPECS (src type x dest type x dest basename x mode x slashes), '
    'each run through the real copier with seeded part/buffer sizes; phase random: 1-4 simultaneous transfers, each with its own '
    'destination root (pre-state absent/file/dir, with overlapping, conflicting and unrelated pre-existing entries), 1-3 sources per '
    'transfer (file, dir, nested, missing, trailing slash), all three treat_dest_as modes, file sizes drawn around multiples of the '
    'part size (1..64) and buffer size (1..64), semaphore 1-8, thread pool 1-8, and an optional yielding FS wrapper; '
    'phase history: sequences of 2-6 Copier.copy calls in one process over the same path strings (1-3 transfers per call, each in its own '
    'slot directory; later calls mostly repeat earlier (source, destination) strings, sometimes with another mode / trailing slash), with '
    '0-3 seeded mutations of the destination and source trees between calls (13 kinds: remove / empty / retype destination directories '
    'and files, rewrite / add / remove / retype sources), through one shared event loop + thread pool + RouterAsyncFS or a fresh one per call; '
    'every call is judged against the model of the tree at its start; after a failing call the harness restores the pre-state. '
    'Distinct by (per-transfer mode, source kinds, destination state, slashes, outcome; multi-part shape); non-trivial when at least '
    'one file is copied or an error is expected.'
)
ASSUMPTIONS = [
    'the reference model below is the documented destination rule set (it is checked against the repo table COPY_TEST_SPECS at start-up)',
    'the sandbox local filesystem (tmpfs / ext4) behaves as POSIX for open/stat/scandir/makedirs',
    'thread scheduling is not controlled: interleavings vary with semaphore size, pool size and the yielding wrapper, not enumerated',
    'FileAndDirectoryError (source both file and directory) cannot occur between local paths and is not exercised',
    'phase history: the tree changes only BETWEEN Copier.copy calls (never during one); after a failing call the harness puts the tree back to '
    'the state before the call, so partial leftovers of failed copies are not carried into later calls',
    'a directory source without any file whose destination lies below a regular file: success and NotADirectoryError are both accepted '
    '(nothing to copy; the rules do not say whether the destination is looked at)',
]
TRUSTED_BASE = ['reference model in vf/monitors/c22.py', 'COPY_TEST_SPECS table of the repository (cross-check only)', 'local filesystem of the sandbox']
SHARDS = {'quick': 4, 'thorough': 16}
TIMEOUT = {'quick': 900, 'thorough': 1800}
FLOORS = {
    'model_specs_agree': 324, 'runs_success': 300, 'runs_error': 60, 'files_verified': 1000, 'multipart_files_verified': 150,
    'multipart_exact_multiple_verified': 20, 'outcome_classes': 4, 'modes_seen': 3,
    # phase history (about half of the minimum seen over quick seeds 0..4)
    'runs_history': 350, 'hist_later_steps_verified': 260, 'hist_steps_shared_loop_and_fs': 170, 'hist_steps_fresh_loop_and_fs': 165,
    'hist_files_into_dir_first_created_by_copier': 500, 'hist_files_into_recreated_dir': 100, 'hist_recopies_after_target_removed': 120,
    'hist_copies_after_dest_state_changed': 130, 'hist_error_after_dest_state_changed': 20, 'hist_recopies_of_changed_source': 25,
    'hist_source_kind_changed_copies': 5, 'hist_mutation_kinds': 10, 'hist_dest_transitions': 3, 'hist_sessions': 2,
}

DEST_DIR, DEST_IS_TARGET, INFER_DEST = 'dest_dir', 'dest_is_target', 'infer_dest'


# --------------------------------------------------------------------------------------------------
# reference model
# --------------------------------------------------------------------------------------------------


class MFS:
    """model file tree: absolute normalised paths"""

    def __init__(self):
        self.files = {}
        self.dirs = set()

    def copy(self):
        m = MFS()
        m.files = dict(self.files)
        m.dirs = set(self.dirs)
        return m

    def kind(self, p):
        p = norm(p)
        if p in self.files:
            return 'file'
        if p in self.dirs:
            return 'dir'
        return None

    def add_dir(self, p):
        p = norm(p)
        while p and p != '/':
            assert p not in self.files, p
            self.dirs.add(p)
            p = os.path.dirname(p)

    def add_file(self, p, data):
        p = norm(p)
        assert p not in self.dirs, p
        self.add_dir(os.path.dirname(p))
        self.files[p] = data

    def files_under(self, p):
        p = norm(p)
        pre = p + '/'
        return {k[len(pre) :]: v for k, v in self.files.items() if k.startswith(pre)}

    def remove(self, p):
        """remove the file p, or the directory p with everything below it"""
        p = norm(p)
        pre = p + '/'
        self.files = {k: v for k, v in self.files.items() if k != p and not k.startswith(pre)}
        self.dirs = {d for d in self.dirs if d != p and not d.startswith(pre)}

    def under(self, root):
        """(files, dirs) at or below root"""
        pre = root + '/'
        return ({k: v for k, v in self.files.items() if k.startswith(pre)}, {d for d in self.dirs if d == root or d.startswith(pre)})


def norm(p):
    q = p.rstrip('/')
    return q if q else '/'


def join(a, b):
    return a + b if a.endswith('/') else a + '/' + b


def model_ctor(src, dest, mode):
    """Transfer.__init__: -> (error class name | None, effective mode)"""
    if mode not in (DEST_DIR, DEST_IS_TARGET, INFER_DEST):
        return 'ValueError', mode
    if mode == DEST_IS_TARGET and isinstance(src, list):
        return 'NotADirectoryError', mode
    if mode == INFER_DEST and dest.endswith('/'):
        mode = DEST_DIR
    return None, mode


def model_source(m, src, dest, mode, src_is_list):
    """One source of one transfer against model tree m (pre-state).
    -> dict(errors=set of class names, writes={target: bytes}, file_errors={target: cls})"""
    out = {'errors': set(), 'writes': {}, 'src_kind': None}
    trailing = src.endswith('/')
    k = m.kind(src)
    is_file = (not trailing) and k == 'file'
    is_dir = k == 'dir'
    if not is_file and not is_dir:
        out['errors'].add('FileNotFoundError')
        out['src_kind'] = 'missing' if k is None else 'file-with-slash'
        anc = os.path.dirname(norm(src))
        while anc and anc != '/':
            if m.kind(anc) == 'file':
                # a missing source *below a regular file*: POSIX answers ENOTDIR, the rules do not say which of the
                # two classes wins => either is accepted (unspecified, not a violation)
                out['errors'].add('NotADirectoryError')
                out['src_kind'] = 'missing-below-file'
                break
            anc = os.path.dirname(anc)
        return out
    out['src_kind'] = 'file' if is_file else 'dir'
    # destination type as the copier sees it
    if mode == INFER_DEST:
        dest_type = 'dir' if src_is_list else m.kind(dest)
    else:
        dest_type = None
    if mode == DEST_DIR or (mode == INFER_DEST and dest_type == 'dir'):
        full_dest, full_type = join(dest, os.path.basename(norm(src))), None
    else:
        full_dest = dest
        full_type = dest_type if mode == INFER_DEST else ('dir' if dest.endswith('/') else None)
    out['full_dest'] = full_dest
    if is_file:
        if full_type == 'dir':
            out['errors'].add('IsADirectoryError')
            return out
        planned = {norm(full_dest): m.files[norm(src)]}
    else:
        if full_type == 'file':
            out['errors'].add('NotADirectoryError')
            return out
        planned = {norm(join(full_dest, rel)): data for rel, data in m.files_under(src).items()}
        if not planned:
            # a directory source WITHOUT any file, whose destination lies below a regular file: there is nothing to
            # copy, so "directory through a file -> NotADirectoryError" has no file to fail on; the copier notices the
            # file only when it looks at the destination (INFER_DEST stats it: ENOTDIR).  The rules do not say which
            # => success and NotADirectoryError are both accepted (unspecified, not a violation)
            anc = os.path.dirname(norm(dest))
            while anc and anc != '/':
                if m.kind(anc) == 'file':
                    out['may_errors'] = {'NotADirectoryError'}
                    break
                anc = os.path.dirname(anc)
    for target, data in planned.items():
        err = None
        anc = os.path.dirname(target)
        while anc and anc != '/':
            if m.kind(anc) == 'file':
                err = 'NotADirectoryError'
                break
            anc = os.path.dirname(anc)
        if err is None and m.kind(target) == 'dir':
            err = 'IsADirectoryError'
        if err:
            out['errors'].add(err)
        out['writes'][target] = data  # on error runs: may or may not have happened
    return out


def model_run(pre, transfers):
    """transfers: list of dict(src, dest, mode).  -> dict(ctor_error, errors, writes, per_transfer)"""
    res = {'ctor_error': None, 'errors': set(), 'may_errors': set(), 'writes': {}, 'per_transfer': []}
    for t in transfers:
        ce, mode = model_ctor(t['src'], t['dest'], t['mode'])
        if ce:
            res['ctor_error'] = ce
            res['per_transfer'].append({'ctor_error': ce})
            return res
        srcs = t['src'] if isinstance(t['src'], list) else [t['src']]
        per = []
        for s in srcs:
            o = model_source(pre, s, t['dest'], mode, isinstance(t['src'], list))
            per.append(o)
            res['errors'] |= o['errors']
            res['may_errors'] |= o.get('may_errors', set())
            for k, v in o['writes'].items():
                assert k not in res['writes'] or res['writes'][k] == v, ('generator produced overlapping targets', k)
                res['writes'][k] = v
        res['per_transfer'].append({'mode': mode, 'sources': per})
    return res


# --------------------------------------------------------------------------------------------------
# cross-check of the model against the repo's own table
# --------------------------------------------------------------------------------------------------


def spec_world(spec, base):
    """The pre-state and transfer that test/hailtop/inter_cloud/generate_copy_test_specs.py::run_test_spec builds."""
    m = MFS()
    src_base, dest_base = base + '/src/', base + '/dest/'
    m.add_dir(src_base)
    m.add_dir(dest_base)
    m.add_file(dest_base + 'keep', b'')

    def data(name, base_, typ):
        if typ == 'file':
            m.add_file(base_ + 'a', f'{name}/a'.encode())
        elif typ == 'dir':
            m.add_dir(base_ + 'a')
            if name == 'src':
                m.add_file(base_ + 'a/file1', b'src/a/file1')
            m.add_dir(base_ + 'a/subdir')
            m.add_file(base_ + 'a/subdir/file2', f'{name}/a/subdir/file2'.encode())
            if name == 'dest':
                m.add_file(base_ + 'a/file3', b'dest/a/file3')

    data('src', src_base, spec['src_type'])
    data('dest', dest_base, spec['dest_type'])
    src = src_base + 'a' + ('/' if spec['src_trailing_slash'] else '')
    dest = dest_base + spec['dest_basename'] if spec['dest_basename'] else dest_base
    if spec['dest_trailing_slash']:
        if not dest.endswith('/'):
            dest += '/'
    else:
        dest = dest.rstrip('/')
    return m, {'src': src, 'dest': dest, 'mode': spec['treat_dest_as']}, norm(dest_base)


def load_specs():
    import runpy

    repo = os.environ.get('VERIF_REPO', '/repo')
    path = os.path.join(repo, 'hail', 'python', 'test', 'hailtop', 'inter_cloud', 'copy_test_specs.py')
    return runpy.run_path(path)['COPY_TEST_SPECS']


def check_model_against_specs(ctx, specs):
    from vf.harness import Inconclusive

    for spec in specs:
        m, t, dest_root = spec_world(spec, '/base')
        r = model_run(m, [t])
        want = spec['result']
        if 'exception' in want:
            got = {'exception': sorted(r['errors'] | ({r['ctor_error']} if r['ctor_error'] else set()))}
            ok = got['exception'] == [want['exception']]
        else:
            post = m.copy()
            for k, v in r['writes'].items():
                post.add_file(k, v)
            got = {'files': {k[len(dest_root) :]: v.decode() for k, v in post.files.items() if k.startswith(dest_root + '/')}}
            ok = not r['errors'] and not r['ctor_error'] and got == want
        if not ok:
            raise Inconclusive(f'reference model disagrees with the repo table COPY_TEST_SPECS on {spec}: model says {got}')
        ctx.count('model_specs_agree')


# --------------------------------------------------------------------------------------------------
# real-world plumbing
# --------------------------------------------------------------------------------------------------


def materialise(m, root):
    for d in sorted(m.dirs):
        if d.startswith(root):
            os.makedirs(d, exist_ok=True)
    for p, data in m.files.items():
        if p.startswith(root):
            with open(p, 'wb') as f:
                f.write(data)


def snapshot(root):
    files, dirs = {}, set()
    for dp, dns, fns in os.walk(root):
        dirs.add(dp)
        for fn in fns:
            p = os.path.join(dp, fn)
            with open(p, 'rb') as f:
                files[p] = f.read()
    return files, dirs


def apply_ops_model(m, ops):
    for o in ops:
        if o['op'] == 'rm':
            assert m.kind(o['path']) is not None, o
            m.remove(o['path'])
        elif o['op'] == 'mkdir':
            m.add_dir(o['path'])
        else:
            m.add_file(o['path'], o['data'])


def apply_ops_real(ops):
    for o in ops:
        p = o['path']
        if o['op'] == 'rm':
            if os.path.isdir(p) and not os.path.islink(p):
                shutil.rmtree(p)
            else:
                os.remove(p)
        elif o['op'] == 'mkdir':
            os.makedirs(p, exist_ok=True)
        else:
            os.makedirs(os.path.dirname(p), exist_ok=True)
            with open(p, 'wb') as f:
                f.write(o['data'])


def describe_mutations(mutations):
    return [{'kind': mu['kind'], 'ops': [(o['op'], o['path']) + ((len(o['data']),) if 'data' in o else ()) for o in mu['ops']]} for mu in mutations]


def tree_diff(root, m):
    """'' when the real tree below root is exactly the model tree, else a description"""
    files, dirs = snapshot(root)
    mf, md = m.under(root)
    if files == mf and dirs == md:
        return ''
    return repr({
        'files_only_real': sorted(set(files) - set(mf))[:5], 'files_only_model': sorted(set(mf) - set(files))[:5],
        'files_differ': sorted(k for k in files if k in mf and files[k] != mf[k])[:5],
        'dirs_only_real': sorted(dirs - md)[:5], 'dirs_only_model': sorted(md - dirs)[:5],
    })


def restore(root, m):
    """bring the real tree below root back to the model tree, touching only what differs"""
    files, dirs = snapshot(root)
    mf, md = m.under(root)
    for p in files:
        if p not in mf:
            os.remove(p)
    for d in sorted(dirs - md, key=len, reverse=True):
        os.rmdir(d)
    for d in sorted(md - dirs, key=len):
        os.makedirs(d, exist_ok=True)
    for p, data in mf.items():
        if files.get(p) != data:
            with open(p, 'wb') as f:
                f.write(data)


class _Jitter:
    """Transparent proxy that yields to the event loop a seeded number of times around every coroutine method
    (and around async-with / async-for steps) of the wrapped FS object and of the streams / part creators /
    listings it hands out.  No wall-clock sleeps."""

    def __init__(self, inner, rng, counter):
        object.__setattr__(self, '_inner', inner)
        object.__setattr__(self, '_rng', rng)
        object.__setattr__(self, '_counter', counter)

    async def _yield(self):
        n = self._rng.choice((0, 0, 1, 1, 2, 3, 6))
        self._counter[0] += n
        for _ in range(n):
            await asyncio.sleep(0)

    def _wrap(self, r):
        if r is None or isinstance(r, (bytes, str, int, bool, float, tuple, list, dict)):
            return r
        if hasattr(r, '__aenter__') or hasattr(r, '__anext__') or hasattr(r, '__aiter__'):
            return _Jitter(r, self._rng, self._counter)
        return r

    def __getattr__(self, name):
        attr = getattr(self._inner, name)
        if asyncio.iscoroutinefunction(attr):
            async def call(*a, **k):
                await self._yield()
                r = await attr(*a, **k)
                await self._yield()
                return self._wrap(r)

            return call
        return attr

    async def __aenter__(self):
        await self._yield()
        r = await self._inner.__aenter__()
        return self if r is self._inner else self._wrap(r)

    async def __aexit__(self, *exc):
        await self._yield()
        return await self._inner.__aexit__(*exc)

    def __aiter__(self):
        it = self._inner.__aiter__()
        return self if it is self._inner else _Jitter(it, self._rng, self._counter)

    async def __anext__(self):
        await self._yield()
        return await self._inner.__anext__()


def run(ctx):
    from concurrent.futures import ThreadPoolExecutor

    from hailtop.aiotools import Copier, Transfer
    from hailtop.aiotools.local_fs import LocalAsyncFS
    from hailtop.aiotools.router_fs import RouterAsyncFS

    specs = load_specs()
    check_model_against_specs(ctx, specs)
    ctx.seen('not_expressible_locally', 'FileAndDirectoryError (source both file and directory)')

    tmp_parent = '/dev/shm' if os.path.isdir('/dev/shm') and os.access('/dev/shm', os.W_OK) else None
    scratch_parent = tempfile.mkdtemp(prefix='verif-c22-', dir=tmp_parent)
    orig_part = LocalAsyncFS.__dict__.get('copy_part_size')
    orig_buf = Copier.BUFFER_SIZE

    def open_session(pool_size):
        """one event loop, one thread pool and one RouterAsyncFS that serve every copy of a history (the way the
        long-lived `afs` of hailtop/fs/router_fs.py::RouterFS.copy serves every hfs.copy of a process)"""
        loop = asyncio.new_event_loop()
        pool = ThreadPoolExecutor(max_workers=pool_size)
        rfs = RouterAsyncFS(local_kwargs={'thread_pool': pool}, gcs_bucket_allow_list=[])
        loop.run_until_complete(rfs.__aenter__())
        return {'loop': loop, 'pool': pool, 'pool_size': pool_size, 'rfs': rfs}

    def drain_session(session):
        """every blocking call already handed to the session's pool has finished when this returns (a cancelled
        coroutine does not stop its thread): all workers must meet at the barrier, the queue is FIFO"""
        import threading

        n = session['pool_size']
        barrier = threading.Barrier(n)
        for f in [session['pool'].submit(barrier.wait, 120) for _ in range(n)]:
            f.result()

    def settle_session(session):
        """Let every task that Copier.copy left unfinished in the long-lived loop run to its end, WITHOUT cancelling
        anything (a long-lived loop just keeps running): a transfer cancelled while it was itself waiting for its own
        cancelled children returns at once, and those children finish a few loop iterations later.  They belong to
        this copy, so its writes are only complete once they are done.  -> number of such tasks"""
        loop = session['loop']
        left = [t for t in asyncio.all_tasks(loop) if not t.done()]
        if left:
            for t in left:
                ctx.seen('hist_unfinished_task_kinds', f"{getattr(t.get_coro(), '__qualname__', type(t.get_coro()).__name__)} cancelling={t.cancelling()}")
            loop.run_until_complete(asyncio.wait_for(asyncio.gather(*left, return_exceptions=True), 120))
        return len(left)

    def close_session(session):
        # the same shutdown as asyncio.run: cancel what is left, wait for it, close async generators, close the loop
        loop = session['loop']
        try:
            loop.run_until_complete(session['rfs'].__aexit__(None, None, None))
        finally:
            try:
                left = [t for t in asyncio.all_tasks(loop) if not t.done()]
                for t in left:
                    t.cancel()
                if left:
                    loop.run_until_complete(asyncio.gather(*left, return_exceptions=True))
                loop.run_until_complete(loop.shutdown_asyncgens())
            finally:
                loop.close()
                session['pool'].shutdown(wait=True)

    def execute(case, pre, root, session=None):
        """run the real copier on the materialised pre-state; -> (exception or None, yields).
        Without a session: a fresh event loop, thread pool and RouterAsyncFS for this copy (as copy.py);
        with one: the session's loop, pool and RouterAsyncFS (as a long-lived RouterFS)."""
        P, B = case['part_size'], case['buffer_size']
        LocalAsyncFS.copy_part_size = staticmethod(lambda url: P)
        Copier.BUFFER_SIZE = B
        pool = ThreadPoolExecutor(max_workers=case['pool']) if session is None else None
        counter = [0]
        import random as _random

        jrng = _random.Random(case['jitter_seed'])

        async def copy_with(rfs):
            transfers = []
            for t in case['transfers']:
                transfers.append(Transfer(t['src'], t['dest'], treat_dest_as=t['mode']))
            arg = transfers[0] if (len(transfers) == 1 and case['single_not_list']) else transfers
            fs = _Jitter(rfs, jrng, counter) if case['jitter'] else rfs
            sema = asyncio.Semaphore(case['sema'])
            async with sema:
                await Copier.copy(fs, sema, arg)

        async def main():
            async with RouterAsyncFS(local_kwargs={'thread_pool': pool}, gcs_bucket_allow_list=[]) as rfs:
                await copy_with(rfs)

        exc = None
        try:
            try:
                if session is None:
                    asyncio.run(asyncio.wait_for(main(), 120))
                else:
                    session['loop'].run_until_complete(asyncio.wait_for(copy_with(session['rfs']), 120))
            except asyncio.TimeoutError:
                raise
            except Exception as e:  # noqa: BLE001 - the raised class is the observation
                exc = e
        finally:
            if session is None:
                pool.shutdown(wait=True)  # no straggling writes after the snapshot
            else:
                n_left = settle_session(session)
                if n_left:
                    ctx.count('hist_copies_that_left_unfinished_tasks')
                    ctx.count('hist_unfinished_tasks_after_copy', n_left)
                drain_session(session)  # no straggling writes after the snapshot
            if orig_part is None:
                try:
                    del LocalAsyncFS.copy_part_size
                except AttributeError:
                    pass
            else:
                LocalAsyncFS.copy_part_size = orig_part
            Copier.BUFFER_SIZE = orig_buf
        return exc, counter[0]

    def describe(case, pre):
        return {
            'part_size': case['part_size'], 'buffer_size': case['buffer_size'], 'sema': case['sema'], 'pool': case['pool'],
            'jitter': case['jitter'], 'transfers': case['transfers'],
            'pre_files': {k: len(v) for k, v in sorted(pre.files.items())}, 'pre_dirs': sorted(d for d in pre.dirs if len(d) > len(scratch_parent)),
        }

    def evaluate(case, pre, root, dst_root, phase, session=None, prepared=False, hist=None):
        """one Copier.copy call judged against the model of the tree that exists when it starts.
        prepared: the real tree already equals `pre` (history phase: it is what earlier copies and the harness's
        own mutations left behind); hist: {'key': ..., 'witness': {...}} of the history step.
        -> {'model', 'exc', 'expected_errors'} or None (watchdog)"""
        model = model_run(pre, case['transfers'])
        # the model's paths are the real paths: `root` is a fresh scratch directory
        if not prepared:
            materialise(pre, root)
        try:
            exc, yields = execute(case, pre, root, session)
        except asyncio.TimeoutError:
            ctx.inconclusive_because('a copy did not finish within the 120 s watchdog (hang; not decided on wall-clock time)')
            return None
        files, dirs = snapshot(dst_root)
        P = case['part_size']
        expected_errors = set(model['errors'])
        if model['ctor_error']:
            expected_errors = {model['ctor_error']}
        got_name = type(exc).__name__ if exc is not None else None
        if exc is not None and not model['ctor_error'] and got_name in model['may_errors']:
            expected_errors = expected_errors | model['may_errors']  # an outcome the rules leave open (see model_source)
            ctx.count('unspecified_outcome_error_accepted')
        elif exc is None and model['may_errors'] and not expected_errors:
            ctx.count('unspecified_outcome_success_accepted')
        ctx.count('yields_injected', yields)
        for t in case['transfers']:
            ctx.seen('modes_seen', t['mode'])
        outcome = got_name or 'success'
        ctx.seen('outcome_classes', outcome)
        # ---- abstraction key
        shape = []
        for t, pt in zip(case['transfers'], model['per_transfer']):
            if 'ctor_error' in pt:
                shape.append((t['mode'], 'ctor', pt['ctor_error']))
                continue
            shape.append((
                t['mode'], isinstance(t['src'], list), tuple(s['src_kind'] for s in pt['sources']), pre.kind(t['dest']), t['dest'].endswith('/'),
                tuple(sorted(e for s in pt['sources'] for e in s['errors'])),
                tuple(sorted({(pre.kind(k) or 'new') for s in pt['sources'] for k in s['writes']})),
            ))
        mp = sorted({(min(-(-len(v) // P), 9), len(v) % P == 0) for v in model['writes'].values() if len(v) > P})
        key = (tuple(shape), tuple(mp), case['sema'] == 1, case['jitter'])
        if hist is not None:
            key = key + (hist['key'],)
        result = {'model': model, 'exc': exc, 'expected_errors': sorted(expected_errors)}
        nontrivial = bool(model['writes']) or bool(expected_errors)
        ctx.case(sample=describe(case, pre) if ctx.evaluations < 3 else {'transfers': case['transfers'], 'P': P}, key=key, nontrivial=nontrivial)

        def witness(extra):
            w = describe(case, pre)
            w.update({'expected_errors': sorted(expected_errors), 'raised': repr(exc)[:300], 'phase': phase,
                      'actual_files': {k: len(v) for k, v in sorted(files.items())}, 'actual_dirs': sorted(dirs)})
            w.update(extra)
            if hist is not None:
                w.update(hist['witness'])
            return w

        pre_files = {k: v for k, v in pre.files.items() if k.startswith(dst_root + '/')}
        pre_dirs = {d for d in pre.dirs if d == dst_root or d.startswith(dst_root + '/')}
        ctx.count(f'runs_{phase}')
        if expected_errors:
            ctx.count('runs_error')
            ctx.count(f'runs_error_{phase}')
            if exc is None:
                ctx.violation(f'error/not-raised/{sorted(expected_errors)[0]}', f'copy succeeded but the rules say {sorted(expected_errors)}', witness({}))
                return result
            if got_name not in expected_errors:
                ctx.violation(f'error/wrong-class/{got_name}-for-{sorted(expected_errors)[0]}', f'copy raised {exc!r} but the rules say {sorted(expected_errors)}', witness({}))
                return result
            ctx.count(f'error_{got_name}')
            # nothing outside the modelled write set may have been touched
            allowed_dirs = set(pre_dirs)
            for k in model['writes']:
                a = os.path.dirname(k)
                while a.startswith(dst_root) and a != dst_root:
                    allowed_dirs.add(a)
                    a = os.path.dirname(a)
            for p, data in files.items():
                if p in model['writes']:
                    continue
                if p not in pre_files:
                    ctx.violation('error-run/unexpected-path-created', f'{p} created by a failing copy outside the modelled targets', witness({'path': p}))
                elif pre_files[p] != data:
                    ctx.violation('error-run/bystander-file-modified', f'{p} is not a copy target but changed', witness({'path': p}))
            for p in pre_files:
                if p not in files and p not in model['writes']:
                    ctx.violation('error-run/bystander-file-removed', f'{p} is not a copy target but disappeared', witness({'path': p}))
            for d in dirs:
                if d not in allowed_dirs:
                    ctx.violation('error-run/unexpected-path-created', f'directory {d} created outside the modelled targets', witness({'path': d}))
            return result

        ctx.count('runs_success')
        if exc is not None:
            ctx.violation(f'error/spurious/{got_name}', f'copy raised {exc!r} but the rules say it succeeds', witness({}))
            return result
        exp_files = dict(pre_files)
        exp_files.update(model['writes'])
        exp_dirs = set(pre_dirs)
        for k in model['writes']:
            a = os.path.dirname(k)
            while a.startswith(dst_root) and a != dst_root:
                exp_dirs.add(a)
                a = os.path.dirname(a)
        missing = [p for p in exp_files if p not in files]
        extra = [p for p in files if p not in exp_files]
        for p in missing:
            moved = [q for q in extra if files[q] == exp_files[p]]
            if moved and exp_files[p]:
                ctx.violation('dest/misplaced', f'expected {p} but its bytes are at {moved[0]}', witness({'expected_path': p, 'found_at': moved[0]}))
            else:
                ctx.violation('copy/file-missing', f'expected {p} ({len(exp_files[p])} bytes) was not created', witness({'expected_path': p}))
        for p in extra:
            if not any(files[p] == exp_files[m_] and exp_files[m_] for m_ in missing):
                ctx.violation('copy/unexpected-path-created', f'{p} was created but is not a modelled target', witness({'path': p}))
        for d in dirs - exp_dirs:
            ctx.violation('copy/unexpected-path-created', f'directory {d} was created but is not needed by any modelled target', witness({'path': d}))
        for d in exp_dirs - dirs:
            ctx.violation('copy/directory-missing', f'directory {d} is missing', witness({'path': d}))
        for p, want in exp_files.items():
            if p not in files:
                continue
            got = files[p]
            written = p in model['writes']
            if got == want:
                if written:
                    ctx.count('files_verified')
                    ctx.count('bytes_verified', len(want))
                    if len(want) > P:
                        ctx.count('multipart_files_verified')
                        ctx.count('parts_verified', -(-len(want) // P))
                        if len(want) % P == 0:
                            ctx.count('multipart_exact_multiple_verified')
                    if p in pre_files:
                        ctx.count('overwrites_verified')
                else:
                    ctx.count('bystanders_verified')
                continue
            if not written:
                ctx.violation('copy/bystander-file-modified', f'{p} is not a copy target but changed', witness({'path': p}))
                continue
            multi = len(want) > P
            if multi:
                n_parts = -(-len(want) // P)
                bad = [i for i in range(n_parts) if got[i * P : (i + 1) * P] != want[i * P : (i + 1) * P]]
                if len(got) != len(want) and bad == [n_parts - 1]:
                    mech = 'multipart/last-part-size-wrong'
                elif len(got) != len(want):
                    mech = 'multipart/size-mismatch'
                elif bad == [n_parts - 1]:
                    mech = 'multipart/last-part-content-wrong'
                else:
                    mech = 'multipart/part-content-wrong'
                detail = {'bad_parts': bad[:10], 'n_parts': n_parts, 'rem': len(want) % P}
            else:
                if len(got) > len(want) and got.startswith(want):
                    mech = 'copy/not-truncated'
                elif len(got) < len(want) and want.startswith(got):
                    mech = 'copy/short'
                else:
                    mech = 'copy/content-mismatch'
                detail = {}
            detail.update({'path': p, 'want_len': len(want), 'got_len': len(got), 'want_head': want[:48], 'got_head': got[:48]})
            ctx.violation(mech, f'{p}: {len(got)} bytes differ from the source ({len(want)} bytes), part size {P}', witness(detail))
        return result

    # ---- histories: several Copier.copy calls of ONE process on the same path strings --------------
    def n_violations():
        return sum(v for k, v in ctx.counters.items() if k.startswith('violation['))

    def run_history(hist, root):
        from vf.harness import Inconclusive

        dst_root = root + '/dst'
        materialise(hist['initial'], root)
        session = open_session(hist['pool']) if hist['session'] == 'one-loop-one-fs' else None
        ctx.seen('hist_sessions', hist['session'])
        log = []
        try:
            for k, step in enumerate(hist['steps']):
                for mu in step['mutations']:
                    apply_ops_real(mu['ops'])
                diff = tree_diff(root, step['pre'])
                if diff:
                    # the harness's own book-keeping is off (every earlier step was verified against the model)
                    raise Inconclusive(f'history phase: the scratch tree differs from the model before step {k}: {diff[:300]}')
                h = {
                    'key': (min(k, 3), tuple(sorted(mu['kind'] for mu in step['mutations'])), tuple(step['relations']), hist['session'],
                            step['into_recreated_dir'] > 0, step['dest_state_changed'] > 0, step['recopy_changed'] > 0),
                    'witness': {'history_session': hist['session'], 'history_step': k, 'history_mutations_before_this_copy': describe_mutations(step['mutations']),
                                'history_earlier_steps': list(log)},
                }
                before = n_violations()
                res = evaluate(step['case'], step['pre'], root, dst_root, 'history', session=session, prepared=True, hist=h)
                if res is None or n_violations() != before:
                    ctx.count('histories_stopped_at_violation_or_watchdog')
                    return
                log.append({'mutations': describe_mutations(step['mutations']), 'transfers': step['case']['transfers'],
                            'outcome': type(res['exc']).__name__ if res['exc'] is not None else 'success'})
                ctx.count('hist_steps_verified')
                ctx.count('hist_steps_' + ('shared_loop_and_fs' if session is not None else 'fresh_loop_and_fs'))
                if k > 0:
                    ctx.count('hist_later_steps_verified')
                for mu in step['mutations']:
                    ctx.seen('hist_mutation_kinds', mu['kind'])
                    ctx.count('hist_mutations_applied')
                for rel in step['relations']:
                    ctx.count('hist_transfer_' + rel)
                if step['expect_error']:
                    ctx.count('hist_error_steps')
                    if step['dest_state_changed']:
                        ctx.count('hist_error_after_dest_state_changed')
                    # a failing copy leaves an unspecified part of its targets behind: the harness cleans up after it
                    # (as a caller would), which keeps the history a function of the seed
                    restore(root, step['pre'])
                    ctx.count('hist_restores_after_error')
                else:
                    # these are counted only for copies that were verified byte for byte above
                    ctx.count('hist_files_into_recreated_dir', step['into_recreated_dir'])
                    ctx.count('hist_files_into_dir_first_created_by_copier', step['into_new_dir'])
                    ctx.count('hist_copies_after_dest_state_changed', step['dest_state_changed'])
                    ctx.count('hist_recopies_of_changed_source', step['recopy_changed'])
                    ctx.count('hist_recopies_of_unchanged_source', step['recopy_same'])
                    ctx.count('hist_recopies_after_target_removed', step['recopy_after_removed'])
                    ctx.count('hist_source_kind_changed_copies', step['source_kind_changed'])
                    for tr in step['dest_transitions']:
                        ctx.seen('hist_dest_transitions', tr)
            ctx.count('histories_completed')
        finally:
            if session is not None:
                close_session(session)

    # ---------------------------------------------------------------------------------------------
    try:
        # ---- phase specs: the repo's own configuration grid through the real copier ------------
        for i, rng in ctx.cases(len(specs), 'specs'):
            if i % ctx.n_shards != ctx.shard and ctx.replay is None:
                continue
            root = tempfile.mkdtemp(prefix='s-', dir=scratch_parent)
            try:
                pre, t, dst_root = spec_world(specs[i], root)
                case = {
                    'transfers': [t], 'part_size': rng.choice([1, 2, 3, 4, 5, 8, 11, 64]), 'buffer_size': rng.choice([1, 2, 3, 7, 64]),
                    'sema': rng.randrange(1, 9), 'pool': rng.randrange(1, 9), 'jitter': rng.random() < 0.5, 'jitter_seed': rng.randrange(1 << 30),
                    'single_not_list': rng.random() < 0.5,
                }
                evaluate(case, pre, root, dst_root, 'specs')
            finally:
                shutil.rmtree(root, ignore_errors=True)

        # ---- phase random -----------------------------------------------------------------------
        N = ctx.pick(260, 1800)  # per shard
        for i, rng in ctx.cases(N, 'random'):
            root = tempfile.mkdtemp(prefix='r-', dir=scratch_parent)
            try:
                case, pre = gen_case(rng, root)
                evaluate(case, pre, root, root + '/dst', 'random')
            finally:
                shutil.rmtree(root, ignore_errors=True)

        # ---- phase history: sequences of copies in one process, the tree changing in between ------
        NH = ctx.pick(50, 360)  # per shard
        for i, rng in ctx.cases(NH, 'history'):
            root = tempfile.mkdtemp(prefix='h-', dir=scratch_parent)
            try:
                run_history(gen_history(rng, root), root)
            finally:
                shutil.rmtree(root, ignore_errors=True)
    finally:
        shutil.rmtree(scratch_parent, ignore_errors=True)


# --------------------------------------------------------------------------------------------------
# workload generator
# --------------------------------------------------------------------------------------------------

NAMES = ['a', 'b', 'c', 'd', 'e', 'f.txt', 'g h', 'x']


def gen_size(rng, P, B):
    c = rng.random()
    if c < 0.12:
        return 0
    if c < 0.2:
        return 1
    if c < 0.72:
        k = rng.choice([1, 1, 2, 2, 2, 3, 3, 4, 6])
        return max(0, k * P + rng.choice([-1, 0, 0, 1]))
    if c < 0.82 and B <= 64:
        k = rng.choice([1, 2, 3])
        return max(0, min(8 * P + 1, k * B + rng.choice([-1, 0, 1])))
    if c < 0.97:
        return rng.randrange(0, 5 * P + 2)
    return rng.randrange(0, 25 * P + 2)


def gen_tree(rng, m, base, P, B, depth, names):
    """populate model dir `base` with a small random tree"""
    m.add_dir(base)
    n = rng.choice([0, 1, 1, 2, 2, 3]) if depth else rng.choice([1, 2, 3, 4])
    for name in rng.sample(names, min(n, len(names))):
        p = base + '/' + name
        if depth < 2 and rng.random() < 0.35:
            gen_tree(rng, m, p, P, B, depth + 1, names)
        else:
            m.add_file(p, rng.randbytes(gen_size(rng, P, B)))


def gen_case(rng, root):
    P = rng.choice([1, 1, 2, 3, 4, 5, 7, 8, 16, 17, 32, 64])
    B = rng.choice([1, 2, 3, 5, 8, 16, 64, 64, 8 * 1024 * 1024])
    pre = MFS()
    src_root, dst_root = root + '/src', root + '/dst'
    pre.add_dir(dst_root)
    gen_tree(rng, pre, src_root, P, B, 0, NAMES)
    src_files = sorted(k for k in pre.files if k.startswith(src_root + '/'))
    src_dirs = sorted(d for d in pre.dirs if d.startswith(src_root + '/'))
    n_transfers = rng.choice([1, 1, 1, 2, 2, 3, 4])
    transfers = []

    def one_transfer(pre, ti):
        D = f'{dst_root}/t{ti}'
        pre.add_dir(D)
        if rng.random() < 0.5:
            pre.add_file(D + '/keep', rng.randbytes(rng.randrange(0, 5)))
        mode = rng.choice([DEST_DIR, DEST_IS_TARGET, INFER_DEST])

        def pick_source():
            c = rng.random()
            if c < 0.025:
                return src_root + '/' + rng.choice(['nope', 'nope', 'a/nope', 'zz/'])
            if c < 0.5 and src_files:
                s = rng.choice(src_files)
                return s + ('/' if rng.random() < 0.05 else '')
            if src_dirs:
                s = rng.choice(src_dirs)
                return s + ('/' if rng.random() < 0.3 else '')
            return src_root + ('/' if rng.random() < 0.3 else '')

        if rng.random() < 0.3:
            srcs, seen = [], set()
            for _ in range(rng.choice([2, 2, 3])):
                s = pick_source()
                b = os.path.basename(norm(s))
                if b in seen:
                    continue
                seen.add(b)
                srcs.append(s)
            src = srcs
            if mode == DEST_IS_TARGET and rng.random() < 0.8:
                mode = rng.choice([DEST_DIR, INFER_DEST])
        else:
            src = pick_source()
        # destination and its own state
        dk = rng.choice(['root', 'root', 'child-absent', 'child-absent', 'child-file', 'child-dir', 'child-dir', 'deep-absent'])
        if dk == 'root':
            dest = D
        elif dk == 'child-absent':
            dest = D + '/' + rng.choice(['x', 'new', 'a'])
        elif dk == 'child-file':
            dest = D + '/' + rng.choice(['x', 'a', 'b'])
            pre.add_file(dest, rng.randbytes(rng.choice([0, 3, 200, 900])))
        elif dk == 'child-dir':
            dest = D + '/' + rng.choice(['x', 'a', 'sub'])
            pre.add_dir(dest)
        else:
            dest = D + '/n1/n2'
        if rng.random() < 0.3:
            dest += '/'
        t = {'src': src, 'dest': dest, 'mode': mode}
        # pre-populate what the copy will land on (overwrite / merge / conflict / bystanders)
        ce, emode = model_ctor(src, dest, mode)
        if ce is None:
            for s in src if isinstance(src, list) else [src]:
                o = model_source(pre, s, dest, emode, isinstance(src, list))
                fd = o.get('full_dest')
                if fd is None or o['errors']:
                    continue
                fdn = norm(fd)
                # only if every ancestor of the landing point is (or can become) a directory
                anc_ok = True
                a = os.path.dirname(fdn)
                while a and a != '/':
                    if pre.kind(a) == 'file':
                        anc_ok = False
                    a = os.path.dirname(a)
                if not anc_ok or not fdn.startswith(D + '/'):
                    continue
                c = rng.random()
                if o['src_kind'] == 'file':
                    if pre.kind(fdn) is None and pre.kind(dest) == 'dir':
                        if c < 0.3:
                            pre.add_file(fdn, rng.randbytes(rng.choice([0, 1, 50, 800])))  # overwritten (maybe longer than the source)
                        elif c < 0.36:
                            pre.add_dir(fdn)  # file onto directory
                elif pre.kind(fdn) in (None, 'dir') and (pre.kind(fdn) == 'dir' or pre.kind(dest) == 'dir'):
                    if pre.kind(fdn) is None and c < 0.1 and pre.kind(dest) == 'dir':
                        pre.add_file(fdn, b'in the way')  # directory onto file
                        continue
                    if pre.kind(fdn) is None and c < 0.5:
                        continue
                    for rel, data in sorted(pre.files_under(s).items()):
                        target = fdn + '/' + rel
                        r = rng.random()
                        blocked = False
                        a = os.path.dirname(target)
                        while a != fdn and a.startswith(fdn):
                            if pre.kind(a) == 'file':
                                blocked = True
                            a = os.path.dirname(a)
                        if blocked or pre.kind(target) is not None:
                            continue
                        if r < 0.3:
                            pre.add_file(target, rng.randbytes(rng.choice([0, 1, len(data) + 7, 2 * len(data) + 1])))
                        elif r < 0.33:
                            pre.add_dir(target)  # conflict: directory where a file must go
                        elif r < 0.36 and os.path.dirname(target) != fdn and pre.kind(os.path.dirname(target)) is None:
                            pre.add_file(os.path.dirname(target), b'blocker')  # conflict: file where a directory must go
                    if rng.random() < 0.5 and pre.kind(fdn + '/bystander') is None and pre.kind(fdn) != 'file':
                        pre.add_file(fdn + '/bystander', rng.randbytes(4))
        return t

    # error runs decide less (sibling transfers are cancelled midway): keep them to roughly a quarter of the runs
    accept_err = 0.3 if n_transfers == 1 else 0.12
    for ti in range(n_transfers):
        for _ in range(6):
            cand = pre.copy()
            t = one_transfer(cand, ti)
            r = model_run(cand, [t])
            if not (r['errors'] or r['ctor_error']) or rng.random() < accept_err:
                break
        pre = cand
        transfers.append(t)
    case = {
        'transfers': transfers, 'part_size': P, 'buffer_size': B, 'sema': rng.randrange(1, 9), 'pool': rng.randrange(1, 9),
        'jitter': rng.random() < 0.6, 'jitter_seed': rng.randrange(1 << 30), 'single_not_list': rng.random() < 0.5,
    }
    return case, pre


# --------------------------------------------------------------------------------------------------
# history generator: several copies of one process over the same path strings, the tree changing in between
# --------------------------------------------------------------------------------------------------

HIST_MUTATIONS = [
    ('rm-dest-dir', 6), ('rm-dest-all', 2), ('rm-dest-file', 2), ('dest-dir-to-file', 1.5), ('dest-file-to-dir', 1.5), ('dest-file-rewrite', 1.5),
    ('dest-dir-emptied', 1), ('src-rewrite', 5), ('src-add', 1.5), ('src-rm', 1.5), ('src-file-to-dir', 1.2), ('src-dir-to-file', 1.2),
]


def gen_mutation(rng, cur, src_root, dst_root, P, B, used_srcs=()):
    """one change made to the tree between two copies by somebody else (the caller, a cleanup, another process)
    -> {'kind', 'ops'} or None when the drawn kind has nothing to act on.  Source-side changes prefer (70 %) what an
    earlier transfer of the history named as a source, or what lies below it."""

    def prefer(cands, exact):
        hot = [c for c in cands if any(c == u or (not exact and c.startswith(u + '/')) for u in used_srcs)]
        return rng.choice(hot) if hot and rng.random() < 0.7 else rng.choice(cands)

    kinds, weights = zip(*HIST_MUTATIONS)
    kind = rng.choices(kinds, weights)[0]
    dst_dirs = sorted(d for d in cur.dirs if d.startswith(dst_root + '/'))
    dst_files = sorted(f for f in cur.files if f.startswith(dst_root + '/'))
    src_dirs = sorted(d for d in cur.dirs if d.startswith(src_root + '/'))
    src_files = sorted(f for f in cur.files if f.startswith(src_root + '/'))
    ops = None
    if kind == 'rm-dest-dir' and dst_dirs:
        ops = [{'op': 'rm', 'path': rng.choice(dst_dirs)}]
    elif kind == 'rm-dest-all' and (dst_dirs or dst_files):
        top = sorted(p for p in dst_dirs + dst_files if os.path.dirname(p) == dst_root)
        ops = [{'op': 'rm', 'path': p} for p in top]
    elif kind == 'rm-dest-file' and dst_files:
        ops = [{'op': 'rm', 'path': rng.choice(dst_files)}]
    elif kind == 'dest-dir-to-file' and dst_dirs:
        d = rng.choice(dst_dirs)
        ops = [{'op': 'rm', 'path': d}, {'op': 'write', 'path': d, 'data': rng.randbytes(rng.choice([0, 3, 200]))}]
    elif kind == 'dest-file-to-dir' and dst_files:
        f = rng.choice(dst_files)
        ops = [{'op': 'rm', 'path': f}, {'op': 'mkdir', 'path': f}]
    elif kind == 'dest-file-rewrite' and dst_files:
        f = rng.choice(dst_files)
        n = len(cur.files[f])
        ops = [{'op': 'write', 'path': f, 'data': rng.randbytes(rng.choice([0, 1, n + 7, 2 * n + 1, 900]))}]
    elif kind == 'dest-dir-emptied' and dst_dirs:
        d = rng.choice(dst_dirs)
        ops = [{'op': 'rm', 'path': d}, {'op': 'mkdir', 'path': d}]
    elif kind == 'src-rewrite' and src_files:
        f = prefer(src_files, False)
        n = len(cur.files[f])
        c = rng.random()
        size = n if c < 0.35 else gen_size(rng, P, B)  # same length, other bytes: only the content tells
        ops = [{'op': 'write', 'path': f, 'data': rng.randbytes(size)}]
    elif kind == 'src-add':
        d = rng.choice(src_dirs + [src_root])
        free = [n for n in NAMES if cur.kind(d + '/' + n) is None]
        if free:
            ops = [{'op': 'write', 'path': d + '/' + rng.choice(free), 'data': rng.randbytes(gen_size(rng, P, B))}]
    elif kind == 'src-rm' and (src_files or src_dirs):
        ops = [{'op': 'rm', 'path': rng.choice(src_files + src_dirs)}]
    elif kind == 'src-file-to-dir' and src_files:
        f = prefer(src_files, True)
        ops = [{'op': 'rm', 'path': f}, {'op': 'write', 'path': f + '/' + rng.choice(NAMES), 'data': rng.randbytes(gen_size(rng, P, B))}]
    elif kind == 'src-dir-to-file' and src_dirs:
        d = prefer(src_dirs, True)
        ops = [{'op': 'rm', 'path': d}, {'op': 'write', 'path': d, 'data': rng.randbytes(gen_size(rng, P, B))}]
    if not ops:
        return None
    return {'kind': kind, 'ops': ops}


def gen_history(rng, root):
    """-> {'initial': MFS, 'steps': [{'mutations', 'pre': MFS at the start of the copy, 'case', ...observables}], 'session', 'pool'}
    Every step is one Copier.copy call with 1-3 transfers, each transfer in its own slot directory dst/t<i> (so targets of
    one call never overlap).  A later step mostly repeats the (source, destination) strings of an earlier one, possibly with
    another mode or trailing slash, after 0-3 mutations of the destination and source trees.  The model state advances by
    the modelled writes of a successful step and is unchanged by a failing one (the harness cleans up after those)."""
    P = rng.choice([1, 2, 3, 4, 5, 7, 8, 16, 17, 32, 64])
    B = rng.choice([1, 2, 3, 5, 8, 16, 64, 64, 8 * 1024 * 1024])
    cur = MFS()
    src_root, dst_root = root + '/src', root + '/dst'
    cur.add_dir(dst_root)
    gen_tree(rng, cur, src_root, P, B, 0, NAMES)
    initial = cur.copy()
    n_steps = rng.choice([2, 3, 3, 4, 4, 5, 6])
    hist = {'initial': initial, 'steps': [], 'session': rng.choice(['fresh-loop-per-copy', 'one-loop-one-fs']), 'pool': rng.randrange(1, 9)}
    last = {}  # slot -> the transfer it last carried
    made_by_copy = set()  # destination directories that an earlier copy of this history created
    lost = set()  # ... and that a mutation removed afterwards
    dest_kind_at_last_use = {}
    src_kind_at_last_use = {}
    copied = {}  # target -> bytes an earlier copy of this history put there

    def pick_source():
        src_files = sorted(k for k in cur.files if k.startswith(src_root + '/'))
        src_dirs = sorted(d for d in cur.dirs if d.startswith(src_root + '/'))
        c = rng.random()
        if c < 0.03:
            return src_root + '/' + rng.choice(['nope', 'a/nope', 'zz/'])
        if c < 0.5 and src_files:
            return rng.choice(src_files) + ('/' if rng.random() < 0.05 else '')
        if src_dirs:
            return rng.choice(src_dirs) + ('/' if rng.random() < 0.3 else '')
        return src_root + ('/' if rng.random() < 0.3 else '')

    def fresh_transfer(D):
        mode = rng.choice([DEST_DIR, DEST_IS_TARGET, INFER_DEST])
        if rng.random() < 0.25:
            src, seen = [], set()
            for _ in range(rng.choice([2, 2, 3])):
                s_ = pick_source()
                b = os.path.basename(norm(s_))
                if b not in seen:
                    seen.add(b)
                    src.append(s_)
            if mode == DEST_IS_TARGET and rng.random() < 0.8:
                mode = rng.choice([DEST_DIR, INFER_DEST])
        else:
            src = pick_source()
        dk = rng.choice(['root', 'root', 'child', 'child', 'child', 'deep'])
        dest = D if dk == 'root' else (D + '/' + rng.choice(['x', 'sub', 'a']) if dk == 'child' else D + '/n1/n2')
        if rng.random() < 0.3:
            dest += '/'
        return {'src': src, 'dest': dest, 'mode': mode}

    def repeated_transfer(t):
        t = {'src': list(t['src']) if isinstance(t['src'], list) else t['src'], 'dest': t['dest'], 'mode': t['mode']}
        rel = 'repeat-same'
        if rng.random() < 0.25:
            other = [m for m in (DEST_DIR, DEST_IS_TARGET, INFER_DEST) if m != t['mode'] and not (m == DEST_IS_TARGET and isinstance(t['src'], list))]
            t['mode'] = rng.choice(other)
            rel = 'repeat-altered'
        if rng.random() < 0.15:
            t['dest'] = t['dest'][:-1] if t['dest'].endswith('/') else t['dest'] + '/'
            rel = 'repeat-altered'
        if isinstance(t['src'], str) and rng.random() < 0.1:
            t['src'] = t['src'][:-1] if t['src'].endswith('/') else t['src'] + '/'
            rel = 'repeat-altered'
        return t, rel

    for k in range(n_steps):
        step_P = P if rng.random() < 0.75 else rng.choice([1, 2, 3, 4, 5, 7, 8, 16, 17, 32, 64])
        step_B = B if rng.random() < 0.75 else rng.choice([1, 2, 3, 5, 8, 16, 64, 8 * 1024 * 1024])
        mutations = []
        if k > 0:
            for _ in range(rng.choice([0, 1, 1, 1, 2, 2, 3])):
                used = sorted({norm(s_) for t in last.values() for s_ in (t['src'] if isinstance(t['src'], list) else [t['src']])})
                mu = gen_mutation(rng, cur, src_root, dst_root, step_P, step_B, used)
                if mu is not None:
                    apply_ops_model(cur, mu['ops'])
                    mutations.append(mu)
        # slots of this call
        if k == 0:
            slots = list(range(rng.choice([1, 1, 2, 2, 3])))
        else:
            slots = [sl for sl in sorted(last) if rng.random() < 0.75]
            if len(last) < 3 and rng.random() < 0.25:
                slots.append(len(last))
            if not slots:
                slots = [rng.choice(sorted(last))]
        transfers, relations = [], []
        accept_err = 0.25 if len(slots) == 1 else 0.1
        for sl in slots:
            D = f'{dst_root}/t{sl}'
            if sl not in last and rng.random() < 0.5:
                # a slot starts with its directory present (perhaps with a bystander) or absent
                ops = [{'op': 'mkdir', 'path': D}]
                if rng.random() < 0.5:
                    ops.append({'op': 'write', 'path': D + '/keep', 'data': rng.randbytes(rng.randrange(0, 5))})
                mu = {'kind': 'slot-starts-as-directory', 'ops': ops}
                apply_ops_model(cur, ops)
                mutations.append(mu)
            for _ in range(6):
                if sl in last and rng.random() < 0.8:
                    t, rel = repeated_transfer(last[sl])
                else:
                    t, rel = fresh_transfer(D), ('fresh' if sl not in last else 'fresh-in-used-slot')
                r = model_run(cur, [t])
                if not (r['errors'] or r['ctor_error'] or r['may_errors']) or rng.random() < accept_err:
                    break
            transfers.append(t)
            relations.append(rel)
            last[sl] = t
        pre = cur.copy()
        # directories made by earlier copies that are gone now
        for d in made_by_copy:
            if pre.kind(d) != 'dir':
                lost.add(d)
        model = model_run(pre, transfers)
        # (an outcome the rules leave open counts as failing here: the harness restores the pre-state afterwards)
        failing = bool(model['errors'] or model['ctor_error'] or model['may_errors'])
        step = {
            'mutations': mutations, 'pre': pre, 'relations': relations, 'expect_error': failing,
            'case': {
                'transfers': transfers, 'part_size': step_P, 'buffer_size': step_B, 'sema': rng.randrange(1, 9), 'pool': hist['pool'],
                'jitter': rng.random() < 0.6, 'jitter_seed': rng.randrange(1 << 30), 'single_not_list': rng.random() < 0.5,
            },
            'into_recreated_dir': 0, 'into_new_dir': 0, 'dest_state_changed': 0, 'recopy_changed': 0, 'recopy_same': 0, 'recopy_after_removed': 0,
            'source_kind_changed': 0, 'dest_transitions': [],
        }
        for t in transfers:
            dn = norm(t['dest'])
            now = pre.kind(dn)
            if dn in dest_kind_at_last_use and dest_kind_at_last_use[dn] != now:
                step['dest_state_changed'] += 1
                step['dest_transitions'].append(f'{dest_kind_at_last_use[dn]}->{now}')
            dest_kind_at_last_use[dn] = now
            for s_ in t['src'] if isinstance(t['src'], list) else [t['src']]:
                sk = pre.kind(s_)
                if s_ in src_kind_at_last_use and src_kind_at_last_use[s_] != sk and sk is not None:
                    step['source_kind_changed'] += 1
                src_kind_at_last_use[s_] = sk
        if not failing:
            for target, data in model['writes'].items():
                parent = os.path.dirname(target)
                if pre.kind(parent) is None:
                    step['into_new_dir'] += 1
                    if parent in lost:
                        step['into_recreated_dir'] += 1
                if target in copied:
                    if pre.kind(target) is None:
                        step['recopy_after_removed'] += 1
                    elif copied[target] != data:
                        step['recopy_changed'] += 1
                    else:
                        step['recopy_same'] += 1
            before_dirs = set(cur.dirs)
            for target, data in model['writes'].items():
                cur.add_file(target, data)
                copied[target] = data
            new_dirs = cur.dirs - before_dirs
            made_by_copy |= new_dirs
            lost -= new_dirs
        hist['steps'].append(step)
    return hist


# --------------------------------------------------------------------------------------------------
# Validation record (scratch worktree /tmp/scratch-fs at HEAD 78296c9bd, quick tier, seed 0; removed afterwards)
#
# Unchanged tree: HELD for VERIF_SEED 0..4 in both tiers (no violation, no known finding).
#
# Breaks tried, one at a time (file: edit -> result, first mechanism keys printed):
#  1. copier.py  this_part_size = rem - 1 for the last part (DESIGN: off-by-one in the last part's size)
#        -> exit 1  multipart/last-part-size-wrong
#  2. copier.py  this_part_size = rem if i == n_parts - 1 else part_size   (own, subtle: last part empty ONLY when the
#                size is an exact multiple of the part size)
#        -> exit 1  multipart/last-part-size-wrong
#  3. copier.py  Transfer.__init__: INFER_DEST + trailing slash => DEST_IS_TARGET (DESIGN: trailing slash treated as target)
#        -> exit 1  dest/misplaced, copy/file-missing, copy/unexpected-path-created, error/spurious/IsADirectoryError, ...
#  4. copier.py  _full_dest: url_basename(self.src) without rstrip('/') (own, subtle: wrong only for sources with a trailing slash)
#        -> exit 1  dest/misplaced, copy/file-missing, error/not-raised/NotADirectoryError, ...
#  5. copier.py  _copy_part reads every buffer of a part from the part's start (own, subtle: wrong only when part > buffer)
#        -> exit 1  multipart/part-content-wrong
#  6. local_fs.py multi_part_create opens the destination 'ab' instead of truncating (own: wrong only when overwriting a longer file)
#        -> exit 1  multipart/size-mismatch, multipart/last-part-size-wrong
#  7. copier.py  SourceCopier.copy: FileNotFoundError no longer raised for a non-directory source with a trailing slash
#        -> exit 1  error/not-raised/FileNotFoundError
#  8. local_fs.py LocalMultiPartCreate.create_part seeks one byte early for the last of >= 3 parts (own, subtle)
#        -> exit 1  multipart/size-mismatch, multipart/last-part-size-wrong
#  9. copier.py  `size <= part_size` -> `size < part_size` (a file of exactly one part size goes through multi-part with one part)
#        -> exit 0: behaviour-preserving mutant (destination still byte-identical); silence is the correct answer
#
# Wave 9 (phase history added; scratch worktrees of HEAD b3860ceef, quick tier):
#  10. seeded/C22-agent8: SourceCopier keeps a class-level set of destination directories it already created and skips
#        makedirs for them (never invalidated) - invisible to single copies into fresh paths (phases specs / random)
#        -> exit 1  error/spurious/FileNotFoundError (about 100 of the 200-240 histories of a quick run), also
#           error/wrong-class/FileNotFoundError-for-{IsADirectoryError,NotADirectoryError}
#  11. own: Copier._dest_type memoises the stat'ed destination type per destination string in a class-level dict
#        -> exit 1  dest/misplaced, copy/unexpected-path-created, error-run/unexpected-path-created (history phase only)
#  12. own: SourceCopier memoises the source size per source path in a class-level dict (stale after a rewrite)
#        -> exit 1  multipart/size-mismatch, multipart/last-part-size-wrong, error/spurious/UnexpectedEOFError (history phase only)
#  C22-agent2 / agent4 / agent6 re-evaluated: still caught.
#  False alarm of the first history run (seed 1), fixed in the model, not in the generator: an EMPTY directory source
#  copied (INFER_DEST) to a destination below a regular file raises NotADirectoryError (os.stat: ENOTDIR) where the model
#  said "nothing to copy => success"; with DEST_DIR the same transfer succeeds.  The rules do not decide => may_errors.
#
# Observations that are NOT C22 violations (reported to the lead):
#  * Copier.copy(fs, sema, [t1, t2], return_exceptions=True) copies nothing: bounded_gather2(return_exceptions=True,
#    cancel_on_error=True) raises ValueError, which is stored in the CopyReport.  No production caller passes
#    return_exceptions=True (copy.py and hailtop/fs/router_fs.py use the default), so the monitor drives the default path.
#  * (wave 9, history phase, long-lived loop) Copier.copy can raise while tasks it started are still unfinished:
#    bounded_gather2_raise_exceptions(cancel_on_error=True) waits for its cancelled children in `finally: await
#    asyncio.wait(tasks)`; when the task running it is ITSELF cancelled during that wait (a transfer with several sources
#    fails in one source and, at the same moment, a sibling transfer fails and the outer gather cancels it), the wait is
#    abandoned and the still-"cancelling" children (run_with_sema -> SourceCopier.copy -> gather(copy_as_file,
#    copy_as_dir)) outlive Copier.copy.  Under asyncio.run they are collected at loop shutdown; in a long-lived loop
#    (hailtop.fs RouterFS) they finish a few iterations later, and if that loop is closed first Python logs "Task was
#    destroyed but it is pending" (seen once in ~5800 histories; the garbage-collected coroutine's __aexit__ then
#    re-entered ThreadPoolExecutor.submit under its non-reentrant lock and hung that shard).  The harness now lets such
#    tasks finish before it snapshots (settle_session; counters hist_unfinished_tasks_after_copy /
#    hist_unfinished_task_kinds) and shuts the session loop down the way asyncio.run does.  Not a C22 clause (the call
#    does raise the documented error, nothing outside the modelled targets is written); nearer to C20's error contract.
#  * `Copier._copy_one_transfer` never retrieves the exception of its INFER_DEST `dest_type_task` when the source fails
#    first ("Task exception was never retrieved ... _dest_type ... NotADirectoryError" in the shard logs): log noise only.
#  * A missing source *below a regular file* (src/a/nope with src/a a file) raises NotADirectoryError (ENOTDIR from
#    os.stat) rather than FileNotFoundError; the rules do not say which, the model accepts either.
# --------------------------------------------------------------------------------------------------
