"""C19 Client spec bunching preserves order and limits.

Real code: hailtop.batch_client.aioclient.Batch._create_bunches, called on a real Batch built with a
dummy client (no network).  Observed: the returned bunches (bytes + type tag of every SpecBytes) or the
AssertionError with which the real code refuses a spec that can never fit.

Oracle (exactly the property statement):
  * flattening the bunches gives orjson.dumps(spec) of every job-group spec, then of every job spec,
    byte-identical and in the original order, with JOB_GROUP tags on the first G and JOB tags on the rest;
  * no bunch is empty; len(bunch) <= max_bunch_size;
  * sum(n_bytes) < max_bunch_bytesize.  The byte limit is *exclusive*: that is how the real code defines it
    ("every spec must be less than max_bunch_bytesize" - a single spec of exactly the limit is refused), so a
    bunch whose sum equals the limit is over the limit by the code's own definition.  sum == limit and
    sum > limit are reported under different mechanism keys.
  * a spec with n_bytes >= max_bunch_bytesize cannot be placed in any conforming bunch: the real code refuses
    the whole call with an AssertionError.  That refusal is legitimate (counted, not judged); a hypothetical
    implementation that ships such a spec alone in its own bunch is not judged either (unavoidable).  A refusal
    when every spec fits, or any other exception, is a violation.

Workload: phase 'sized' = 0-60 dict specs (split at a random point into job-group specs and job specs)
with exact target sizes 2-400 bytes (ASCII and multi-byte UTF-8 padding, so bytes != characters), limits
chosen at the boundaries: byte limit in {window sum - 1, window sum, window sum + 1, max size (+0, +1, +2),
total (+0, +1), random, 1 MiB}, count limit in {1, 2, 3, n-1, n, n+1, G-1, G, G+1, random, 1024}.
Phase 'api' = specs produced by the client's own Batch.create_job_group / create_job on the same instance.

The order clause ("exactly the original specifications in order") is only exercised by lists on which a
re-ordering is not the identity.  The two phases above produce job-group specs that are flat (every parent is the
root, ids ascending), so any step that orders / groups / de-duplicates specs by one of their fields is invisible
there.  Two more phases generate the lists that clause needs:
Phase 'tree' = NESTED job groups built with the client's own API (Batch.create_job_group, JobGroup.create_job_group,
JobGroup.create_job, Batch.get_job_group / Job.submitted_job for already submitted parents) in 9 creation orders
(uniform random parent, interleaved a/a1/b/b1, depth-first, children of the top-level groups in descending order,
two-level random, comb, and the benign breadth-first / chain / flat), as a new batch (in_update_parent_id) and as
an update of an existing batch (absolute_parent_id of submitted groups in arbitrary id order, mixed with in-update
parents), with jobs created in arbitrary job groups and with several in-update / absolute parents, job groups and
jobs created interleaved; ~1 % of the cases have 1025-2300 job groups and use the production limits (1 MiB, 1024).
Besides the oracle above (against the client's own spec lists) the flattened output is decoded and compared with
the monitor's OWN creation log: the k-th emitted job-group spec is job group k with the parent it was created
under, the k-th emitted job spec is job k with the job group / parents it was created with ('creation-order/*').
Phase 'fields' = arbitrary structured spec lists (the quantifier is "all lists of specs"): each field the client
writes (job_group_id, attributes, callback, cancel_after_n_failures, in_update_parent_id | absolute_parent_id;
always_run, n_max_attempts, always_copy_output, job_id, absolute_parent_ids, in_update_parent_ids, process,
in_update_job_group_id | absolute_job_group_id, env, timeout, attributes, mount_tokens, regions) runs along the list
ascending, descending, random, ascending with one transposition, constant, sparse or absent; 15 % of the lists
contain an exact duplicate of a structured spec.  Observed per field whether its values had a descent.

The SUBMISSION clause ("splits ... into submission bunches"): the bunches of the statement are what the client
POSTs, and _create_bunches only returns an intermediate list.  Batch._submit (0 / 1 / many bunches), _create_fast /
_update_fast, _submit_job_group_bunches / _submit_job_bunches, _submit_job_groups / _submit_jobs (filter by SpecType)
and _submit_spec_bunch (payload) lie between that list and the wire.  The batches of phases 'api' and 'tree' and of
Phase 'submit' (client API; new batch / update of an existing batch; groups only, jobs only, both, nothing; one bunch
and many; limits drawn so that the ONE bunch holding the last job groups and the first jobs is the first, a middle or
the last bunch, or does not exist because the job groups end on a bunch boundary) are sent with the real
Batch.submit() to a recording client that answers like the service and lets requests in flight overtake each other.
Oracle on the recorded request bodies alone ('wire/*'): job-group specs concatenated in send order == the job-group
specs, byte-identical; job specs == the job specs (nothing lost / duplicated / altered), every request a contiguous
in-order run; every request carrying jobs is sent after every request carrying job groups was answered; every request
non-empty, count <= max_bunch_size, spec bytes < max_bunch_bytesize, specs on the endpoint of their type, body
byte-exact; submit() raises only the legitimate oversized-spec refusal.  The arrival order of the concurrently sent
job requests is not judged (not the client's to decide).
"""
import copy

PID = 'C19'
LEVEL = 'exploration'
RULE = (
    'phase sized: seeded lists of 0-60 dict specs with exact serialized sizes 2-400 B (ASCII / 2-, 3-, 4-byte UTF-8 padding), '
    'split into job-group specs and job specs at a random point; byte limit drawn from sums of random windows -1/0/+1, '
    'largest spec +0/+1/+2, total +0/+1, random, 1 MiB; count limit from 1,2,3,n-1,n,n+1,G-1,G,G+1,random,1024. '
    'phase api: specs built by Batch.create_job_group/create_job (real client code), same limit choice. '
    'phase tree: nested job-group trees built by Batch/JobGroup.create_job_group + create_job in 9 creation orders x '
    '{new batch, update of an existing batch with submitted parents}, jobs in arbitrary groups with in-update/absolute '
    'parents, ~1 % with 1025-2300 groups at the production limits; additionally judged against the monitor\'s own creation log. '
    'phase fields: structured spec lists in which each of 20 client-written fields runs ascending/descending/random/'
    'one-transposition/constant/sparse/absent along the list, 15 % with an exact duplicate spec; same limit choice. '
    'phase submit (+ the batches of phases api and tree): the real Batch.submit() against a recording client, new batch / update form, '
    'groups only / jobs only / both / nothing, one bunch (create-fast / update-fast) and many, count-only / byte-only / both limits binding, '
    'the mixed boundary bunch first / middle / last / absent (max_bunch_size dividing the number of job groups); judged on the recorded request bodies. '
    'Distinct by (number of job-group specs, per-bunch (length, why the bunch was closed: bytes/count/end), refusal; '
    'in tree/fields also the disorder class: update form, parent-id descents, job-group-reference descents, which side has a disordered field); '
    'non-trivial when at least two bunches were produced or the call was refused.'
)
ASSUMPTIONS = [
    'submission clause: the request bodies are read from aiohttp.BytesPayload._value as handed to BatchClient._post; real aiohttp, real hailtop.utils.bounded_gather, real rich progress bar; no network',
    'orjson is the json-backed shim vf/shims/pkgs/orjson (compact separators, UTF-8); the oracle serializes with the same module object the real code uses',
    'the byte limit is exclusive (sum < max_bunch_bytesize), as defined by the real code\'s own per-spec assertion',
]
TRUSTED_BASE = ['vf/shims/pkgs/orjson (json.dumps-backed)', 'oracle in this file',
                'RecordingClient in this file (stands for BatchClient._post/_patch; answers ids like the service)']
SHARDS = {'quick': 1, 'thorough': 16}
TIMEOUT = {'quick': 900, 'thorough': 3600}


def FLOORS(tier):
    k = 1 if tier == 'quick' else 20
    return {
        'evaluations': 15_000 * k,
        'bunches': 60_000 * k,
        'closed_by_bytes': 20_000 * k,
        'closed_by_count': 5_000 * k,
        'tight_bunch_sum_eq_limit_minus_1': 2_000 * k,
        'next_spec_would_make_sum_eq_limit': 500 * k,
        'full_bunch_count_eq_limit': 5_000 * k,
        'mixed_bunch_groups_and_jobs': 1_000 * k,
        'refused_oversized': 500 * k,
        'refused_spec_eq_limit': 100 * k,
        'multibyte_specs': 10_000 * k,
        'api_cases': 300 * k,
        # order clause: lists on which a re-ordering by a spec field is not the identity (phases tree, fields)
        'tree_cases': 750 * k,
        'tree_nested_cases': 600 * k,
        'tree_update_form_cases': 280 * k,
        'tree_cases_group_parent_ids_not_monotone': 350 * k,
        'tree_cases_group_parent_ids_not_monotone_new_batch': 180 * k,
        'tree_cases_group_parent_ids_not_monotone_update_form': 190 * k,
        'tree_cases_absolute_and_in_update_parents_mixed': 230 * k,
        'tree_cases_job_group_refs_not_monotone': 350 * k,
        'tree_cases_job_with_several_parents': 300 * k,
        'tree_not_monotone_groups_split_over_bunches': 270 * k,
        'tree_production_limit_cases': 6 * k,
        'creation_order_checked_groups': 17_000 * k,
        'creation_order_checked_jobs': 6_500 * k,
        'tree_shapes': 18,            # seen-set: 9 creation orders x {new batch, update}
        'fields_cases': 2_000 * k,
        'fields_cases_group_field_disordered': 1_100 * k,
        'fields_cases_job_field_disordered': 850 * k,
        'fields_cases_with_duplicated_spec': 280 * k,
        'fields_disordered_split_over_bunches': 1_400 * k,
        'fields_disordered': 20,      # seen-set: every generated field had a descent along some list
        # submission clause: the real Batch.submit() against a recording client (phase submit + phases api, tree)
        'submit_cases': 2_400 * k,
        'submit_spec_requests': 16_000 * k,
        'wire_checked_job_groups': 26_000 * k,
        'wire_checked_jobs': 22_000 * k,
        'submit_slow_path_cases': 2_000 * k,
        'submit_slow_path_cases_new_batch': 1_200 * k,
        'submit_slow_path_cases_update_form': 800 * k,
        'submit_slow_path_cases_mixed_boundary_bunch': 730 * k,
        'submit_slow_path_cases_mixed_boundary_bunch_new_batch': 420 * k,
        'submit_slow_path_cases_mixed_boundary_bunch_update_form': 300 * k,
        'submit_slow_path_cases_mixed_bunch_is_first': 430 * k,
        'submit_slow_path_cases_mixed_bunch_in_the_middle': 230 * k,
        'submit_slow_path_cases_mixed_bunch_is_last': 65 * k,
        'submit_slow_path_cases_groups_end_on_bunch_boundary': 850 * k,
        'submit_slow_path_cases_groups_only': 220 * k,
        'submit_slow_path_cases_jobs_only': 200 * k,
        'submit_slow_path_cases_more_job_requests_than_gather_slots': 500 * k,
        'submit_cases_job_requests_in_flight_together': 1_400 * k,
        'submit_cases_job_requests_answered_out_of_order': 1_100 * k,
        'submit_fast_path_cases': 160 * k,
        'submit_fast_path_cases_new_batch': 95 * k,
        'submit_fast_path_cases_update_form': 65 * k,
        'submit_fast_path_cases_groups_and_jobs': 75 * k,
        'submit_zero_spec_cases': 65 * k,
        'submit_refused_oversized': 65 * k,
        'submit_requests_count_eq_limit': 6_500 * k,
        'submit_requests_bytes_eq_limit_minus_1': 500 * k,
        'submit_production_limit_cases': 6 * k,
    }


PADS = ['x', 'é', '€', '\U0001f9ec']  # 1, 2, 3, 4 bytes in UTF-8


def make_spec(rng, dumps, target, idx, is_group):
    """A dict whose serialization has exactly `target` bytes when that is feasible (>= 2), else the nearest feasible size."""
    if target <= 2:
        return {}
    if target <= 6:
        return {'': rng.randrange(10)}  # 6 bytes
    if target == 7:
        return {'a': rng.randrange(10)}
    if target >= 60 and rng.random() < 0.6:
        base = {'job_group_id': idx + 1, 'in_update_parent_id': 0} if is_group else {
            'job_id': idx + 1, 'process': {'type': 'docker', 'image': 'ubuntu', 'command': ['true']}}
        key = 'attributes'
        mk = lambda s: {**base, key: {'name': s}}  # noqa: E731
    else:
        mk = lambda s: {'k': s}  # noqa: E731
    room = target - len(dumps(mk('')))
    if room < 0:
        mk = lambda s: {'k': s}  # noqa: E731
        room = target - 8
    pad = rng.choice(PADS) if rng.random() < 0.5 else 'x'
    w = len(pad.encode('utf-8'))
    s = pad * (room // w) + 'y' * (room % w)
    return mk(s)


def choose_limits(rng, sizes, n_groups):
    n = len(sizes)
    total = sum(sizes)
    mx = max(sizes) if sizes else 1
    r = rng.random()
    if not sizes:
        maxb = rng.choice([1, 2, 100, 1024 * 1024])
    elif r < 0.62:  # window sum boundaries
        i = rng.randrange(n)
        j = min(n, i + rng.choice([1, 2, 2, 3, 3, 4, 5, 8, 13]))
        w = sum(sizes[i:j])
        maxb = w + rng.choice([-1, 0, 0, 1, 1, 1])
        if maxb <= mx and rng.random() < 0.85:
            maxb = max(maxb, mx + rng.choice([1, 1, 2]))
    elif r < 0.72:
        maxb = mx + rng.choice([0, 1, 1, 2])
    elif r < 0.80:
        maxb = total + rng.choice([0, 1])
    elif r < 0.95:
        maxb = rng.randint(1, total + 50)
        if maxb <= mx and rng.random() < 0.7:
            maxb = mx + 1 + rng.randrange(0, 400)
    else:
        maxb = 1024 * 1024
    maxb = max(1, maxb)
    cands = [1, 2, 3, max(1, n - 1), max(1, n), n + 1, max(1, n_groups - 1), max(1, n_groups), n_groups + 1,
             rng.randint(1, 70), rng.randint(1, 8), rng.randint(2, 12), 1024]
    maxn = rng.choice(cands)
    return maxb, maxn


def run(ctx):
    from hailtop.batch_client import aioclient
    from hailtop.batch_client.aioclient import Batch, SpecType

    dumps = aioclient.orjson.dumps

    class DummyClient:
        billing_project = 'verif'

        def __getattr__(self, name):  # any network attempt is a harness error
            raise RuntimeError(f'network use attempted: {name}')

    def new_batch(batch_id=None, client=None):
        try:
            return Batch(DummyClient() if client is None else client, batch_id)
        except Exception:
            if batch_id is not None or client is not None:
                raise
            return object.__new__(Batch)

    def judge(groups, jobs, maxb, maxn, phase_note, extra_key=None):
        """Run the real _create_bunches and apply the oracle.  Returns the bunches, or None when the call was
        refused / raised.  `extra_key` refines the distinctness abstraction (phase-specific structure class)."""
        exp = [dumps(s) for s in groups] + [dumps(s) for s in jobs]
        G = len(groups)
        sizes = [len(b) for b in exp]
        oversized = [i for i, z in enumerate(sizes) if z >= maxb]
        g0, j0 = copy.deepcopy(groups), copy.deepcopy(jobs)
        b = new_batch()
        wit = {'sizes': sizes, 'n_groups': G, 'max_bunch_bytesize': maxb, 'max_bunch_size': maxn, 'phase': phase_note}
        try:
            bunches = b._create_bunches(groups, jobs, maxb, maxn)
        except AssertionError as e:
            if oversized:
                ctx.count('refused_oversized')
                if any(sizes[i] == maxb for i in oversized):
                    ctx.count('refused_spec_eq_limit')
                ctx.case(sample=wit, key=('refused', G, len(sizes), len(oversized), extra_key), nontrivial=True)
                return None
            ctx.violation('spurious-refusal', f'AssertionError although every spec is smaller than the byte limit: {str(e)[:120]}', wit)
            ctx.case(sample=wit, key=('spurious', G), nontrivial=True)
            return None
        except Exception as e:
            ctx.violation('raises', f'_create_bunches raised {e!r}', wit)
            ctx.case(sample=wit, key=('raises', type(e).__name__), nontrivial=True)
            return None
        if groups != g0 or jobs != j0:
            ctx.count('input_lists_mutated')
        got = [(s.spec_bytes, s.typ) for bunch in bunches for s in bunch]
        wit['bunch_lengths'] = [len(x) for x in bunches]
        wit['bunch_bytes'] = [sum(len(s.spec_bytes) for s in x) for x in bunches]
        got_bytes = [x[0] for x in got]
        if got_bytes != exp:
            if len(got_bytes) < len(exp):
                key = 'concat/lost-spec'
            elif len(got_bytes) > len(exp):
                key = 'concat/duplicated-spec'
            elif sorted(got_bytes) == sorted(exp):
                key = 'concat/reordered'
            else:
                key = 'concat/bytes-altered'
            first = next((i for i, (x, y) in enumerate(zip(got_bytes, exp)) if x != y), min(len(got_bytes), len(exp)))
            wit['first_difference_at'] = first
            wit['first_difference_in'] = 'job-group specs' if first < G else 'job specs'
            if key == 'concat/reordered':
                # position in the input of every emitted spec (equal specs matched left to right)
                where = {}
                for i, x in enumerate(exp):
                    where.setdefault(x, []).append(i)
                wit['emitted_input_positions'] = [where[x].pop(0) for x in got_bytes][:200]
            ctx.violation(key, f'flattened bunches differ from the serialized specs ({len(got_bytes)} vs {len(exp)} specs), '
                               f'first difference at position {first} ({wit["first_difference_in"]})', wit)
        else:
            for i, (_, typ) in enumerate(got):
                want = SpecType.JOB_GROUP if i < G else SpecType.JOB
                if typ != want:
                    ctx.violation('order/type-tag-wrong', f'spec {i} tagged {typ} but should be {want} (G={G})', wit)
                    break
        shape = []
        pos = 0
        for bi, bunch in enumerate(bunches):
            nb = sum(len(s.spec_bytes) for s in bunch)  # measured by the oracle, not via SpecBytes.n_bytes
            ctx.count('bunches')
            ctx.count('specs', len(bunch))
            if len(bunch) == 0:
                ctx.violation('empty-bunch', f'bunch {bi} is empty', wit)
                shape.append((0, 'empty'))
                continue
            if len(bunch) > maxn:
                ctx.violation('count-limit/exceeded', f'bunch {bi} has {len(bunch)} specs > max_bunch_size {maxn}', wit)
            unavoidable = len(bunch) == 1 and len(bunch[0].spec_bytes) >= maxb
            if unavoidable:
                ctx.count('oversized_spec_shipped_alone')
            elif nb > maxb:
                ctx.violation('byte-limit/exceeded', f'bunch {bi} has {nb} bytes > max_bunch_bytesize {maxb}', wit)
            elif nb == maxb:
                ctx.violation('byte-limit/equal-to-limit', f'bunch {bi} has exactly max_bunch_bytesize={maxb} bytes; the limit is exclusive', wit)
            if nb == maxb - 1:
                ctx.count('tight_bunch_sum_eq_limit_minus_1')
            if len(bunch) == maxn:
                ctx.count('full_bunch_count_eq_limit')
            typs = {s.typ for s in bunch}
            if len(typs) == 2:
                ctx.count('mixed_bunch_groups_and_jobs')
            pos += len(bunch)
            if pos < len(sizes):
                nxt = sizes[pos] if got_bytes == exp else None
                by_count = len(bunch) >= maxn
                by_bytes = nxt is not None and nb + nxt >= maxb
                if by_bytes:
                    ctx.count('closed_by_bytes')
                    if nb + nxt == maxb:
                        ctx.count('next_spec_would_make_sum_eq_limit')
                if by_count:
                    ctx.count('closed_by_count')
                shape.append((len(bunch), ('B' if by_bytes else '') + ('C' if by_count else '')))
            else:
                shape.append((len(bunch), 'end'))
        if any(len(x.decode('utf-8')) != len(x) for x in exp):
            ctx.count('multibyte_specs')  # cases in which bytes != characters
        ctx.case(sample=wit, key=(G, tuple(shape)) if extra_key is None else (G, tuple(shape), extra_key),
                 nontrivial=len(bunches) >= 2)
        return bunches

    # ---- the SUBMISSION clause: what Batch.submit() puts on the wire -------------------------------------------
    # "splits ... into SUBMISSION bunches": the bunches of the property are the request bodies the client POSTs, not
    # the intermediate list _create_bunches returns.  Between that list and the wire lie Batch._submit (0 / 1 / many
    # bunches dispatch), _create_fast / _update_fast, _submit_job_group_bunches / _submit_job_bunches (which bunch is
    # offered to which pass), _submit_job_groups / _submit_jobs (per-bunch filter by SpecType) and
    # _submit_spec_bunch (payload assembly).  The real Batch.submit() is driven against a recording client (no
    # network; every request is answered like the service would) and the oracle is applied to the recorded request
    # bodies alone - it does not look at what _create_bunches returned:
    #   * the job-group specs of all requests, concatenated in the order the requests were sent, are byte-identical to
    #     the serialized job-group specs in order (job groups are sent one request after the other);
    #   * the job specs of all requests are exactly the serialized job specs, nothing lost, duplicated or altered, and
    #     every request carries a contiguous in-order run of them (job requests are sent concurrently, so the order in
    #     which they ARRIVE is not the client's to decide and is not judged);
    #   * "all job groups before all jobs": a request carrying jobs is sent only after every request carrying job
    #     groups has been answered (one create-fast / update-fast request may carry both);
    #   * every request: at least one spec, count <= max_bunch_size, sum of spec bytes < max_bunch_bytesize (a single
    #     spec >= the limit alone in a request is not judged, as above), each spec on the endpoint / in the field of
    #     its type, body byte-exact '[' spec ',' spec ... ']'.
    #   * submit() refuses (AssertionError) only when a spec is >= max_bunch_bytesize; no other exception.
    import asyncio
    import random as _random

    loads = getattr(aioclient.orjson, 'loads', None) or __import__('json').loads
    wire_loop = asyncio.new_event_loop()

    class FakeResponse:
        def __init__(self, payload):
            self._payload = payload

        async def json(self):
            return self._payload

    class RecordingClient:
        """Stands where BatchClient stands; records every request (path, raw body, logical send / answer instant)."""

        billing_project = 'verif'

        def __init__(self):
            self.log = []
            self.clock = 0
            self.yrng = _random.Random(0)
            self.batch_id = 1
            self.update_id = 1
            self.start_ids = (1, 1)

        def __getattr__(self, name):  # anything but _post / _patch is a harness error
            raise RuntimeError(f'network use attempted: {name}')

        def _tick(self):
            self.clock += 1
            return self.clock

        async def _answer(self, rec, payload):
            for _ in range(self.yrng.choice([0, 1, 1, 2, 3, 5, 8])):  # requests in flight overlap and overtake
                await asyncio.sleep(0)
            rec['done'] = self._tick()
            return FakeResponse(payload)

        async def _post(self, path, data=None, json=None):
            body = bytes(data._value) if data is not None else None
            rec = {'path': path, 'body': body, 'json': json, 'sent': self._tick(), 'done': None}
            self.log.append(rec)
            gid, jid = self.start_ids
            if path.endswith('/batches/create'):
                payload = {'id': self.batch_id, 'update_id': self.update_id}
            elif path.endswith('/updates/create'):
                payload = {'update_id': self.update_id}
            elif path.endswith('/batches/create-fast'):
                payload = {'id': self.batch_id, 'start_job_group_id': 1, 'start_job_id': 1}
            elif path.endswith('/update-fast'):
                payload = {'start_job_group_id': gid, 'start_job_id': jid}
            else:
                payload = {}
            return await self._answer(rec, payload)

        async def _patch(self, path):
            rec = {'path': path, 'body': None, 'json': None, 'sent': self._tick(), 'done': None}
            self.log.append(rec)
            gid, jid = self.start_ids
            return await self._answer(rec, {'start_job_group_id': gid, 'start_job_id': jid})

    def diff_class(got, exp, pos, other):
        """Which of lost / duplicated / altered applies to the emitted spec bytes `got` against `exp` (a spec of the
        other type is reported as wire/spec-on-wrong-endpoint, not as altered bytes)."""
        out = []
        have = {}
        for x in got:
            have[x] = have.get(x, 0) + 1
        if any(x not in pos and x not in other for x in got):
            out.append('bytes-altered')
        if any(x not in have for x in exp):
            out.append('lost-spec')
        if any(n > 1 for x, n in have.items() if x in pos):
            out.append('duplicated-spec')
        return out

    def submit_and_judge(b, rc, update_form, maxb, maxn, yseed, phase_note, own_progress=False):
        """Drive the real Batch.submit() of `b` (whose client is the RecordingClient `rc`) and judge the recorded
        requests.  Returns a dict describing what was observed (for the caller's workload counters) or None."""
        expG = [dumps(s) for s in b._job_group_specs]
        expJ = [dumps(s) for s in b._job_specs]
        G, J = len(expG), len(expJ)
        posG = {x: i for i, x in enumerate(expG)}
        posJ = {x: i for i, x in enumerate(expJ)}
        if len(posG) != G or len(posJ) != J or set(posG) & set(posJ):
            ctx.count('submit_skipped_specs_not_distinct')  # the client numbers its specs: never observed
            return None
        oversized = any(len(x) >= maxb for x in expG + expJ)
        rc.yrng = _random.Random(yseed)
        rc.batch_id = b.id if update_form else 1 + yseed % 10**6
        rc.update_id = 1 + yseed % 97
        rc.start_ids = (2 + yseed % 50, 1 + yseed % 700) if update_form else (1, 1)
        wit = {'phase': phase_note, 'update_form': update_form, 'n_groups': G, 'n_jobs': J,
               'max_bunch_bytesize': maxb, 'max_bunch_size': maxn}
        ctx.count('submit_cases')
        try:
            kw = {}
            if own_progress:  # the caller's own progress bar (what hailtop.batch passes) instead of the default one
                from hailtop.utils.rich_progress_bar import BatchProgressBar
                kw['progress'] = BatchProgressBar(disable=True)
                ctx.count('submit_cases_with_callers_progress_bar')
            wire_loop.run_until_complete(
                b.submit(max_bunch_bytesize=maxb, max_bunch_size=maxn, disable_progress_bar=True, **kw))
        except AssertionError as e:
            if oversized:
                ctx.count('submit_refused_oversized')
                if any(r['body'] is not None for r in rc.log):
                    ctx.count('submit_refused_after_sending_specs')
                return None
            wit['requests'] = [r['path'] for r in rc.log][:40]
            ctx.violation('wire/spurious-refusal',
                          f'submit() raised AssertionError although every spec is smaller than the byte limit: {str(e)[:160]}', wit)
            return None
        except Exception as e:
            wit['requests'] = [r['path'] for r in rc.log][:40]
            ctx.violation('wire/submit-raises', f'submit() raised {e!r}', wit)
            return None
        reqs = []     # spec-carrying requests in send order
        summary = []
        for r in rc.log:
            path = r['path']
            if path.endswith('/job-groups/create'):
                kind = 'G'
            elif path.endswith('/jobs/create'):
                kind = 'J'
            elif path.endswith('/create-fast') or path.endswith('/update-fast'):
                kind = 'F'
            else:
                ctx.count('submit_control_requests')
                continue
            ctx.count('submit_spec_requests')
            try:
                parsed = loads(r['body'])
                if kind == 'F':
                    eg, ej = parsed['job_groups'], parsed['bunch']
                else:
                    eg, ej = (parsed, []) if kind == 'G' else ([], parsed)
                if not isinstance(eg, list) or not isinstance(ej, list):
                    raise ValueError('spec container is not a list')
                eg = [dumps(x) for x in eg]
                ej = [dumps(x) for x in ej]
            except Exception as e:
                wit['request'] = {'path': path, 'body_head': (r['body'] or b'')[:200]}
                ctx.violation('wire/malformed-body', f'request body is not the documented JSON shape: {e!r}', wit)
                return None
            body = r['body']
            if kind == 'F':
                exact = (b'"job_groups":[' + b','.join(eg) + b']') in body and (b'"bunch":[' + b','.join(ej) + b']') in body
            else:
                exact = body == b'[' + b','.join(eg + ej) + b']'
            n, nb = len(eg) + len(ej), sum(len(x) for x in eg) + sum(len(x) for x in ej)
            reqs.append({'kind': kind, 'g': eg, 'j': ej, 'sent': r['sent'], 'done': r['done'], 'n': n, 'nb': nb})
            summary.append((kind, len(eg), len(ej), nb, r['sent'], r['done']))
            w = dict(wit, request={'index': len(reqs) - 1, 'path': path, 'n_job_groups': len(eg), 'n_jobs': len(ej), 'bytes': nb})
            if not exact:
                ctx.violation('wire/bytes-altered', 'request body is not the byte-exact list of serialized specs', w)
            if n == 0 and kind != 'F':
                ctx.violation('wire/empty-request', 'a request without any spec was sent', w)
            if n > maxn:
                ctx.violation('wire/count-limit/exceeded', f'request carries {n} specs > max_bunch_size {maxn}', w)
            if n == 1 and nb >= maxb:
                ctx.count('submit_oversized_spec_shipped_alone')
            elif nb > maxb:
                ctx.violation('wire/byte-limit/exceeded', f'request carries {nb} spec bytes > max_bunch_bytesize {maxb}', w)
            elif nb == maxb:
                ctx.violation('wire/byte-limit/equal-to-limit',
                              f'request carries exactly max_bunch_bytesize={maxb} spec bytes; the limit is exclusive', w)
            if any(x in posJ for x in eg) or any(x in posG for x in ej):
                ctx.violation('wire/spec-on-wrong-endpoint', 'a job spec was sent as a job group or a job-group spec as a job', w)
            if n == maxn:
                ctx.count('submit_requests_count_eq_limit')
            if nb == maxb - 1:
                ctx.count('submit_requests_bytes_eq_limit_minus_1')
        wit['requests_kind_groups_jobs_bytes_sent_done'] = summary[:60]
        # concatenation: job groups in send order; jobs as contiguous runs
        got_g = [x for r in reqs for x in r['g']]
        got_j = [x for r in reqs for x in r['j']]
        for side, got, exp, pos, other in (('job-group', got_g, expG, posG, posJ), ('job', got_j, expJ, posJ, posG)):
            kinds = diff_class(got, exp, pos, other)
            if kinds:
                sent = {pos[x] for x in got if x in pos}
                w = dict(wit, side=side, n_sent=len(got), n_expected=len(exp),
                         missing_positions=[i for i in range(len(exp)) if i not in sent][:60])
                for k in kinds:
                    ctx.violation('wire/' + k, f'{side} specs on the wire differ from the {side} specs of the batch: '
                                               f'{len(got)} sent, {len(exp)} created, first missing positions {w["missing_positions"][:8]}', w)
            elif side == 'job-group' and got != exp and all(x in pos for x in got):
                w = dict(wit, side=side, sent_positions=[pos[x] for x in got][:200])
                ctx.violation('wire/reordered', 'job-group specs were sent in another order than they were created', w)
            elif side == 'job':
                for r in reqs:
                    ps = [pos[x] for x in r['j'] if x in pos]
                    if ps and ps != list(range(ps[0], ps[0] + len(ps))):
                        w = dict(wit, side=side, request_positions=ps[:200])
                        ctx.violation('wire/reordered', 'a request does not carry a contiguous in-order run of the job specs', w)
                        break
            ctx.count('wire_checked_job_groups' if side == 'job-group' else 'wire_checked_jobs', len(exp))
        # all job groups before all jobs
        g_done = [r['done'] for r in reqs if r['g']]
        for r in reqs:
            if r['kind'] != 'F' and r['j'] and any(d is None or d > r['sent'] for d in g_done):
                ctx.violation('wire/jobs-sent-before-job-groups',
                              'a request carrying jobs was sent before every job-group request had been answered', wit)
                break
        jreqs = [r for r in reqs if r['kind'] == 'J']
        obs = {
            'fast': any(r['kind'] == 'F' for r in reqs),
            'n_spec_requests': len(reqs),
            'n_group_requests': sum(1 for r in reqs if r['kind'] == 'G'),
            'n_job_requests': len(jreqs),
        }
        firsts = [posJ[r['j'][0]] for r in jreqs if r['j'] and r['j'][0] in posJ]
        if firsts != sorted(firsts):
            ctx.count('submit_cases_job_requests_sent_out_of_list_order')
        if any(a['done'] is not None and a['done'] > c['sent'] for a, c in zip(jreqs, jreqs[1:])):
            ctx.count('submit_cases_job_requests_in_flight_together')
        dones = [r['done'] for r in jreqs if r['done'] is not None]
        if dones != sorted(dones):
            ctx.count('submit_cases_job_requests_answered_out_of_order')
        return obs

    def count_submit_class(obs, bunches, G, J, update_form):
        """Workload classes of the submission clause, from the judged bunch list and the observed requests."""
        if obs is None:
            return
        if obs['n_spec_requests'] == 0:
            ctx.count('submit_zero_spec_cases')
            return
        if obs['fast']:
            ctx.count('submit_fast_path_cases')
            ctx.count('submit_fast_path_cases_update_form' if update_form else 'submit_fast_path_cases_new_batch')
            if G and J:
                ctx.count('submit_fast_path_cases_groups_and_jobs')
            return
        ctx.count('submit_slow_path_cases')
        ctx.count('submit_slow_path_cases_update_form' if update_form else 'submit_slow_path_cases_new_batch')
        if obs['n_job_requests'] > 6:
            ctx.count('submit_slow_path_cases_more_job_requests_than_gather_slots')
        if G and not J:
            ctx.count('submit_slow_path_cases_groups_only')
        elif J and not G:
            ctx.count('submit_slow_path_cases_jobs_only')
        elif bunches is not None:
            mixed = [x for x in bunches if len({s.typ for s in x}) == 2]
            if mixed:  # the greedy packer does not start a new bunch where job groups end and jobs begin
                ctx.count('submit_slow_path_cases_mixed_boundary_bunch')
                ctx.count('submit_slow_path_cases_mixed_boundary_bunch_' + ('update_form' if update_form else 'new_batch'))
                if mixed[0] is bunches[0]:
                    ctx.count('submit_slow_path_cases_mixed_bunch_is_first')
                if mixed[0] is bunches[-1]:
                    ctx.count('submit_slow_path_cases_mixed_bunch_is_last')
                if mixed[0] is not bunches[0] and mixed[0] is not bunches[-1]:
                    ctx.count('submit_slow_path_cases_mixed_bunch_in_the_middle')
                ctx.count('submit_jobs_in_mixed_boundary_bunches', sum(1 for s in mixed[0] if s.typ == SpecType.JOB))
            else:
                ctx.count('submit_slow_path_cases_groups_end_on_bunch_boundary')

    # ---- phase sized -------------------------------------------------------------------------
    N = ctx.pick(40_000, 100_000)
    for i, rng in ctx.cases(N, 'sized'):
        n = rng.choice([0, 1, 1, 2, 2, 3, 3, 4, 5, 6, 8, 10, 13, 20, 30, 45, 60, rng.randint(0, 60)])
        style = rng.random()
        if style < 0.35:
            targets = [rng.randint(2, 400) for _ in range(n)]
        elif style < 0.6:  # many equal small sizes: sums hit limits exactly
            base = rng.choice([2, 6, 7, 8, 9, 10, 16, 25, 50, 100])
            targets = [base + rng.choice([0, 0, 0, 1]) for _ in range(n)]
        elif style < 0.8:  # small with an occasional large one
            targets = [rng.choice([2, 7, 8, 9, 12, 20]) if rng.random() < 0.8 else rng.randint(200, 400) for _ in range(n)]
        else:
            targets = [rng.choice([2, 6, 7, 8, 60, 61, 128, 255, 256, 399, 400]) for _ in range(n)]
        n_groups = rng.choice([0, 0, n, rng.randint(0, n), rng.randint(0, n), min(n, 1), min(n, 2)])
        groups = [make_spec(rng, dumps, t, k, True) for k, t in enumerate(targets[:n_groups])]
        jobs = [make_spec(rng, dumps, t, k, False) for k, t in enumerate(targets[n_groups:])]
        sizes = [len(dumps(s)) for s in groups] + [len(dumps(s)) for s in jobs]
        maxb, maxn = choose_limits(rng, sizes, n_groups)
        judge(groups, jobs, maxb, maxn, 'sized')

    # ---- phase api: specs made by the client's own create_job_group / create_job ------------------
    N2 = ctx.pick(400, 1_500)
    for i, rng in ctx.cases(N2, 'api'):
        rc = RecordingClient()
        b = new_batch(client=rc)
        if not hasattr(b, '_job_specs'):
            raise RuntimeError('cannot construct a Batch without network')
        n_g = rng.choice([0, 0, 1, 2, 3, rng.randint(0, 12)])
        n_j = rng.choice([0, 1, 2, 3, 5, 8, rng.randint(0, 40)])
        jgs = []
        for k in range(n_g):
            attrs = {'name': rng.choice(PADS) * rng.randint(0, 40)} if rng.random() < 0.7 else None
            jgs.append(b.create_job_group(attributes=attrs, cancel_after_n_failures=rng.choice([None, 1, 5])))
        made = []
        for k in range(n_j):
            kw = {}
            if rng.random() < 0.6:
                kw['attributes'] = {'name': rng.choice(PADS) * rng.randint(0, 60)}
            if rng.random() < 0.3:
                kw['resources'] = {'cpu': rng.choice(['1', '250m', '0.5']), 'memory': rng.choice(['standard', '1Gi', '3.75G'])}
            if rng.random() < 0.3 and made:
                kw['parents'] = [rng.choice(made)]
            if rng.random() < 0.2:
                kw['env'] = {'A': 'b' * rng.randint(0, 30)}
            owner = rng.choice(jgs) if jgs and rng.random() < 0.5 else b
            made.append(owner.create_job('ubuntu:22.04', ['echo', 'x' * rng.randint(0, 50)], **kw))
        groups, jobs = b._job_group_specs, b._job_specs
        sizes = [len(dumps(s)) for s in groups] + [len(dumps(s)) for s in jobs]
        maxb, maxn = choose_limits(rng, sizes, len(groups))
        ctx.count('api_cases')
        ctx.count('api_specs', len(sizes))
        bunches = judge(groups, jobs, maxb, maxn, 'api')
        # the same batch through the real Batch.submit(): what reaches the wire (drawn last: the workload above is unchanged)
        n_g, n_j = len(groups), len(jobs)
        obs = submit_and_judge(b, rc, False, maxb, maxn, rng.getrandbits(32), 'api')
        count_submit_class(obs, bunches, n_g, n_j, False)


    # ---- phase tree: NESTED job groups made by the client's own API, in every creation order -----------------
    # The order clause needs specs whose own fields are not monotone along the list: the parent ids of a branching
    # job-group tree created depth-first / interleaved, the job-group references and parent lists of jobs created
    # in arbitrary groups, absolute (already submitted) and in-update parents mixed in an update of an existing
    # batch.  Everything is built through Batch.create_job_group / JobGroup.create_job_group / create_job /
    # Batch.get_job_group / Job.submitted_job (real client code); the monitor keeps its own creation log.
    loads = getattr(aioclient.orjson, 'loads', None) or __import__('json').loads
    N3 = ctx.pick(1_500, 4_000)
    for i, rng in ctx.cases(N3, 'tree'):
        update_form = rng.random() < 0.4
        rc = RecordingClient()
        b = new_batch(rng.randint(1, 10**6) if update_form else None, client=rc)
        big = rng.random() < 0.012  # enough specs to cross the production limits (1024 specs / 1 MiB)
        if big:
            n_g = rng.choice([1025, 1100, 1500, 2049, rng.randint(1025, 2300)])
            n_j = rng.choice([0, 5, 1024, rng.randint(0, 1200)])
        else:
            n_g = rng.choice([2, 3, 3, 4, 5, 6, 8, 12, 20, 40, rng.randint(2, 40)])
            n_j = rng.choice([0, 0, 1, 2, 3, 5, 8, 13, rng.randint(0, 40)])
        shape = rng.choice(['uniform', 'uniform', 'interleaved', 'interleaved', 'dfs', 'dfs', 'reverse-children',
                            'two-level', 'bfs', 'chain', 'flat', 'comb'])
        submitted_groups = []
        submitted_jobs = []
        if update_form:  # handles of job groups / jobs that already exist server-side, ids in no particular order
            submitted_groups = [b.get_job_group(rng.randint(1, 60)) for _ in range(rng.choice([0, 1, 2, 3, 6]))]
            submitted_jobs = [aioclient.Job.submitted_job(b, rng.randint(1, 500)) for _ in range(rng.choice([0, 1, 3, 6]))]
        handles = []   # unsubmitted JobGroup handles in creation order
        glog = []      # monitor's own creation log: (parent kind, parent id) per created job group
        jlog = []      # ((job-group kind, job-group id), in-update parent ids, absolute parent ids) per created job
        made = []
        stack = []
        n_top = max(1, rng.randint(1, max(1, n_g // 2)))

        def pick_parent(k):
            """None = the batch itself (root job group), else a JobGroup handle."""
            if submitted_groups and rng.random() < 0.3:
                return rng.choice(submitted_groups)
            if not handles or shape == 'flat':
                return None
            if shape == 'chain':
                return handles[-1]
            if shape == 'uniform':
                return rng.choice([None] + handles)
            if shape == 'interleaved':  # a, a's child, next top-level group, its child, ...
                r = rng.random()
                return handles[-1] if (k % 2 == 1 and r < 0.8) else (None if r < 0.7 else rng.choice(handles))
            if shape == 'dfs':
                while stack and rng.random() < 0.45:
                    stack.pop()
                return stack[-1] if stack else None
            if shape == 'reverse-children':  # n_top top-level groups, then children of them in descending order
                if k < n_top:
                    return None
                return handles[max(0, min(len(handles), n_top) - 1 - ((k - n_top) % n_top))]
            if shape == 'two-level':
                if k < n_top:
                    return None
                return rng.choice(handles[:n_top])
            if shape == 'bfs':  # parents non-decreasing: already sorted (the benign neighbour)
                return handles[min(len(handles) - 1, k // 3)] if k >= 3 else None
            if shape == 'comb':  # a spine; the leaf of a spine node is created after the next spine node
                return handles[-2] if (k % 2 == 0 and len(handles) >= 2) else handles[-1]
            raise AssertionError(shape)

        def make_group(k):
            kw = {}
            if rng.random() < (0.1 if big else 0.6):
                kw['attributes'] = {'name': rng.choice(PADS) * rng.randint(0, 40)}
            if rng.random() < 0.3:
                kw['cancel_after_n_failures'] = rng.choice([1, 5, 100])
            if rng.random() < 0.1:
                kw['callback'] = 'https://example.invalid/cb/' + 'c' * rng.randint(0, 20)
            parent = pick_parent(k)
            jg = b.create_job_group(**kw) if parent is None else parent.create_job_group(**kw)
            if parent is None:
                glog.append(('abs' if update_form else 'upd', 0))
            else:
                glog.append(('abs' if parent.is_submitted else 'upd', parent._job_group_id))
            handles.append(jg)
            if shape == 'dfs':
                stack.append(jg)

        def make_job():
            kw = {}
            if rng.random() < (0.1 if big else 0.5):
                kw['attributes'] = {'name': rng.choice(PADS) * rng.randint(0, 60)}
            if rng.random() < 0.2:
                kw['resources'] = {'cpu': rng.choice(['1', '250m', '0.5']), 'memory': rng.choice(['standard', '1Gi'])}
            ps = []
            if made and rng.random() < 0.5:
                ps += rng.sample(made, min(len(made), rng.choice([1, 1, 2, 3])))
            if submitted_jobs and rng.random() < 0.4:
                ps += rng.sample(submitted_jobs, min(len(submitted_jobs), rng.choice([1, 2])))
            if ps:
                rng.shuffle(ps)
                kw['parents'] = ps
            owners = [None] + handles + submitted_groups
            owner = rng.choice(owners) if rng.random() < 0.85 else None
            j = (b if owner is None else owner).create_job('ubuntu:22.04', ['echo', 'x' * rng.randint(0, 30)], **kw)
            if owner is None:
                og = ('abs' if update_form else 'upd', 0)
            else:
                og = ('abs' if owner.is_submitted else 'upd', owner._job_group_id)
            jlog.append((og, [p._job_id for p in ps if not p.is_submitted], [p._job_id for p in ps if p.is_submitted]))
            made.append(j)

        # job groups and jobs are created interleaved (the client keeps the two lists apart)
        todo = ['g'] * n_g + ['j'] * n_j
        if rng.random() < 0.7:
            rng.shuffle(todo)
        kg = 0
        for t in todo:
            if t == 'g':
                make_group(kg)
                kg += 1
            else:
                make_job()
        groups, jobs = b._job_group_specs, b._job_specs
        sizes = [len(dumps(s)) for s in groups] + [len(dumps(s)) for s in jobs]
        if big:
            maxb, maxn = 1024 * 1024, 1024
            ctx.count('tree_production_limit_cases')
        else:
            maxb, maxn = choose_limits(rng, sizes, len(groups))
        # structure class of the workload (measured on the monitor's own creation log, not on the client's specs)
        pids = [pid for _, pid in glog]
        kinds = {k for k, _ in glog}
        descents = sum(1 for x, y in zip(pids, pids[1:]) if x > y)
        jrefs = [og[1] for og, _, _ in jlog]
        jdesc = sum(1 for x, y in zip(jrefs, jrefs[1:]) if x > y)
        ctx.count('tree_cases')
        ctx.count('tree_specs', len(sizes))
        if update_form:
            ctx.count('tree_update_form_cases')
        if any(k == 'upd' and pid != 0 for k, pid in glog):
            ctx.count('tree_nested_cases')
        if descents:
            ctx.count('tree_cases_group_parent_ids_not_monotone')
            ctx.count('tree_cases_group_parent_ids_not_monotone_' + ('update_form' if update_form else 'new_batch'))
            ctx.count('tree_group_parent_id_descents', descents)
        if len(kinds) == 2:
            ctx.count('tree_cases_absolute_and_in_update_parents_mixed')
        if jdesc:
            ctx.count('tree_cases_job_group_refs_not_monotone')
        if any(len(up) + len(ab) >= 2 for _, up, ab in jlog):
            ctx.count('tree_cases_job_with_several_parents')
        ctx.seen('tree_shapes', shape + ('/update' if update_form else '/new'))
        bunches = judge(groups, jobs, maxb, maxn, 'tree',
                        extra_key=('tree', update_form, min(descents, 3), min(jdesc, 3), len(kinds)))
        if bunches is None:
            continue
        # the same batch through the real Batch.submit(): what reaches the wire.  A shallow copy of the client's lists
        # is judged below (submit() empties them); the draw comes last, the workload above is unchanged.
        groups, jobs = list(groups), list(jobs)
        obs = submit_and_judge(b, rc, update_form, maxb, maxn, rng.getrandbits(32), 'tree')
        count_submit_class(obs, bunches, len(groups), len(jobs), update_form)
        if big and obs is not None:
            ctx.count('submit_production_limit_cases')
        if descents and sum(1 for x in bunches if any(s.typ == SpecType.JOB_GROUP for s in x)) >= 2:
            ctx.count('tree_not_monotone_groups_split_over_bunches')
        # "the original specifications in order", stated against the monitor's own creation log: the k-th emitted
        # job-group spec is the k-th job group the monitor created (the client numbers them 1, 2, ... as they are
        # made) with the parent the monitor gave it; same for jobs.  Independent of Batch._job_group_specs/_job_specs.
        flat = [s for x in bunches for s in x]
        try:
            out_g = [loads(s.spec_bytes) for s in flat if s.typ == SpecType.JOB_GROUP]
            out_j = [loads(s.spec_bytes) for s in flat if s.typ == SpecType.JOB]
        except Exception:  # not JSON any more: the concat oracle has already reported bytes-altered
            ctx.count('tree_output_not_json')
            continue

        def gparent_of(g):
            return ('abs', g['absolute_parent_id']) if 'absolute_parent_id' in g else ('upd', g.get('in_update_parent_id'))

        wit = {'phase': 'tree', 'shape': shape, 'update_form': update_form, 'creation_log_groups': glog[:80],
               'emitted_group_ids': [g.get('job_group_id') for g in out_g][:80],
               'emitted_group_parents': [gparent_of(g) for g in out_g][:80],
               'max_bunch_bytesize': maxb, 'max_bunch_size': maxn, 'bunch_lengths': [len(x) for x in bunches][:80]}
        if [g.get('job_group_id') for g in out_g] != list(range(1, len(glog) + 1)):
            ctx.violation('creation-order/job-groups',
                          'emitted job-group specs are not the created job groups 1..G in creation order', wit)
        else:
            for k, (g, want) in enumerate(zip(out_g, glog)):
                if gparent_of(g) != want:
                    ctx.violation('creation-order/job-group-parent',
                                  f'job group {k + 1} was created under {want} but is emitted with parent {gparent_of(g)}', wit)
                    break
            ctx.count('creation_order_checked_groups', len(out_g))
        if [j.get('job_id') for j in out_j] != list(range(1, len(jlog) + 1)):
            wit['emitted_job_ids'] = [j.get('job_id') for j in out_j][:80]
            ctx.violation('creation-order/jobs', 'emitted job specs are not the created jobs 1..J in creation order', wit)
        else:
            for k, (j, (og, up, ab)) in enumerate(zip(out_j, jlog)):
                got = ('abs', j['absolute_job_group_id']) if 'absolute_job_group_id' in j else ('upd', j.get('in_update_job_group_id'))
                if got != og or j.get('in_update_parent_ids') != up or j.get('absolute_parent_ids') != ab:
                    wit['job'] = {'index': k + 1, 'created': (og, up, ab),
                                  'emitted': (got, j.get('in_update_parent_ids'), j.get('absolute_parent_ids'))}
                    ctx.violation('creation-order/job-references',
                                  f'job {k + 1} is emitted with other job-group / parent references than it was created with', wit)
                    break
            ctx.count('creation_order_checked_jobs', len(out_j))

    # ---- phase fields: arbitrary spec lists whose FIELD VALUES are not monotone along the list ---------------
    # "all lists of specs": every field the client writes into a job-group spec and the always-present plus some
    # optional fields of a job spec appear, per list, ascending, descending, random, constant, partly absent or
    # absent.  A step that orders, groups or de-duplicates specs by a field is the identity on the other phases'
    # lists for most fields; here it is not.
    N4 = ctx.pick(4_000, 10_000)
    for i, rng in ctx.cases(N4, 'fields'):
        n = rng.choice([2, 3, 3, 4, 5, 6, 8, 10, 13, 20, 30, rng.randint(2, 40)])
        G = rng.choice([0, n, rng.randint(0, n), rng.randint(1, n), max(0, n - 1), min(n, 2)])
        J = n - G

        def column(m, kind):
            """m values of one field along the list; None where the field is absent from the spec."""
            mode = rng.choice(['asc', 'desc', 'random', 'random', 'const', 'absent', 'sparse', 'asc-one-swap'])
            if mode == 'absent' or m == 0:
                return [None] * m
            if kind == 'int':
                hi = rng.choice([3, m, m + 3, 1000])
                vals = [rng.randint(0, hi) for _ in range(m)]
            elif kind == 'id':
                vals = list(range(1, m + 1)) if rng.random() < 0.5 else [rng.randint(0, m + 2) for _ in range(m)]
                if mode in ('random', 'sparse'):
                    rng.shuffle(vals)
            elif kind == 'bool':
                vals = [rng.random() < 0.5 for _ in range(m)]
            elif kind == 'ids':
                vals = [sorted(rng.sample(range(1, m + 6), rng.choice([0, 0, 1, 1, 2, 3]))) for _ in range(m)]
                if rng.random() < 0.5:
                    for v in vals:
                        rng.shuffle(v)
            elif kind == 'str':
                vals = [rng.choice(PADS + ['a', 'b', 'Z']) * rng.randint(0, 12) + rng.choice(['', 'q', '0']) for _ in range(m)]
            else:
                raise AssertionError(kind)
            if mode in ('asc', 'asc-one-swap'):
                vals.sort()
                if mode == 'asc-one-swap' and m >= 2:
                    a = rng.randrange(m - 1)
                    c = rng.randrange(a + 1, m)
                    vals[a], vals[c] = vals[c], vals[a]
            elif mode == 'desc':
                vals.sort(reverse=True)
            elif mode == 'const':
                vals = [vals[0]] * m
            elif mode == 'sparse':
                vals = [v if rng.random() < 0.5 else None for v in vals]
            return vals

        gcols = {
            'job_group_id': column(G, 'id'),
            'attributes': column(G, 'str'),
            'callback': column(G, 'str'),
            'cancel_after_n_failures': column(G, 'int'),
        }
        gparent = column(G, 'id')
        p_abs = rng.choice([0.0, 0.0, 0.5, 1.0])
        gparent_abs = [rng.random() < p_abs for _ in range(G)]
        groups = []
        for k in range(G):
            spec = {}
            for f in ('job_group_id', 'attributes', 'callback', 'cancel_after_n_failures'):  # the client's key order
                v = gcols[f][k]
                if v is not None:
                    spec[f] = {'name': v} if f == 'attributes' else v
            if gparent[k] is not None:
                spec['absolute_parent_id' if gparent_abs[k] else 'in_update_parent_id'] = gparent[k]
            groups.append(spec)
        gcols['absolute_parent_id'] = [v if a else None for v, a in zip(gparent, gparent_abs)]
        gcols['in_update_parent_id'] = [None if a else v for v, a in zip(gparent, gparent_abs)]
        jcols = {
            'always_run': column(J, 'bool'),
            'n_max_attempts': column(J, 'int'),
            'always_copy_output': column(J, 'bool'),
            'job_id': column(J, 'id'),
            'absolute_parent_ids': column(J, 'ids'),
            'in_update_parent_ids': column(J, 'ids'),
            'process': column(J, 'str'),
        }
        jref = column(J, 'id')
        p_abs = rng.choice([0.0, 0.0, 0.5, 1.0])
        jref_abs = [rng.random() < p_abs for _ in range(J)]
        jopt = {'env': column(J, 'str'), 'timeout': column(J, 'int'), 'attributes': column(J, 'str'),
                'mount_tokens': column(J, 'bool'), 'regions': column(J, 'str')}
        jobs = []
        for k in range(J):
            spec = {}
            for f in ('always_run', 'n_max_attempts', 'always_copy_output', 'job_id', 'absolute_parent_ids',
                      'in_update_parent_ids', 'process'):
                v = jcols[f][k]
                if v is not None:
                    spec[f] = {'type': 'docker', 'image': 'ubuntu', 'command': ['echo', v]} if f == 'process' else v
            if jref[k] is not None:
                spec['absolute_job_group_id' if jref_abs[k] else 'in_update_job_group_id'] = jref[k]
            for f in ('env', 'timeout', 'attributes', 'mount_tokens', 'regions'):
                v = jopt[f][k]
                if v is not None:
                    spec[f] = ({'name': v} if f == 'attributes' else [v] if f == 'regions'
                               else [{'name': 'A', 'value': v}] if f == 'env' else v)
            jobs.append(spec)
        jcols.update(jopt)
        jcols['absolute_job_group_id'] = [v if a else None for v, a in zip(jref, jref_abs)]
        jcols['in_update_job_group_id'] = [None if a else v for v, a in zip(jref, jref_abs)]
        if rng.random() < 0.15:  # exact duplicates of a structured spec, adjacent or far apart
            lst = groups if (groups and (not jobs or rng.random() < 0.5)) else jobs
            lst[rng.randrange(len(lst))] = copy.deepcopy(lst[rng.randrange(len(lst))])
            ctx.count('fields_cases_with_duplicated_spec')
            disordered = None  # the bookkeeping columns no longer describe the list exactly: not counted below
        else:
            disordered = []
            for side, cols in (('group', gcols), ('job', jcols)):
                for f, col in cols.items():
                    present = [v for v in col if v is not None]
                    if any(x > y for x, y in zip(present, present[1:])):
                        disordered.append(f'{side}.{f}')
            for name in disordered:
                ctx.seen('fields_disordered', name)
            ctx.count('fields_disordered_field_lists', len(disordered))
            if any(name.startswith('group.') for name in disordered):
                ctx.count('fields_cases_group_field_disordered')
            if any(name.startswith('job.') for name in disordered):
                ctx.count('fields_cases_job_field_disordered')
        sizes = [len(dumps(s)) for s in groups] + [len(dumps(s)) for s in jobs]
        maxb, maxn = choose_limits(rng, sizes, G)
        ctx.count('fields_cases')
        cls = None if disordered is None else (any(d[0] == 'g' for d in disordered), any(d[0] == 'j' for d in disordered))
        bunches = judge(groups, jobs, maxb, maxn, 'fields', extra_key=('fields', cls))
        if bunches is not None and disordered and len(bunches) >= 2:
            ctx.count('fields_disordered_split_over_bunches')

    # ---- phase submit: the submission clause at the places where the bunch list and the wire can part ------------
    # Batches built with the client's own API and sent with the real Batch.submit(): new batch and update of an
    # existing batch; job groups only, jobs only, both; nothing at all; one bunch (create-fast / update-fast) and
    # several (batches/create | updates/create, job-groups/create ..., jobs/create ... concurrently, commit).  With
    # both kinds of spec and several bunches the greedy packer leaves ONE bunch that holds the last job groups and the
    # first jobs unless the job groups end exactly where a limit closes a bunch: limits are drawn so that this mixed
    # bunch is the first, a middle or the last bunch, has 1 .. many jobs, is closed by the count or by the byte limit,
    # and so that the boundary is aligned (max_bunch_size divides the number of job groups) as the neighbouring case.
    N5 = ctx.pick(3_000, 8_000)
    for i, rng in ctx.cases(N5, 'submit'):
        update_form = rng.random() < 0.45
        rc = RecordingClient()
        b = new_batch(rng.randint(1, 10**6) if update_form else None, client=rc)
        n_g = rng.choice([0, 0, 1, 2, 3, 4, 5, 6, 8, 9, 12, 16, rng.randint(0, 30)])
        n_j = rng.choice([0, 1, 2, 3, 5, 8, 9, 13, 20, 30, rng.randint(0, 45)])
        if rng.random() < 0.03:
            n_g = n_j = 0
        pad_hi = rng.choice([0, 0, 10, 40, 120])
        submitted_groups = [b.get_job_group(rng.randint(1, 60)) for _ in range(rng.choice([0, 1, 3]))] if update_form else []
        submitted_jobs = [aioclient.Job.submitted_job(b, rng.randint(1, 500)) for _ in range(rng.choice([0, 2]))] if update_form else []
        handles, made = [], []
        todo = ['g'] * n_g + ['j'] * n_j
        if rng.random() < 0.5:
            rng.shuffle(todo)
        for t in todo:
            kw = {}
            if pad_hi and rng.random() < 0.7:
                kw['attributes'] = {'name': rng.choice(PADS) * rng.randint(0, pad_hi)}
            if t == 'g':
                if rng.random() < 0.2:
                    kw['cancel_after_n_failures'] = rng.choice([1, 5])
                r = rng.random()
                parent = rng.choice(handles) if (handles and r < 0.35) else rng.choice(submitted_groups) if (submitted_groups and r < 0.5) else b
                handles.append(parent.create_job_group(**kw))
            else:
                ps = []
                if made and rng.random() < 0.4:
                    ps += rng.sample(made, min(len(made), rng.choice([1, 1, 2])))
                if submitted_jobs and rng.random() < 0.3:
                    ps.append(rng.choice(submitted_jobs))
                if ps:
                    kw['parents'] = ps
                owner = rng.choice([b] + handles + submitted_groups)
                made.append(owner.create_job('ubuntu:22.04', ['echo', 'x' * rng.randint(0, 20)], **kw))
        groups, jobs = list(b._job_group_specs), list(b._job_specs)
        G, J = len(groups), len(jobs)
        sizes = [len(dumps(s)) for s in groups] + [len(dumps(s)) for s in jobs]
        maxb, maxn = choose_limits(rng, sizes, G)
        mode = rng.random()
        if mode < 0.40:    # only the count limit binds
            maxb = 1024 * 1024
            divisors = [d for d in range(1, G + 1) if G % d == 0] or [1]
            maxn = rng.choice([1, 2, 3, 4, 5, max(1, G - 1), max(1, G), G + 1, G + 2, rng.choice(divisors), rng.choice(divisors),
                               max(1, G // 2 + 1), max(1, (G + J) // 2), max(1, G + J - 1), rng.randint(1, 12)])
        elif mode < 0.65:  # only the byte limit binds
            maxn = 1024
        ctx.count('submit_phase_cases')
        bunches = judge(groups, jobs, maxb, maxn, 'submit', extra_key=('submit', update_form))
        own_progress = rng.random() < 0.15
        obs = submit_and_judge(b, rc, update_form, maxb, maxn, rng.getrandbits(32), 'submit', own_progress=own_progress)
        count_submit_class(obs, bunches, G, J, update_form)


# ---- validation record ---------------------------------------------------------------------------------
# Unchanged tree: quick and thorough, seeds 0..4: all HELD (exit 0).
# Breaks applied one at a time to a scratch worktree (hailtop/batch_client/aioclient.py), quick tier, seed 0:
#   DESIGN 1  `bunch_n_bytes + n_bytes <= max_bunch_bytesize` (<= for <)          caught  byte-limit/equal-to-limit
#   DESIGN 2  `bunch_n_bytes = 0` instead of `= n_bytes` when a bunch is opened    caught  byte-limit/exceeded (+ equal-to-limit)
#   own 1     `len(bunch) <= max_bunch_size` (count off by one)                    caught  count-limit/exceeded
#   own 2     jobs concatenated before job groups                                  caught  concat/reordered, order/type-tag-wrong
#   own 3     job-group specs tagged SpecType.JOB                                  caught  order/type-tag-wrong
#   own 4     final bunch appended only `if len(bunch) > 1` (last singleton lost)  caught  concat/lost-spec
#   own 5     SpecBytes.n_bytes = len(spec_bytes.decode()) (characters, not bytes) MISSED at first: the oracle summed
#             s.n_bytes, i.e. it trusted the broken accessor; it now measures len(s.spec_bytes) itself -> caught
#             byte-limit/equal-to-limit, byte-limit/exceeded (multi-byte padding in the generator is what exposes it)
#   own 6     per-spec assertion disabled (`assert True`)                          caught  empty-bunch (an oversized first
#             spec closes an empty bunch); an oversized spec that ends up alone in a bunch is deliberately not judged
#
# Order clause on lists with non-monotone fields (phases 'tree' and 'fields', added after seeded/C19-agent4 was missed:
# the job-group specs of phases 'sized' and 'api' are flat, so a sort by parent id was the identity on every list).
# Unchanged tree: quick seeds 0..4, thorough seeds 0..2: HELD.  Breaks, scratch worktree, quick tier, seed 0:
#   seeded C19-agent4  job-group specs sorted by in_update_parent_id (default 0) in _create_bunches
#                      caught  concat/reordered (phases tree + fields), creation-order/job-groups (tree)
#   own 7     job specs sorted by their job-group reference in _create_bunches    caught  concat/reordered, creation-order/jobs
#   own 8     job-group specs sorted by absolute_parent_id (update form only)     caught  concat/reordered, creation-order/job-groups
#   own 9     Batch._create_job_group keeps _job_group_specs sorted by parent id (other code site: the client's own
#             list is already permuted, so the concat oracle agrees with it)      caught  creation-order/job-groups only
#   own 10    job-group specs de-duplicated by job_group_id                        caught  concat/lost-spec (+ reordered)
#
# Submission clause (real Batch.submit() against a recording client; added after seeded/C19-agent8 was missed: the
# monitor only looked at the list _create_bunches returns, nothing between that list and the wire was executed).
# Unchanged tree: quick seeds 0..4, thorough seeds 0..2: HELD.  Breaks, scratch worktree, quick tier, seed 0:
#   seeded C19-agent8  _submit_job_bunches offers only bunches with bunch[0].typ == JOB to the job pass: the jobs of the
#                      mixed boundary bunch are never sent                                caught  wire/lost-spec
#   own 11    _submit_job_group_bunches stops at the first bunch with bunch[-1].typ != JOB_GROUP (groups of the mixed
#             bunch never sent)                                                           caught  wire/lost-spec
#   own 12    _submit_spec_bunch payload loop stops one spec early                        caught  wire/lost-spec
#   own 13    update form: job-group pass and job pass gathered concurrently              caught  wire/jobs-sent-before-job-groups
#   own 14    update-fast also taken for 2 bunches when the second holds one spec         caught  wire/lost-spec
#   own 15    _create_fast sorts the job-group spec bytes                                 caught  wire/reordered
#   own 16    _submit_job_groups sends the whole bunch when it starts with a job group    caught  wire/spec-on-wrong-endpoint
#   own 17    _submit_job_bunches offers the 8th bunch twice                              caught  wire/duplicated-spec
#   seeded C19-agent2 / -agent4 / -agent6 are now also seen on the wire (wire/count-limit/exceeded, wire/reordered,
#   wire/byte-limit/*) next to their _create_bunches keys.
