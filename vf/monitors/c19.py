"""C19 Client spec bunching preserves order and limits.

Real code: hailtop.batch_client.aioclient.Batch._create_bunches, called on a real Batch built with a
dummy client (no network).  Observed: the returned bunches (bytes + type tag of every SpecBytes) or the
AssertionError with which the real code refuses a spec that can never fit.

Oracle (exactly the property statement):
  * flattening the bunches gives orjson.dumps(spec) of every job-group spec, then of every job spec,
    byte-identical and in the original order, with JOB_GROUP tags on the first G and JOB tags on the rest;
  * no bunch is empty; len(bunch) <= max_bunch_size;
  * sum(n_bytes) < max_bunch_bytesize.  The byte limit is *exclusive*: that is how the real code defines it
    ("every spec must be less than max_bunch_bytesize" - a single spec of exactly the limit is refused), so a
    bunch whose sum equals the limit is over the limit by the code's own definition.  sum == limit and
    sum > limit are reported under different mechanism keys.
  * a spec with n_bytes >= max_bunch_bytesize cannot be placed in any conforming bunch: the real code refuses
    the whole call with an AssertionError.  That refusal is legitimate (counted, not judged); a hypothetical
    implementation that ships such a spec alone in its own bunch is not judged either (unavoidable).  A refusal
    when every spec fits, or any other exception, is a violation.

Workload: phase 'sized' = 0-60 dict specs (split at a random point into job-group specs and job specs)
with exact target sizes 2-400 bytes (ASCII and multi-byte UTF-8 padding, so bytes != characters), limits
chosen at the boundaries: byte limit in {window sum - 1, window sum, window sum + 1, max size (+0, +1, +2),
total (+0, +1), random, 1 MiB}, count limit in {1, 2, 3, n-1, n, n+1, G-1, G, G+1, random, 1024}.
Phase 'api' = specs produced by the client's own Batch.create_job_group / create_job on the same instance.
"""
import copy

PID = 'C19'
LEVEL = 'exploration'
RULE = (
    'phase sized: seeded lists of 0-60 dict specs with exact serialized sizes 2-400 B (ASCII / 2-, 3-, 4-byte UTF-8 padding), '
    'split into job-group specs and job specs at a random point; byte limit drawn from sums of random windows -1/0/+1, '
    'largest spec +0/+1/+2, total +0/+1, random, 1 MiB; count limit from 1,2,3,n-1,n,n+1,G-1,G,G+1,random,1024. '
    'phase api: specs built by Batch.create_job_group/create_job (real client code), same limit choice. '
    'Distinct by (number of job-group specs, per-bunch (length, why the bunch was closed: bytes/count/end), refusal); '
    'non-trivial when at least two bunches were produced or the call was refused.'
)
ASSUMPTIONS = [
    'orjson is the json-backed shim vf/shims/pkgs/orjson (compact separators, UTF-8); the oracle serializes with the same module object the real code uses',
    'the byte limit is exclusive (sum < max_bunch_bytesize), as defined by the real code\'s own per-spec assertion',
]
TRUSTED_BASE = ['vf/shims/pkgs/orjson (json.dumps-backed)', 'oracle in this file']
SHARDS = {'quick': 1, 'thorough': 16}
TIMEOUT = {'quick': 600, 'thorough': 3600}


def FLOORS(tier):
    k = 1 if tier == 'quick' else 20
    return {
        'evaluations': 15_000 * k,
        'bunches': 60_000 * k,
        'closed_by_bytes': 20_000 * k,
        'closed_by_count': 5_000 * k,
        'tight_bunch_sum_eq_limit_minus_1': 2_000 * k,
        'next_spec_would_make_sum_eq_limit': 500 * k,
        'full_bunch_count_eq_limit': 5_000 * k,
        'mixed_bunch_groups_and_jobs': 1_000 * k,
        'refused_oversized': 500 * k,
        'refused_spec_eq_limit': 100 * k,
        'multibyte_specs': 10_000 * k,
        'api_cases': 300 * k,
    }


PADS = ['x', 'é', '€', '\U0001f9ec']  # 1, 2, 3, 4 bytes in UTF-8


def make_spec(rng, dumps, target, idx, is_group):
    """A dict whose serialization has exactly `target` bytes when that is feasible (>= 2), else the nearest feasible size."""
    if target <= 2:
        return {}
    if target <= 6:
        return {'': rng.randrange(10)}  # 6 bytes
    if target == 7:
        return {'a': rng.randrange(10)}
    if target >= 60 and rng.random() < 0.6:
        base = {'job_group_id': idx + 1, 'in_update_parent_id': 0} if is_group else {
            'job_id': idx + 1, 'process': {'type': 'docker', 'image': 'ubuntu', 'command': ['true']}}
        key = 'attributes'
        mk = lambda s: {**base, key: {'name': s}}  # noqa: E731
    else:
        mk = lambda s: {'k': s}  # noqa: E731
    room = target - len(dumps(mk('')))
    if room < 0:
        mk = lambda s: {'k': s}  # noqa: E731
        room = target - 8
    pad = rng.choice(PADS) if rng.random() < 0.5 else 'x'
    w = len(pad.encode('utf-8'))
    s = pad * (room // w) + 'y' * (room % w)
    return mk(s)


def choose_limits(rng, sizes, n_groups):
    n = len(sizes)
    total = sum(sizes)
    mx = max(sizes) if sizes else 1
    r = rng.random()
    if not sizes:
        maxb = rng.choice([1, 2, 100, 1024 * 1024])
    elif r < 0.62:  # window sum boundaries
        i = rng.randrange(n)
        j = min(n, i + rng.choice([1, 2, 2, 3, 3, 4, 5, 8, 13]))
        w = sum(sizes[i:j])
        maxb = w + rng.choice([-1, 0, 0, 1, 1, 1])
        if maxb <= mx and rng.random() < 0.85:
            maxb = max(maxb, mx + rng.choice([1, 1, 2]))
    elif r < 0.72:
        maxb = mx + rng.choice([0, 1, 1, 2])
    elif r < 0.80:
        maxb = total + rng.choice([0, 1])
    elif r < 0.95:
        maxb = rng.randint(1, total + 50)
        if maxb <= mx and rng.random() < 0.7:
            maxb = mx + 1 + rng.randrange(0, 400)
    else:
        maxb = 1024 * 1024
    maxb = max(1, maxb)
    cands = [1, 2, 3, max(1, n - 1), max(1, n), n + 1, max(1, n_groups - 1), max(1, n_groups), n_groups + 1,
             rng.randint(1, 70), rng.randint(1, 8), rng.randint(2, 12), 1024]
    maxn = rng.choice(cands)
    return maxb, maxn


def run(ctx):
    from hailtop.batch_client import aioclient
    from hailtop.batch_client.aioclient import Batch, SpecType

    dumps = aioclient.orjson.dumps

    class DummyClient:
        billing_project = 'verif'

        def __getattr__(self, name):  # any network attempt is a harness error
            raise RuntimeError(f'network use attempted: {name}')

    def new_batch():
        try:
            return Batch(DummyClient(), None)
        except Exception:
            return object.__new__(Batch)

    def judge(groups, jobs, maxb, maxn, phase_note):
        exp = [dumps(s) for s in groups] + [dumps(s) for s in jobs]
        G = len(groups)
        sizes = [len(b) for b in exp]
        oversized = [i for i, z in enumerate(sizes) if z >= maxb]
        g0, j0 = copy.deepcopy(groups), copy.deepcopy(jobs)
        b = new_batch()
        wit = {'sizes': sizes, 'n_groups': G, 'max_bunch_bytesize': maxb, 'max_bunch_size': maxn, 'phase': phase_note}
        try:
            bunches = b._create_bunches(groups, jobs, maxb, maxn)
        except AssertionError as e:
            if oversized:
                ctx.count('refused_oversized')
                if any(sizes[i] == maxb for i in oversized):
                    ctx.count('refused_spec_eq_limit')
                ctx.case(sample=wit, key=('refused', G, len(sizes), len(oversized)), nontrivial=True)
                return
            ctx.violation('spurious-refusal', f'AssertionError although every spec is smaller than the byte limit: {str(e)[:120]}', wit)
            ctx.case(sample=wit, key=('spurious', G), nontrivial=True)
            return
        except Exception as e:
            ctx.violation('raises', f'_create_bunches raised {e!r}', wit)
            ctx.case(sample=wit, key=('raises', type(e).__name__), nontrivial=True)
            return
        if groups != g0 or jobs != j0:
            ctx.count('input_lists_mutated')
        got = [(s.spec_bytes, s.typ) for bunch in bunches for s in bunch]
        wit['bunch_lengths'] = [len(x) for x in bunches]
        wit['bunch_bytes'] = [sum(len(s.spec_bytes) for s in x) for x in bunches]
        got_bytes = [x[0] for x in got]
        if got_bytes != exp:
            if len(got_bytes) < len(exp):
                key = 'concat/lost-spec'
            elif len(got_bytes) > len(exp):
                key = 'concat/duplicated-spec'
            elif sorted(got_bytes) == sorted(exp):
                key = 'concat/reordered'
            else:
                key = 'concat/bytes-altered'
            ctx.violation(key, f'flattened bunches differ from the serialized specs ({len(got_bytes)} vs {len(exp)} specs)', wit)
        else:
            for i, (_, typ) in enumerate(got):
                want = SpecType.JOB_GROUP if i < G else SpecType.JOB
                if typ != want:
                    ctx.violation('order/type-tag-wrong', f'spec {i} tagged {typ} but should be {want} (G={G})', wit)
                    break
        shape = []
        pos = 0
        for bi, bunch in enumerate(bunches):
            nb = sum(len(s.spec_bytes) for s in bunch)  # measured by the oracle, not via SpecBytes.n_bytes
            ctx.count('bunches')
            ctx.count('specs', len(bunch))
            if len(bunch) == 0:
                ctx.violation('empty-bunch', f'bunch {bi} is empty', wit)
                shape.append((0, 'empty'))
                continue
            if len(bunch) > maxn:
                ctx.violation('count-limit/exceeded', f'bunch {bi} has {len(bunch)} specs > max_bunch_size {maxn}', wit)
            unavoidable = len(bunch) == 1 and len(bunch[0].spec_bytes) >= maxb
            if unavoidable:
                ctx.count('oversized_spec_shipped_alone')
            elif nb > maxb:
                ctx.violation('byte-limit/exceeded', f'bunch {bi} has {nb} bytes > max_bunch_bytesize {maxb}', wit)
            elif nb == maxb:
                ctx.violation('byte-limit/equal-to-limit', f'bunch {bi} has exactly max_bunch_bytesize={maxb} bytes; the limit is exclusive', wit)
            if nb == maxb - 1:
                ctx.count('tight_bunch_sum_eq_limit_minus_1')
            if len(bunch) == maxn:
                ctx.count('full_bunch_count_eq_limit')
            typs = {s.typ for s in bunch}
            if len(typs) == 2:
                ctx.count('mixed_bunch_groups_and_jobs')
            pos += len(bunch)
            if pos < len(sizes):
                nxt = sizes[pos] if got_bytes == exp else None
                by_count = len(bunch) >= maxn
                by_bytes = nxt is not None and nb + nxt >= maxb
                if by_bytes:
                    ctx.count('closed_by_bytes')
                    if nb + nxt == maxb:
                        ctx.count('next_spec_would_make_sum_eq_limit')
                if by_count:
                    ctx.count('closed_by_count')
                shape.append((len(bunch), ('B' if by_bytes else '') + ('C' if by_count else '')))
            else:
                shape.append((len(bunch), 'end'))
        if any(len(x.decode('utf-8')) != len(x) for x in exp):
            ctx.count('multibyte_specs')  # cases in which bytes != characters
        ctx.case(sample=wit, key=(G, tuple(shape)), nontrivial=len(bunches) >= 2)

    # ---- phase sized -------------------------------------------------------------------------
    N = ctx.pick(40_000, 100_000)
    for i, rng in ctx.cases(N, 'sized'):
        n = rng.choice([0, 1, 1, 2, 2, 3, 3, 4, 5, 6, 8, 10, 13, 20, 30, 45, 60, rng.randint(0, 60)])
        style = rng.random()
        if style < 0.35:
            targets = [rng.randint(2, 400) for _ in range(n)]
        elif style < 0.6:  # many equal small sizes: sums hit limits exactly
            base = rng.choice([2, 6, 7, 8, 9, 10, 16, 25, 50, 100])
            targets = [base + rng.choice([0, 0, 0, 1]) for _ in range(n)]
        elif style < 0.8:  # small with an occasional large one
            targets = [rng.choice([2, 7, 8, 9, 12, 20]) if rng.random() < 0.8 else rng.randint(200, 400) for _ in range(n)]
        else:
            targets = [rng.choice([2, 6, 7, 8, 60, 61, 128, 255, 256, 399, 400]) for _ in range(n)]
        n_groups = rng.choice([0, 0, n, rng.randint(0, n), rng.randint(0, n), min(n, 1), min(n, 2)])
        groups = [make_spec(rng, dumps, t, k, True) for k, t in enumerate(targets[:n_groups])]
        jobs = [make_spec(rng, dumps, t, k, False) for k, t in enumerate(targets[n_groups:])]
        sizes = [len(dumps(s)) for s in groups] + [len(dumps(s)) for s in jobs]
        maxb, maxn = choose_limits(rng, sizes, n_groups)
        judge(groups, jobs, maxb, maxn, 'sized')

    # ---- phase api: specs made by the client's own create_job_group / create_job ------------------
    N2 = ctx.pick(400, 1_500)
    for i, rng in ctx.cases(N2, 'api'):
        b = new_batch()
        if not hasattr(b, '_job_specs'):
            raise RuntimeError('cannot construct a Batch without network')
        n_g = rng.choice([0, 0, 1, 2, 3, rng.randint(0, 12)])
        n_j = rng.choice([0, 1, 2, 3, 5, 8, rng.randint(0, 40)])
        jgs = []
        for k in range(n_g):
            attrs = {'name': rng.choice(PADS) * rng.randint(0, 40)} if rng.random() < 0.7 else None
            jgs.append(b.create_job_group(attributes=attrs, cancel_after_n_failures=rng.choice([None, 1, 5])))
        made = []
        for k in range(n_j):
            kw = {}
            if rng.random() < 0.6:
                kw['attributes'] = {'name': rng.choice(PADS) * rng.randint(0, 60)}
            if rng.random() < 0.3:
                kw['resources'] = {'cpu': rng.choice(['1', '250m', '0.5']), 'memory': rng.choice(['standard', '1Gi', '3.75G'])}
            if rng.random() < 0.3 and made:
                kw['parents'] = [rng.choice(made)]
            if rng.random() < 0.2:
                kw['env'] = {'A': 'b' * rng.randint(0, 30)}
            owner = rng.choice(jgs) if jgs and rng.random() < 0.5 else b
            made.append(owner.create_job('ubuntu:22.04', ['echo', 'x' * rng.randint(0, 50)], **kw))
        groups, jobs = b._job_group_specs, b._job_specs
        sizes = [len(dumps(s)) for s in groups] + [len(dumps(s)) for s in jobs]
        maxb, maxn = choose_limits(rng, sizes, len(groups))
        ctx.count('api_cases')
        ctx.count('api_specs', len(sizes))
        judge(groups, jobs, maxb, maxn, 'api')


# ---- validation record ---------------------------------------------------------------------------------
# Unchanged tree: quick and thorough, seeds 0..4: all HELD (exit 0).
# Breaks applied one at a time to a scratch worktree (hailtop/batch_client/aioclient.py), quick tier, seed 0:
#   DESIGN 1  `bunch_n_bytes + n_bytes <= max_bunch_bytesize` (<= for <)          caught  byte-limit/equal-to-limit
#   DESIGN 2  `bunch_n_bytes = 0` instead of `= n_bytes` when a bunch is opened    caught  byte-limit/exceeded (+ equal-to-limit)
#   own 1     `len(bunch) <= max_bunch_size` (count off by one)                    caught  count-limit/exceeded
#   own 2     jobs concatenated before job groups                                  caught  concat/reordered, order/type-tag-wrong
#   own 3     job-group specs tagged SpecType.JOB                                  caught  order/type-tag-wrong
#   own 4     final bunch appended only `if len(bunch) > 1` (last singleton lost)  caught  concat/lost-spec
#   own 5     SpecBytes.n_bytes = len(spec_bytes.decode()) (characters, not bytes) MISSED at first: the oracle summed
#             s.n_bytes, i.e. it trusted the broken accessor; it now measures len(s.spec_bytes) itself -> caught
#             byte-limit/equal-to-limit, byte-limit/exceeded (multi-byte padding in the generator is what exposes it)
#   own 6     per-spec assertion disabled (`assert True`)                          caught  empty-bunch (an oversized first
#             spec closes an empty bunch); an oversized spec that ends up alone in a bunch is deliberately not judged
