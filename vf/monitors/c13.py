"""C13 Job billing never exceeds the instance and survives serialization.

Real code: ``instance_config_from_pool_config`` / ``GCPSlimInstanceConfig.create`` / ``AzureSlimInstanceConfig.create``,
``InstanceConfig.quantified_resources`` with every resource mixin, ``to_dict`` -> json -> ``instance_config_from_config_dict``
(the dispatcher the driver and the worker use), and ``PoolConfig.convert_requests_to_resources`` to obtain the (cores, memory)
a job of each packable size is really granted on that pool.  Product versions are a fake table in which every product exists.

Oracle, per instance configuration:
  * whole worker W = quantified_resources(cores*1000, instance_memory, 0) aggregated by resource name (what the driver records for
    the instance); for every packing P of power-of-two mcpu jobs with sum <= cores*1000: for every resource name,
    sum_{j in P} quantity_j <= W[name], and no job is billed a resource the worker does not have;
  * the job that takes the whole worker (pool: the grant for cores*1000 mcpu; job-private: the machine) is billed exactly W;
  * ABSOLUTE whole worker A: what the machine that was procured consists of, computed from the creation parameters only (machine
    type table: cores, memory, number of accelerators; the boot / data disk sizes asked for, azure sizes rounded up to the next
    managed-disk size; one VM; one IP) in the billing units (mcpu, MiB, 1024ths) and never through quantified_resources: both the
    driver's record of the instance W and the bill of the job that takes the whole worker (job-private: the request the job-private
    manager really issues, machine_type_to_cores_and_memory_bytes) must equal A per resource kind - no kind missing, none extra.
    This is the only oracle that sees a defect which scales W and the job alike (a truncated worker fraction on the 12/20/24/48/72/96
    core machine types that only job-private instances can have, an accelerator count dropped, MB for MiB).
  * c2 = from_dict(json(to_dict(c))): identical quantified resources for every probe request (incl. extra storage), same cores /
    job_private / worker type, and to_dict(c2) == to_dict(c).
"""
import itertools
import json

PID = 'C13'
LEVEL = 'exploration'
RULE = (
    'enumeration: every machine type of both clouds\' tables as a job-private instance, and every pool machine the driver config page '
    'can produce (worker type x power-of-two cores x local-ssd/external disk sizes) x preemptible x boot disk {10,100} x locations '
    '(3 gcp zones incl. one without regional prices, 2 azure regions); packings: for <= 8 (thorough: 16) cores all multisets of {250*2^k} that fit '
    '(exhaustive), for larger workers the homogeneous full packings of every size, whole-worker, greedy mixed and seeded random multisets '
    '(capped); probes for the round trip: every packable size x extra storage {0,1,10,375,2048} GiB. Distinct by (cloud, machine type, '
    'job_private, disk option, preemptible, region, packing shape). Every configuration is also compared with the machine it procures '
    '(absolute whole worker from the creation parameters; incl. the 12/20/24/48/72/96-core and multi-accelerator job-private machine types).'
)
ASSUMPTIONS = [
    'pool workers have power-of-two cores <= 256 (the code asserts it; the non-power-of-two pool sizes the config page also offers are a C12 finding and are counted, not billed)',
    'job sizes on a pool are the grants of convert_requests_to_resources for power-of-two mcpu requests; job-private instances run exactly one whole-machine job',
    'extra (per-job) external storage is billed to the job on top of the worker and is excluded from the packing sum (storage 0), but included in the round-trip probes',
]
TRUSTED_BASE = ['fake ProductVersions table in which every product has version 1 (vf/gen_batch_pure.py)', 'json round trip = what the driver stores (base64 of json)']
FORBIDDEN_STUBS = ('aiomysql', 'pymysql', 'google', 'azure', 'kubernetes_asyncio', 'googlecloudprofiler')  # imported only, never called
SHARDS = {'quick': 2, 'thorough': 8}
FLOORS = {'configs': 400, 'packings_checked': 20000, 'roundtrip_probes': 5000, 'whole_worker_checks': 400, 'machine_types_gcp': 55, 'machine_types_azure': 35,
          'resource_types': 14,
          # absolute whole-worker oracle (both clouds together; a shard sees one cloud)
          'absolute_whole_worker_checks': 2200, 'absolute_checks_non_pow2_cores': 400, 'absolute_checks_multi_accelerator': 180,
          'absolute_quantities_compared': 27000, 'non_pow2_core_counts': 5, 'absolute_resource_kinds': 12}

GCP_LOCATIONS = ['us-central1-a', 'us-east1-b', 'europe-west4-c']
AZURE_LOCATIONS = ['eastus', 'westus2']


def agg(qrs):
    d = {}
    for q in qrs:
        d[q['name']] = d.get(q['name'], 0) + q['quantity']
    return d


def all_multisets(sizes, budget):
    """all multisets over `sizes` (descending) with sum <= budget, as count tuples"""
    def rec(i, left):
        if i == len(sizes):
            yield ()
            return
        for n in range(left // sizes[i] + 1):
            for rest in rec(i + 1, left - n * sizes[i]):
                yield (n,) + rest
    return rec(0, budget)


AZURE_MANAGED_DISK_SIZES_GIB = [4 << i for i in range(14)]  # 4 GiB .. 32 TiB (azure managed-disk price list), independent of the repo's table
GCP_LOCAL_SSD_GIB = 375


def resource_kind(name):
    """resource name -> kind (the product without region / preemptibility / disk size / version)"""
    parts = name.split('/')
    if parts[0] == 'az':
        if parts[1] == 'disk':
            return f'az/disk/{parts[2][0]}'  # E (boot) or P (data)
        return f'az/{parts[1]}'
    if parts[0] == 'disk':
        return f'disk/{parts[1]}'
    return parts[0]


def by_kind(by_name):
    d = {}
    for name, q in by_name.items():
        k = resource_kind(name)
        d[k] = d.get(k, 0) + q
    return d


def absolute_whole_worker(cloud, cores, memory_bytes, n_accelerators, boot_gib, data_gib, local_ssd):
    """the machine that is procured, in billing units; computed without the billing code"""
    MiB = 1024 * 1024
    if cloud == 'gcp':
        a = {'compute': cores * 1000, 'memory': memory_bytes // MiB, 'ip-fee': 1024, 'service-fee': cores * 1000,
             'gcp-support-logs-specs-and-firewall-fees': cores * 1000}
        pd = boot_gib * 1024
        if local_ssd:
            a['disk/local-ssd'] = data_gib * 1024
        else:
            pd += data_gib * 1024
        a['disk/pd-ssd'] = pd
        if n_accelerators:
            a['accelerator'] = n_accelerators * 1024
        return a

    def managed(gib):
        return next(s for s in AZURE_MANAGED_DISK_SIZES_GIB if s >= gib)
    a = {'az/vm': 1024, 'az/ip-fee': 1024, 'az/service-fee': cores * 1000, 'az/disk/E': managed(boot_gib) * 1024}
    if not local_ssd:
        a['az/disk/P'] = managed(data_gib) * 1024
    return a


def run(ctx):
    from vf import gen_batch_pure as g

    g.setup_cloud(g.shard_cloud(ctx))
    g.import_tolerant('batch.inst_coll_config')
    for name in g.locally_stubbed:
        ctx.seen('locally_stubbed_imports', name)
    from batch.cloud.azure.instance_config import AzureSlimInstanceConfig
    from batch.cloud.azure.resource_utils import MACHINE_TYPE_TO_PARTS as AZ_PARTS
    from batch.cloud.azure.resource_utils import azure_local_ssd_size
    from batch.cloud.gcp.instance_config import GCPSlimInstanceConfig
    from batch.cloud.gcp.resource_utils import MACHINE_TYPE_TO_PARTS as GCP_PARTS
    from batch.cloud.resource_utils import machine_type_to_cores_and_memory_bytes
    from batch.cloud.utils import instance_config_from_config_dict
    from batch.inst_coll_config import instance_config_from_pool_config

    pv = g.make_product_versions(known_regions=('us-central1', 'us-east1'))

    # ---- the configuration space ----------------------------------------------------------------
    def configs():
        """yields (descr dict, factory) ; factory() -> (instance_config, pool_config or None)"""
        for cloud, parts, locations in (('gcp', GCP_PARTS, GCP_LOCATIONS), ('azure', AZ_PARTS, AZURE_LOCATIONS)):
            # job-private: every machine type of the table
            for mt in parts:
                for preemptible in (True, False):
                    for disk in (10, 375, 2048):
                        for boot in (10, 100):
                            for loc in locations:
                                d = {'cloud': cloud, 'machine_type': mt, 'job_private': True, 'preemptible': preemptible, 'local_ssd': False,
                                     'data_disk_size_gb': disk, 'boot_disk_size_gb': boot, 'location': loc}
                                cls = GCPSlimInstanceConfig if cloud == 'gcp' else AzureSlimInstanceConfig

                                def f(cls=cls, d=d):
                                    return cls.create(product_versions=pv, machine_type=d['machine_type'], preemptible=d['preemptible'], local_ssd_data_disk=False,
                                                      data_disk_size_gb=d['data_disk_size_gb'], boot_disk_size_gb=d['boot_disk_size_gb'], job_private=True,
                                                      location=d['location']), None
                                yield d, f
            # pools: what the config page can produce
            for wt in g.WORKER_TYPES[cloud]:
                for local_ssd in (True, False):
                    for cores in g.valid_pool_cores(cloud, wt, local_ssd):
                        for preemptible in (True, False):
                            for ext in ((None,) if local_ssd else (30 + 5 * cores, 100 + 5 * cores, 2048)):
                                for boot in (10, 100):
                                    for loc in locations:
                                        d = {'cloud': cloud, 'worker_type': wt, 'cores': cores, 'job_private': False, 'preemptible': preemptible,
                                             'local_ssd': local_ssd, 'ext_disk_gb': ext, 'boot_disk_size_gb': boot, 'location': loc}

                                        def f(d=d):
                                            pc = g.make_pool_config('p', d['cloud'], d['worker_type'], d['cores'], d['preemptible'], '', d['local_ssd'],
                                                                    ext_gb=d['ext_disk_gb'], boot_gb=d['boot_disk_size_gb'])
                                            return instance_config_from_pool_config(pc, pv, d['location']), pc
                                        yield d, f

    def quantify(c, job, w):
        try:
            return c.quantified_resources(*job)
        except Exception as e:  # noqa: BLE001
            ctx.violation('billing/raises', f'quantified_resources{job} raised {e!r}', w)
            return None

    n = -1
    for descr, factory in configs():
        n += 1
        if ctx.replay is not None:
            if n != ctx.replay.get('witness', {}).get('config_index'):
                continue
        elif n % ctx.n_shards != ctx.shard:
            continue
        rng = ctx.rng('cfg', n)
        w = {'config_index': n, 'config': descr}
        if not descr['job_private'] and not g.is_pow2(descr['cores']):
            ctx.count('skipped_pool_cores_not_power_of_two')
            continue
        if not descr['job_private'] and descr['cloud'] == 'gcp' and f"n1-{descr['worker_type']}-{descr['cores']}" not in GCP_PARTS:
            ctx.count('skipped_pool_machine_type_not_in_table')
            continue
        try:
            c, pool = factory()
        except Exception as e:  # noqa: BLE001
            ctx.violation('create/raises', f'creating the instance config raised {e!r}', w)
            continue
        ctx.count('configs')
        ctx.seen(f'machine_types_{c.cloud}', c._machine_type)
        for r in c.resources:
            ctx.seen('resource_types', type(r).__name__)
        w['machine_type'] = c._machine_type
        cores = c.cores
        whole_job = (cores * 1000, c.instance_memory(), 0)
        Wl = quantify(c, whole_job, w)
        if Wl is None:
            continue
        W = agg(Wl)
        w['whole_worker'] = W

        # ---- the job sizes ------------------------------------------------------------------------
        if pool is not None:
            sizes = []
            s = 250
            while s <= cores * 1000:
                grant = pool.convert_requests_to_resources(s, 0, 0)
                if grant is None or grant[0] != s:
                    ctx.violation('setup/pool-does-not-grant-packable-size', f'convert_requests_to_resources({s},0,0) = {grant}', w)
                    break
                sizes.append((s, grant[1]))
                s *= 2
            sizes.sort(reverse=True)
        else:
            sizes = [(cores * 1000, c.instance_memory())]
        q_by_size = {}
        for s, mem in sizes:
            ql = quantify(c, (s, mem, 0), w)
            if ql is None:
                break
            q_by_size[s] = agg(ql)
        if len(q_by_size) != len(sizes):
            continue

        # ---- whole worker job == whole worker -----------------------------------------------------
        ctx.count('whole_worker_checks')
        top = sizes[0][0]
        if q_by_size[top] != W:
            diff = {k: (q_by_size[top].get(k), W.get(k)) for k in set(W) | set(q_by_size[top]) if q_by_size[top].get(k) != W.get(k)}
            key = 'whole/memory-of-full-size-job-differs-from-instance' if any(k.startswith('memory') for k in diff) else 'whole/full-size-job-not-billed-whole-worker'
            ctx.violation(key, f'a {top} mcpu job on a {cores}-core worker is billed {diff} (job, worker)', w)

        # ---- the whole worker in absolute terms (never through quantified_resources) ---------------------------
        parts = (GCP_PARTS if c.cloud == 'gcp' else AZ_PARTS)[c._machine_type]
        gpu_config = getattr(parts, 'gpu_config', None)
        n_acc = gpu_config.num_gpus if gpu_config is not None else 0
        if pool is None:
            data_gib = descr['data_disk_size_gb']
        elif descr['local_ssd']:
            data_gib = GCP_LOCAL_SSD_GIB if c.cloud == 'gcp' else None  # azure: the temp disk is part of the VM price
        else:
            data_gib = descr['ext_disk_gb']
        A = absolute_whole_worker(c.cloud, parts.cores, parts.memory, n_acc, descr['boot_disk_size_gb'], data_gib, descr['local_ssd'])
        if pool is None:
            jp_cores, jp_mem = machine_type_to_cores_and_memory_bytes(c.cloud, c._machine_type)  # JobPrivateInstanceManagerConfig.convert_requests_to_resources
            jl = quantify(c, (jp_cores * 1000, jp_mem, 0), w)
            whole_job_bill = agg(jl) if jl is not None else None
        else:
            whole_job_bill = q_by_size[top]
        ctx.count('absolute_whole_worker_checks')
        if not g.is_pow2(cores):
            ctx.count('absolute_checks_non_pow2_cores')
            ctx.seen('non_pow2_core_counts', cores)
        if n_acc > 1:
            ctx.count('absolute_checks_multi_accelerator')
        for k in A:
            ctx.seen('absolute_resource_kinds', k)
        for what, bill in (('whole-worker-job', whole_job_bill), ('instance-total', W)):
            if bill is None:
                continue
            B = by_kind(bill)
            ctx.count('absolute_quantities_compared', len(A))
            for k in sorted(set(A) | set(B)):
                got, want = B.get(k), A.get(k)
                if got == want:
                    continue
                kk = k.replace('/', '-')
                if got is None:
                    key, msg = f'absolute/{what}-lacks-{kk}', f'{k} is part of the machine ({want}) but not billed'
                elif want is None:
                    key, msg = f'absolute/{what}-billed-resource-the-machine-lacks', f'{k} billed {got} but the machine has none'
                else:
                    key = f"absolute/{what}-{'under' if got < want else 'over'}-billed-{kk}"
                    msg = f'{k} billed {got}, the machine has {want} ({got * 1024 // want}/1024)'
                ctx.violation(key, f'{what} of a {cores}-core {c._machine_type} (job_private={c.job_private}): {msg}', dict(w, absolute_whole_worker=A, billed_by_kind=B))

        # ---- packings -------------------------------------------------------------------------------
        svals = [s for s, _ in sizes]
        budget = cores * 1000

        def check_packing(counts, shape):
            ctx.count('packings_checked')
            tot = {}
            for s, k in zip(svals, counts):
                if k:
                    for name, q in q_by_size[s].items():
                        tot[name] = tot.get(name, 0) + k * q
            for name, q in tot.items():
                if name not in W:
                    ctx.violation('packing/job-billed-resource-the-worker-lacks', f'{name} billed to jobs but absent from the worker', dict(w, packing=dict(zip(svals, counts))))
                    return
                if q > W[name]:
                    kind = name.split('/')[0] if not name.startswith('az/') else 'az-' + name.split('/')[1]
                    ctx.violation(f'packing/over-billed-{kind}', f'packing {dict((s, k) for s, k in zip(svals, counts) if k)} on a {cores}-core {c._machine_type}: '
                                  f'{name} billed {q} > worker {W[name]}', dict(w, packing=dict(zip(svals, counts))))
                    return
            ctx.case(sample={'config': descr, 'packing_counts_by_size_desc': counts}, key=(c.cloud, c._machine_type, c.job_private, descr['local_ssd'], descr['preemptible'], descr['location'], shape, counts),
                     nontrivial=sum(counts) > 1)

        if pool is None:
            check_packing((1,), 'job-private')
        elif cores <= ctx.pick(8, 16):
            for counts in all_multisets(svals, budget):
                if any(counts):
                    check_packing(counts, 'enum')
        else:
            for i, s in enumerate(svals):  # homogeneous full packings
                counts = tuple(budget // s if j == i else 0 for j in range(len(svals)))
                check_packing(counts, 'homogeneous')
            left, counts = budget, []
            for s in svals:  # one of each size, then fill with the smallest
                k = 1 if s <= left // 2 or s == left else 0
                counts.append(k)
                left -= k * s
            counts[-1] += left // svals[-1]
            check_packing(tuple(counts), 'mixed')
            for _ in range(ctx.pick(6, 40)):
                left, counts = budget, []
                for s in svals:
                    k = rng.randrange(0, left // s + 1) if rng.random() < 0.5 else 0
                    counts.append(k)
                    left -= k * s
                if rng.random() < 0.7:
                    counts[-1] += left // svals[-1]
                if any(counts):
                    check_packing(tuple(counts), 'random')

        # ---- serialization round trip -------------------------------------------------------------
        try:
            d1 = c.to_dict()
            d1j = json.loads(json.dumps(d1))
            c2 = instance_config_from_config_dict(d1j)
        except Exception as e:  # noqa: BLE001
            ctx.violation('roundtrip/raises', f'to_dict/from_dict raised {e!r}', w)
            continue
        if type(c2) is not type(c):
            ctx.violation('roundtrip/wrong-class', f'{type(c).__name__} reloaded as {type(c2).__name__}', w)
            continue
        for attr in ('cores', 'job_private', 'preemptible', 'cloud', 'local_ssd_data_disk', 'data_disk_size_gb', 'boot_disk_size_gb'):
            if getattr(c, attr) != getattr(c2, attr):
                ctx.violation('roundtrip/attribute-changed', f'{attr}: {getattr(c, attr)!r} -> {getattr(c2, attr)!r}', w)
        if c.worker_type() != c2.worker_type() or c.instance_memory() != c2.instance_memory():
            ctx.violation('roundtrip/attribute-changed', 'worker_type / instance_memory changed', w)
        try:
            d2 = json.loads(json.dumps(c2.to_dict()))
        except Exception as e:  # noqa: BLE001
            ctx.violation('roundtrip/raises', f'second to_dict raised {e!r}', w)
            continue
        if d2 != d1j:
            ctx.violation('roundtrip/dict-not-stable', f'to_dict(from_dict(d)) != d: {[k for k in d1j if d1j.get(k) != d2.get(k)]}', w)
        for (s, mem), storage in itertools.product(sizes, (0, 1, 10, 375, 2048)):
            if c.job_private and storage:
                continue  # job-private jobs are billed with external storage 0 (worker.py)
            ctx.count('roundtrip_probes')
            a = quantify(c, (s, mem, storage), w)
            try:
                b = c2.quantified_resources(s, mem, storage)
            except Exception as e:  # noqa: BLE001
                ctx.violation('roundtrip/reloaded-config-raises', f'quantified_resources({s},{mem},{storage}) raised {e!r} after reload', w)
                break
            if a is None:
                break
            if a != b:
                da, db = agg(a), agg(b)
                diff = {k: (da.get(k), db.get(k)) for k in set(da) | set(db) if da.get(k) != db.get(k)}
                kind = sorted(diff)[0].split('/')[0] if diff else 'order'
                ctx.violation(f'roundtrip/billing-differs-{kind}', f'probe ({s} mcpu, {mem} B, {storage} GiB): (original, reloaded) {diff or "same totals, different list"}', w)
                break

BREAKS = """
Breaks applied one at a time in a scratch worktree (VERIF_REPO=/tmp/scratch-bp ./check C13, quick tier):
  DESIGN  round-up instead of `//` in worker_fraction_in_1024ths          NOT CAUGHT - equivalent on the whole quantifier: pool
          workers have 2^j <= 256 cores (asserted) and jobs 250*2^k mcpu, so 1024*cpu/(cores*1000) = 2^(8+k-j) is an integer;
          job-private jobs take cores*1000 -> exactly 1024.
  DESIGN  drop 'job_private' from GCPSlimInstanceConfig.to_dict            caught: roundtrip/raises
  DESIGN  drop 'storage_in_gib' from GCPStaticSizedDiskResource.to_dict    caught: roundtrip/raises
  own, subtle  GCPAcceleratorResource.from_dict returns number=1 for format 2 (only multi-GPU machine types: g2-standard-24/48/96,
          a2-*)                                                           caught: roundtrip/billing-differs-accelerator, roundtrip/dict-not-stable
  own     IPFeeResourceMixin bills 1024 to every job                       caught: packing/over-billed-ip-fee, packing/over-billed-az-ip-fee
  own, subtle  AzureDynamicSizedDiskResource.to_dict loses the disk-name table (only probes with extra storage on azure)
                                                                          caught: roundtrip/reloaded-config-raises
  own     n1 highcpu 921 MiB per core (full-size job memory != machine)    caught: billing/raises (the code's own MiB assertion)
  own     static disk billed at least 10 GiB per job                       caught: packing/over-billed-disk, packing/over-billed-az-disk
Absolute whole-worker oracle (added after seeded/C13-agent4; all of these scale the instance total and the whole-worker job alike,
so the relative oracle `job == W` cannot see them):
  seed    per-core share truncated first: (1024 // cores) * mcpu // 1000 (12/20/24/48/72/96-core job-private machines only)
                                                                          caught: absolute/{instance-total,whole-worker-job}-under-billed-{accelerator,az-disk-E,az-disk-P,az-ip-fee,az-vm,disk-pd-ssd,ip-fee}
  own     GCPAcceleratorResource.to_quantified_resource drops `self.number *` caught: absolute/*-under-billed-accelerator
  own     AzureStaticSizedDiskResource.create keeps the requested size instead of the managed-disk size
                                                                          caught: absolute/*-under-billed-az-disk-E, -az-disk-P
  own     MemoryResourceMixin bills memory_in_bytes // 1000 // 1000       caught: absolute/*-over-billed-memory
"""
