"""C05 Dependencies gate readiness; failed parents cancel children.

Oracle after every commit (vf/world/oracles.py: c05): a committed job that left Pending has only
terminal parents; a job with a non-successful terminal parent has cancelled=1; n_pending_parents
equals the number of non-terminal parents; plus the edge monitor: a non-always-run job already
marked cancelled never enters Creating/Running.  At the end of each history a drain phase completes
every schedulable attempt and checks that always-run jobs whose parents are terminal did run
(bounded progress).
"""
from vf.world import oracles, sqlmon
from vf.world.run import Monitor

PID = 'C05'
LEVEL = 'exploration'
RULE = sqlmon.RULE_HISTORIES + ' Job DAGs: in-update and cross-update parents, random outcomes (success/failed/error), commits of later updates before/after parent completion.'
ASSUMPTIONS = sqlmon.COMMON_ASSUMPTIONS
SHARDS = {'quick': 4, 'thorough': 16}
TIMEOUT = {'quick': 900, 'thorough': 3600}
FLOORS = {'jobs_with_parents_observed_live': 100, 'children_cancelled_by_failed_parent': 10, 'histories_free_of_known_patterns': 50}


class Deps(Monitor):
    def __init__(self, p):
        self.p = p

    def on_commit(self, v):
        for key, what, wit in oracles.c05(v):
            k = tuple(wit['job'])
            self.r.violation(sqlmon.explain(self.p, key, [('job', k), ('batch', k[0])]), what, wit)

    def on_op(self, rec, v):
        ctx = self.r.ctx
        for k, j in v.jobs.items():
            if v.parents.get(k) and j['state'] != 'Pending' and v.committed(j):
                ctx.count('jobs_with_parents_observed_live')
                if j['cancelled']:
                    ctx.count('children_cancelled_by_failed_parent')


def run(ctx):
    sqlmon.standard_run(ctx, lambda p: [Deps(p), sqlmon.EdgeMonitor(p, check_lifecycle=False)],
                        cfg={'parent_p': 0.8, 'weights': {'job_complete': 16, 'cancel_batch': 0.5, 'cancel_job_group': 1}})
