"""C05 Dependencies gate readiness; failed parents cancel children.

Oracle after every commit (vf/world/oracles.py: c05): a committed job that left Pending has only
terminal parents; a job with a non-successful terminal parent has cancelled=1; n_pending_parents
equals the number of non-terminal parents; plus the edge monitor: a non-always-run job already
marked cancelled never enters Creating/Running.  At the end of each history a drain phase completes
every schedulable attempt and checks that always-run jobs whose parents are terminal did run
(bounded progress).
"""
from vf.world import oracles, sqlmon
from vf.world.run import Monitor

PID = 'C05'
LEVEL = 'exploration'
RULE = sqlmon.RULE_HISTORIES + ' Job DAGs: in-update and cross-update parents, random outcomes (success/failed/error), commits of later updates before/after parent completion.'
ASSUMPTIONS = sqlmon.COMMON_ASSUMPTIONS
SHARDS = {'quick': 4, 'thorough': 16}
TIMEOUT = {'quick': 900, 'thorough': 3600}
FLOORS = {'worker_hand_overs_checked': 300, 'worker_hand_overs_of_jobs_marked_cancelled_by_a_parent': 5, 'dependency_edges_compared_with_submission': 300, 'legacy_parent_key_edges_compared': 10, 'scripted_always_run_children_of_failed_parents_checked': 4, 'scripted_children_checked': 40, 'scripted_scenarios': 10, 'scripted_live_parent_commits': 10, 'scripted_mixed_parent_completions': 3, 'jobs_with_parents_observed_live': 100, 'children_cancelled_by_failed_parent': 10, 'histories_free_of_known_patterns': 50}


class Deps(Monitor):
    def __init__(self, p):
        self.p = p
        self.edges_checked = set()

    def reset(self):
        self.edges_checked = set()

    def on_commit(self, v):
        # the recorded dependency edges are the ones the client submitted (ledger kept by the workload, absolute ids)
        fz = getattr(self.r, 'fz', None)
        if fz is not None:
            for k, want in fz.intended_parents.items():
                if k in v.jobs and k not in self.edges_checked:
                    self.edges_checked.add(k)
                    self.r.ctx.count('dependency_edges_compared_with_submission', max(1, len(want)))
                    if want and 'parent_ids' in (next((s for pl in fz.plans if pl['batch'] == k[0] and pl['start_job_id'] <= k[1] < pl['start_job_id'] + pl['n_jobs'] for s in [pl['jobs'][k[1] - pl['start_job_id']]]), {})):
                        self.r.ctx.count('legacy_parent_key_edges_compared')
                    got = set(v.parents.get(k, ()))
                    if got != want:
                        self.r.violation('dependency-edges-differ-from-submission', f'job {k} was submitted with parents {sorted(want)}, job_parents records {sorted(got)}', {'job': list(k), 'submitted': sorted(want), 'recorded': sorted(got)})
        for key, what, wit in oracles.c05(v):
            k = tuple(wit['job'])
            if wit.get('uncommitted'):
                # that an uncommitted job is readied at all is the recorded C41 finding; that it is readied while a parent is
                # still live is explained only if that *parent* is one of the jobs the recorded defects touched
                self.r.ctx.count('uncommitted_non_pending_jobs_with_parents_checked')
                self.r.violation(sqlmon.explain(self.p, key, [('job', (k[0], pid)) for pid in wit['parents']]), what, wit)
                continue
            self.r.violation(sqlmon.explain(self.p, key, [('job', k), ('batch', k[0])]), what, wit)

    def on_op(self, rec, v):
        ctx = self.r.ctx
        for k, j in v.jobs.items():
            if v.parents.get(k) and j['state'] != 'Pending' and v.committed(j):
                ctx.count('jobs_with_parents_observed_live')
                if j['cancelled']:
                    ctx.count('children_cancelled_by_failed_parent')


OUTCOMES = ['Success', 'Failed', 'Error', 'Cancelled-by-failed-grandparent', 'Cancelled-by-group-cancel',
            # the parent is still live (Ready / Creating on a job-private VM / Running) when the children's update is committed:
            # the children must stay Pending (decided by the after-every-commit oracle)
            'Live-at-commit-Ready', 'Live-at-commit-Creating', 'Live-at-commit-Running',
            # a job of a later update has one parent in its own update (still Pending) and one in an earlier update that finishes
            # while the later update is not yet committed
            'Mixed-parents-earlier-parent-finishes-before-commit',
            # "always-run children run regardless": the always-run child of a failed parent is actually handed to a worker once there is
            # capacity for it (one scheduling round with a free active VM; one request + activation + round for a job-private VM)
            'Always-run-child-of-failed-parent-is-run-pool', 'Always-run-child-of-failed-parent-is-run-job-private']


async def scripted(runner, w, fz, rng):
    """directed prefix of a history: update 1 = {j1, j2 (child of j1, in group 1)}; the parent j2 reaches one of five outcomes; update 2 =
    {j3 (absolute parent j2), j4 (always-run, absolute parent j2)} is committed before or after j2 becomes terminal."""
    from batch.front_end.validate import validate_and_clean_jobs, validate_job_groups
    from vf.world.world import userdata

    ctx = runner.ctx
    rng.choice(OUTCOMES)  # (keeps the random stream aligned)
    outcome = OUTCOMES[(ctx.case_index[1] + ctx.shard) % len(OUTCOMES)]
    commit_first = rng.random() < 0.4
    ctx.seen('scripted_scenarios', f'{outcome}/{"commit-before-parent-terminal" if commit_first else "commit-after-parent-terminal"}')
    user = 'alice'
    ud = userdata(user)
    fe = w.fe

    def spec(i, **kw):
        d = {'job_id': i, 'process': {'type': 'docker', 'command': ['true'], 'image': 'u'}, 'resources': {'cpu': '1', 'memory': 'standard', 'storage': '1Gi'}}
        d.update(kw)
        return d
    bid = await fe._create_batch({'billing_project': 'bp-a', 'token': 'c05s', 'n_jobs': 2, 'n_job_groups': 1}, ud, w.db)
    fz.batches[bid] = {'user': user, 'token': 'c05s', 'groups': {0, 1}, 'cancelled': set(), 'deleted': False}
    u1, _, _ = await fe._create_batch_update(bid, 'c05s', 2, 1, user, w.db)
    gs = [{'job_group_id': 1, 'absolute_parent_id': 0}]
    validate_job_groups(gs)
    await fe._create_job_groups(w.db, bid, u1, user, gs)
    jobs = [spec(1), spec(2, in_update_parent_ids=[1], in_update_job_group_id=1)]
    if outcome == 'Live-at-commit-Creating':
        jobs[1]['resources'] = {'machine_type': 'n1-standard-1', 'preemptible': True, 'storage': '1Gi'}
    validate_and_clean_jobs(jobs)
    await fe._create_jobs(ud, jobs, bid, u1, w.fe_app)
    await fe._commit_update(w.fe_app, bid, u1, user, w.db)
    await w.create_instance('standard', cores=16)

    async def second_update(jp=False):
        u2, _, _ = await fe._create_batch_update(bid, 'c05s-2', 2, 0, user, w.db)
        js = [spec(1, absolute_parent_ids=[2]), spec(2, absolute_parent_ids=[2], always_run=True)]
        if jp:
            for j in js:
                j['resources'] = {'machine_type': 'n1-standard-1', 'preemptible': True, 'storage': '1Gi'}
        validate_and_clean_jobs(js)
        await fe._create_jobs(ud, js, bid, u2, w.fe_app)
        await fe._commit_update(w.fe_app, bid, u2, user, w.db)

    async def run_job(jid, state):
        await w.pools['standard'].scheduler.schedule_loop_body()
        await fz._drain()
        fz.sync_attempts_from_db()
        for a in list(fz.attempts.values()):
            row = w.engine.tables['attempts'].pk_get(a['batch_id'], a['job_id'], a['attempt_id'])
            if a['batch_id'] == bid and a['job_id'] == jid and row is not None and row['end_time'] is None:
                now = w.now_ms()
                st = {'batch_id': bid, 'job_id': jid, 'attempt_id': a['attempt_id'], 'job_group_id': a.get('job_group_id', 0), 'state': state,
                      'start_time': now, 'end_time': now + 1, 'status': {}, 'resources': []}
                await w.dm.job_complete(fz._worker_request(fz._instance_of(a), {'status': st}))
    if outcome.startswith('Mixed-parents'):
        u2, _, _ = await fe._create_batch_update(bid, 'c05s-2', 2, 0, user, w.db)
        js = [spec(1), spec(2, in_update_parent_ids=[1], absolute_parent_ids=[2], always_run=rng.random() < 0.3)]
        validate_and_clean_jobs(js)
        await fe._create_jobs(ud, js, bid, u2, w.fe_app)
        await run_job(1, 'succeeded')
        await run_job(2, rng.choice(['succeeded', 'succeeded', 'failed']))  # the after-every-commit oracle judges job 4 here
        from vf.world.oracles import View as _V
        vv = _V(w.engine)
        if vv.jobs[(bid, 2)]['state'] in ('Success', 'Failed') and vv.jobs[(bid, 3)]['state'] == 'Pending':
            ctx.count('scripted_mixed_parent_completions')
        await fe._commit_update(w.fe_app, bid, u2, user, w.db)
        return
    if outcome.startswith('Live-at-commit'):
        await run_job(1, 'succeeded')
        if outcome.endswith('Creating'):
            await w.jpim.create_instances_loop_body()
            await fz._drain()
            for i in w.jpim.name_instance.values():
                w.instances.setdefault(i.name, i)
            fz.sync_attempts_from_db()
        elif outcome.endswith('Running'):
            await w.pools['standard'].scheduler.schedule_loop_body()
            await fz._drain()
            fz.sync_attempts_from_db()
        from vf.world.oracles import View as _V
        st = _V(w.engine).jobs[(bid, 2)]['state']
        ctx.seen('scripted_live_parent_state_at_commit', st)
        if st == outcome.rsplit('-', 1)[1]:
            ctx.count('scripted_live_parent_commits')
        await second_update()  # the on_commit oracle judges the children here
        return
    if outcome.startswith('Always-run-child'):
        from vf.world.oracles import View as _V
        jp = outcome.endswith('job-private')
        if commit_first:
            await second_update(jp)
        await run_job(1, 'succeeded')
        await run_job(2, rng.choice(['failed', 'error']))
        if not commit_first:
            await second_update(jp)
        # the step being judged runs without the workload's injected worker refusals / driver faults: with a willing worker and
        # free capacity, one round must hand the job over
        v0 = _V(w.engine)
        p0, c0 = v0.jobs.get((bid, 2)), v0.jobs.get((bid, 4))
        if p0 is None or c0 is None or p0['state'] not in ('Failed', 'Error') or c0['state'] != 'Ready':
            # the prefix did not get there (an injected refusal kept the parent from running in its own round): a parent that
            # only fails DURING the judged round readies the child after the scheduler has passed it - nothing to judge
            ctx.count('scripted_always_run_prefix_not_reached')
            return
        saved = {k: fz.cfg[k] for k in ('worker_reject_p', 'fault_schedule_db_p')}
        fz.cfg.update({k: 0 for k in saved})
        fz.fail_next_schedule_db = False
        if jp:
            await w.jpim.create_instances_loop_body()
            await fz._drain()
            for i in sorted(w.jpim.name_instance.values(), key=lambda i: i.name):
                w.instances.setdefault(i.name, i)
                if i.state == 'pending':
                    await i.activate('10.9.0.%d' % (1 + len(w.instances)), w.now_ms())
            await w.jpim.schedule_jobs_loop_body()
        else:
            await w.pools['standard'].scheduler.schedule_loop_body()
        await fz._drain()
        fz.cfg.update(saved)
        fz.sync_attempts_from_db()
        v = _V(w.engine)
        j2, j3, j4 = v.jobs.get((bid, 2)), v.jobs.get((bid, 3)), v.jobs.get((bid, 4))
        if j2 is not None and j4 is not None and j2['state'] in ('Failed', 'Error'):
            ctx.count('scripted_always_run_children_of_failed_parents_checked')
            ctx.seen('scripted_always_run_child_state_after_one_round', ('job-private:' if jp else 'pool:') + j4['state'])
            if j4['state'] not in ('Running', 'Success', 'Failed', 'Error'):
                runner.violation('always-run-child-of-failed-parent-not-run',
                                 f'scripted {outcome}: always-run job {(bid, 4)} is {j4["state"]} (cancelled={j4["cancelled"]}) after its parent ended {j2["state"]} and a scheduling round with a free {"job-private VM activated for it" if jp else "16-core worker"}',
                                 {'job': [bid, 4], 'outcome': outcome})
            if j3['state'] in ('Running', 'Creating'):
                runner.violation('failed-parent-not-cancelling', f'scripted {outcome}: job {(bid, 3)} (not always-run) is {j3["state"]} after its parent ended {j2["state"]}', {'job': [bid, 3], 'outcome': outcome})
        return
    if commit_first:
        await second_update()
    if outcome in ('Success', 'Failed', 'Error'):
        await run_job(1, 'succeeded')
        await run_job(2, {'Success': 'succeeded', 'Failed': 'failed', 'Error': 'error'}[outcome])
    elif outcome == 'Cancelled-by-failed-grandparent':
        await run_job(1, 'failed')
        await w.canceller.cancel_cancelled_ready_jobs_loop_body()
    else:
        await run_job(1, 'succeeded')
        await fe._cancel_job_group(w.fe_app, bid, 1)
        fz.batches[bid]['cancelled'].add(1)
        await w.canceller.cancel_cancelled_ready_jobs_loop_body()
    if not commit_first:
        await second_update()
    from vf.world.oracles import View

    v = View(w.engine)
    j2, j3, j4 = v.jobs.get((bid, 2)), v.jobs.get((bid, 3)), v.jobs.get((bid, 4))
    if j2 is not None and j3 is not None and j2['state'] in ('Success', 'Failed', 'Error', 'Cancelled'):
        ctx.count('scripted_children_checked')
        want_cancelled = j2['state'] != 'Success'
        for j in (j3, j4):
            if bool(j['cancelled']) != want_cancelled and j['state'] != 'Pending':
                runner.violation('failed-parent-not-cancelling' if want_cancelled else 'child-cancelled-although-parent-succeeded',
                                 f'scripted {outcome}: job {(bid, j["job_id"])} has cancelled={j["cancelled"]} although its parent ended {j2["state"]}', {'job': [bid, j['job_id']], 'outcome': outcome})


def run(ctx):
    from vf.world.patterns import Patterns
    from vf.world.run import HistoryRunner

    p = Patterns()
    r = HistoryRunner(ctx, [p, Deps(p), sqlmon.EdgeMonitor(p, check_lifecycle=False, check_handover=True)], cfg={'weights': dict(sqlmon.WEIGHTS_RUN), 'job_private': False},
                      n_ops=ctx.pick(25, 40), setup=scripted)
    for i, rng in ctx.cases(ctx.pick(44, 220), 'scripted'):
        res = r.run_case(i, rng)
        ops = res.get('ops', [])
        ctx.case(sample={'scripted-prefix+ops': ops[:30]}, key=('scripted', i, tuple(ops)), nontrivial=True)
    sqlmon.standard_run(ctx, lambda p: [Deps(p), sqlmon.EdgeMonitor(p, check_lifecycle=False, check_handover=True)],
                        cfg={'parent_p': 0.8, 'weights': {'job_complete': 16, 'cancel_batch': 0.5, 'cancel_job_group': 1, 'cancel_ready': 5}})
