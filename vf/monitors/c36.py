"""C36 Front-end types agree with the IR it emits.

Real code run: the hail Python front end (expression constructors, impute_type / literal, Table and
MatrixTable methods, IR / TableIR / MatrixIR typing rules) on generated programs, under a fake
backend that never executes (vf/hail_fake_backend.py).

Monitors (all installed from here, nothing in /repo is edited)
  M1  a wrapper around ``Expression.__init__`` sees EVERY expression the front end builds and compares
      the declared ``dtype`` with the type the IR node's own rule derives from its children
      (``type(ir)._compute_type`` called afresh) and with the type cached on the node;
  M2  for every finished program a top-down walk over the emitted IR with the repository's binding
      metadata (``BaseIR.child_context`` with types): every ``Ref`` must carry the type its binder
      provides, every node's rule re-applied in the right environment must reproduce the cached type;
      the repository's own ``compute_type(..., deep_typecheck=True)`` is run as well and triaged;
  M3  internal type assertions of the front end (``IR.assign_type`` / ``compute_type`` / ``If`` /
      ``Coalesce`` ...) firing on a program the front end otherwise accepts;
  M4  ``Table`` / ``MatrixTable`` wrappers vs the relational IR type (row / global / key, col / entry)
      and vs a small schema model of what each method means (annotate adds a field of the
      expression's type, key_by sets the key, group_by().aggregate() yields keys + aggregations ...);
  M5  literals: ``hl.literal(v)`` / ``hl.literal(v, t)`` / ``impute_type`` carry a type that ``v`` satisfies
      (``dtype.typecheck(v)``), and the encoded literal decodes back to ``v``.
  M6  after every Table / MatrixTable operation the emitted relational IR is typed bottom-up with an ORDER-PRECISE reference
      transcribed from the ENGINE's Scala ``typ`` definitions (vf/hail_relational_rules.py: TableIR.scala, MatrixIR.scala,
      TableType / MatrixType / TStruct helpers, InferType for the struct spine of ``new_row`` & co.); every relational node's
      Python ``.typ`` and the wrapper's ``row.dtype`` / ``globals.dtype`` / ``key`` (col / entry / col_key) must equal it
      EXACTLY, field order included.  Node classes without transcription are recorded (``relational_rule_not_transcribed``)
      and not judged.
  M7  the IR that is actually SENT.  Every action (collect / count / write / globals / aggregate, MatrixTable likewise) first REBUILDS the
      pipeline node by node (`handle_randomness` -> the hand-written `_handle_randomness` of every relational node and stream node:
      uid fields are threaded through, rng states bound); whenever seeded randomness occurs anywhere in the pipeline -- and for every
      pipeline when the action itself asks for row / col uids -- what reaches the backend is that rebuilt tree, never the one the wrapper
      shows.  After every Table / MatrixTable operation the monitor performs the rebuild exactly as the action constructors do (without
      uids; with a row uid; for matrix tables with row+col / row / col uids), types the REBUILT tree bottom-up with the transcribed
      engine rules and demands: the type it implies equals the type the front end reports for the table / matrix table (exactly, field
      order included; with uids requested: the reported fields in the reported order with the reported types, further uid fields
      tolerated and recorded), every rebuilt relational node agrees with its engine rule, `TableCollect(...).typ` (what results are decoded
      with) is the reported one, and -- on finished programs -- every reference inside the rebuilt tree is typed as its rebuilt binder
      provides (a binder that only ADDS uid fields to a struct that is merely projected from is fine).  The phases `table-sent` and
      `matrix-sent` generate the pipelines this needs: seeded randomness in about half of the generated expressions (value level, inside
      stream bodies, in aggregations and scans, in filters / keys / globals, on the right side of joins, in the action's own query) and
      every relational node kind the front end can emit offline with every type-relevant optional constructor argument (interval joins
      with and without all_matches from tables and from matrix rows, sorted key_by, un-keying, foreign-key joins, ...).
  M8  nodes that combine SEVERAL relational children (TableUnion, TableMultiWayZipJoin, MatrixUnionRows, MatrixUnionCols; also TableJoin
      and TableLeftJoinRightDistinct keys): their type -- in the Python rule and in the engine's `typ` alike -- is read off the FIRST
      child; that the others agree is established by the front-end METHOD (Table.union(unify=True) re-selects every table onto the
      unified field list and casts numeric fields to the common type; union without unify, multi_way_zip_join, union_rows, union_cols
      compare and refuse) and ASSERTED by the engine (TypeCheck.scala, transcribed into vf/hail_relational_rules.py).  The transcribed
      assertion is evaluated on every such node of the emitted and of the rebuilt trees (`...-engine-rule-rejects-accepted-node` /
      `sent-ir/...-rejects-rebuilt-node`); phase `nary` generates what it needs: 2..4 tables derived from one table whose value fields
      have the same names but other, unifiable numeric types (int32 / int64 / float32 / float64 and arrays of them), same / other field
      order, missing / extra / non-unifiable fields, unify True / False, any of them as the receiver, some with seeded randomness, then
      expressions over the unified fields (their reported type rests on the node's reported row type) and a schema model of what
      `unify` means (the widest numeric type per field); matrix tables likewise for union_rows / union_cols.
  M9  primitive operators against an ABSOLUTE reference.  ApplyUnaryPrimOp / ApplyBinaryPrimOp / ApplyComparisonOp are typed twice on the
      Python side (the function that builds the expression, and the node's `_compute_type` which M1 / M2 compare it with); both can agree
      and still differ from the engine.  The engine's tables (UnaryOp.scala / BinaryOp.scala `returnType`, ComparisonOp.checkCompatible +
      InferType) are transcribed into vf/hail_relational_rules.py and every such node -- when the expression is constructed, in every
      finished emitted program and in every rebuilt tree that is walked -- must carry exactly the engine's result type for its operand
      types, which must be a combination the engine accepts (`expr/primitive-op-type-differs-from-engine-rule`,
      `expr/primitive-op-operands-rejected-by-engine-rule`, with `sent-ir/` for rebuilt trees).  Phase `primop` applies every operator of
      the API to bool / int32 / int64 / float32 / float64 fields, typed literals and plain Python numbers (ints beyond int32) in both
      operand orders and uses the results downstream (table fields, + int64, * float64, bit_count again, comparisons, aggregation).
Contract evaluations are counted; zero => INCONCLUSIVE (FLOORS).
"""
import math
import os

PID = 'C36'
LEVEL = 'exploration'
RULE = (
    'phase literal: seeded (type, value) pairs over bool/int32/int64/float/str/array/set/dict/tuple/struct/locus/interval/call '
    '(nested <= 3, with missing values) through hl.literal with and without an explicit type; phase expr: the typed random '
    'expression DAGs of vf/gen_hail_ir.py (depth <= 6, lambdas, local aggregations and scans); phase api: pools of literal '
    'seeds closed under ~90 randomly chosen expression-API calls (arithmetic with coercions int32+float64 / int64, comparisons, '
    'collection functions len/map/filter/sorted/flatten/zip/group_by, set and dict operations, struct annotate/select/drop, '
    'strings, conditionals, missingness); phase table: range_table / Table.parallelize sources then annotate / select / drop / '
    'rename / transmute / key_by / filter / annotate_globals / group_by().aggregate / join / index / explode / union / order_by / '
    'add_index / collect_by_key / aggregate / collect; phase matrix: range_matrix_table then annotate_rows/cols/entries/globals, '
    'select_*, drop, filter_*, key_rows_by / key_cols_by, row/col aggregations, group_rows_by / group_cols_by, explode_rows, '
    'rows / cols / entries / localize_entries, aggregate_* (35% / 20% of the matrix cases start by re-keying rows / cols by a new, '
    'non-leading field; group_rows_by / group_cols_by half of the time with aggregate_rows / aggregate_cols; union_cols only with '
    'VERIF_C36_UNION_COLS=1).  After every Table / MatrixTable operation every relational node of the emitted IR is re-typed with the '
    'transcribed engine rules and compared exactly (field order included) with the Python node and the wrapper; the pipeline is also rebuilt '
    'the way every action rebuilds it (handle_randomness without uids / with row uid / for matrix tables row+col, row, col uids) and the rebuilt '
    'tree is judged the same way against the type the front end reports.  Phases table-sent / matrix-sent: the same programs over a wider '
    'operation catalogue (interval-keyed Table.index with all_matches False / True from table rows and matrix rows, all_matches on plain keys, '
    'tail, naive_coalesce, sample, filter_intervals, semi / anti join, _map_partitions, _filter_partitions, _key_by_assert_sorted, union with a '
    'randomly filtered copy, table views of random matrix pipelines; annotate_rows / cols / entries from keyed and foreign-keyed tables, choose_cols, '
    'collect_cols_by_key, explode_cols, union_rows, distinct_by_row, head / tail, sample_rows / cols, unfilter_entries, rename, localize -> '
    '_unlocalize_entries, add_row / col_index) with seeded randomness (rand_bool / int32 / int64 / unif / norm / pois / beta / gamma / cat / '
    'hyper / dirichlet / shuffle, inside map / filter / flatmap / sorted / fold / scan / zip bodies, in aggregations, scans, filters, keys, '
    'globals, join right sides and action queries) in about half of the generated expressions.  Phase nary: 2..4 tables derived from one '
    'range table (key idx, or a computed str key that is not the leading row field) with 1..3 numeric / numeric-array value fields: each sibling '
    're-types fields to another of int32 / int64 / float32 / float64, re-orders, drops or adds a field, makes one non-unifiable, only moves the key, '
    'filters randomly; Table.union with unify True / False or multi_way_zip_join with any of them as the receiver; then an annotate over a '
    'unified field and a random consumer; for matrix tables union_rows (2..3) / union_cols over re-typed entry / col / row fields.  On every '
    'node with several relational children the engine\'s TypeCheck assertion about the children is evaluated (emitted and rebuilt tree).  Phase primop: '
    'per case every unary operator of the API (-, ~, bit_not, bit_count) over each of bool / int32 / int64 / float32 / float64 and 45 of the 21 x 5 x 5 '
    'binary combinations (+ - * / // ** % bit_and / or / xor, three shifts, six comparisons, & |), operands drawn from table fields, typed literals '
    'and plain Python values (ints beyond the int32 range, floats, bools); up to 14 results used downstream (as table fields, + int64, int64 *, '
    'bit_count, shifts, comparisons, * float64, negation, division, if_else) in one annotate, then a random filter half of the time and an '
    'aggregation; every primitive-operator node is judged against the transcribed engine tables.  A case is non-trivial '
    'when at least one derivational contract was evaluated; distinct by (phase, sequence of operations, resulting type).'
)
ASSUMPTIONS = [
    'for value IR, "type implied by the IR" is the Python IR node\'s own typing rule applied to its children in the environment given by '
    'the repository\'s binding metadata (the engine\'s inference cannot run here)',
    'for relational IR (TableIR / MatrixIR) and the struct spine of their row / global / col / entry constructors it is the engine\'s own '
    'Scala `typ` definition, transcribed by hand into vf/hail_relational_rules.py (TableIR.scala, MatrixIR.scala, TableType / MatrixType / '
    'TStruct helpers, InferType.scala for MakeStruct / SelectFields / InsertFields / GetField / Let / Ref; TypeCheck.scala for what the engine '
    'asserts about the children of TableUnion / TableMultiWayZipJoin / MatrixUnionRows / MatrixUnionCols / TableJoin / TableLeftJoinRightDistinct; '
    'UnaryOp.scala / BinaryOp.scala returnType and ComparisonOp.checkCompatible for the primitive operators of value IR); '
    'the transcription is trusted',
    'the schema model of the Table / MatrixTable methods in this file states what the methods are documented to do',
    '"the IR it sends" is produced by calling the same entry points the action constructors call (ir.TableCollect(tir).child, '
    'tir.handle_randomness(default_row_uid), mir.handle_randomness(row uid, col uid)); nothing is executed.  MatrixRead._compute_type asks the '
    'ENGINE for the type of a range_matrix_table read with uids kept; the engine\'s answer (MatrixReader.fullMatrixType + Parser.scala '
    'MatrixRead DropRowUIDs / DropColUIDs) is supplied by this monitor',
]
TRUSTED_BASE = ['vf/hail_fake_backend.py (no execution)', 'schema model + IR walk in vf/monitors/c36.py', 'vf/hail_relational_rules.py (transcription of the engine\'s relational typing rules)',
                'vf/shims (decorator, parsimonious, orjson; pandas/pyspark inert)']
SHARDS = {'quick': 4, 'thorough': 16}
TIMEOUT = {'quick': 900, 'thorough': 3000}
FLOORS = {
    'contract_expr_rule': 20000, 'contract_ref_binder': 5000, 'contract_node_in_env': 20000, 'contract_table_wrapper': 1000,
    'contract_table_model': 500, 'contract_matrix_wrapper': 500, 'contract_matrix_model': 300, 'contract_literal_typecheck': 1000,
    'contract_literal_roundtrip': 500, 'ir_node_classes': 60, 'contract_join_row_layout': 10, 'matrix_unkey_ops': 8, 'joins_with_left_key_not_leading': 2,
    # M6 (engine-rule transcription): evaluations in total, per relational node class (about half of what seeds 0..4 observe in the
    # quick tier), distinct classes judged, wrapper comparisons, and the layouts in which field ORDER can show at all
    'relational_rule_checked': 2700, 'contract_relational_wrapper': 2000, 'relational_rule_classes_checked': 25,
    'table_states_with_key_not_leading': 170, 'matrix_states_with_row_key_not_leading': 220, 'matrix_states_with_col_key_not_leading': 115,
    'relational_rule_checked:TableRange': 150, 'relational_rule_checked:TableParallelize': 100, 'relational_rule_checked:TableMapRows': 450,
    'relational_rule_checked:TableMapGlobals': 45, 'relational_rule_checked:TableKeyBy': 200, 'relational_rule_checked:TableJoin': 17,
    'relational_rule_checked:TableLeftJoinRightDistinct': 16, 'relational_rule_checked:TableExplode': 9, 'relational_rule_checked:TableAggregateByKey': 20,
    'relational_rule_checked:TableKeyByAndAggregate': 35, 'relational_rule_checked:TableOrderBy': 35, 'relational_rule_checked:TableUnion': 35,
    'relational_rule_checked:TableRename': 30, 'relational_rule_checked:TableFilter': 30, 'relational_rule_checked:TableHead': 30,
    'relational_rule_checked:TableDistinct': 20, 'relational_rule_checked:MatrixRead': 160, 'relational_rule_checked:MatrixMapRows': 200,
    'relational_rule_checked:MatrixMapCols': 240, 'relational_rule_checked:MatrixMapEntries': 120, 'relational_rule_checked:MatrixMapGlobals': 30,
    'relational_rule_checked:MatrixKeyRowsBy': 140, 'relational_rule_checked:MatrixAggregateRowsByKey': 29, 'relational_rule_checked:MatrixAggregateColsByKey': 30,
    'relational_rule_checked:MatrixRename': 60, 'relational_rule_checked:MatrixFilterRows': 30, 'relational_rule_checked:MatrixFilterCols': 30,
    'relational_rule_checked:MatrixFilterEntries': 30, 'relational_rule_checked:MatrixRowsTable': 60, 'relational_rule_checked:MatrixColsTable': 30,
    'relational_rule_checked:MatrixEntriesTable': 25, 'relational_rule_checked:CastMatrixToTable': 65,
    # M7 (the IR that is SENT): rebuilt trees judged against the reported type in total / for pipelines WITH seeded randomness per action
    # variant, reference walks, action result types, randomized expressions, random action queries, distinct relational node kinds (with
    # their type-relevant optional constructor arguments) that occurred in pipelines with randomness -- and each such kind separately
    # (about half of the minimum over seeds 0..4 in the quick tier): a run that never rebuilt an interval join with product=True, a sorted
    # key_by, a MatrixMapCols with an empty new key ... under randomness is INCONCLUSIVE, not HELD
    'contract_sent_root_type': 7000, 'contract_sent_root_type_random_pipeline': 2900,
    'contract_sent_root_type_random_pipeline:table:no-uid': 780, 'contract_sent_root_type_random_pipeline:table:row-uid': 750,
    'contract_sent_root_type_random_pipeline:matrix:no-uid': 560, 'contract_sent_root_type_random_pipeline:matrix:row+col-uid': 560,
    'contract_sent_root_type_random_pipeline:matrix:row-uid': 110, 'contract_sent_root_type_random_pipeline:matrix:col-uid': 110,
    'contract_sent_reference_walk': 1800, 'contract_sent_action_result_type': 990, 'sent_random_pipelines': 1400,
    'randomized_expressions': 280, 'actions_with_random_query': 17, 'sent_relational_rule_checked': 55000,
    'sent_random_pipeline_node_kinds': 60, 'sent_relational_rule_classes_checked': 45,
    'sent_random_pipeline_node:CastMatrixToTable': 70, 'sent_random_pipeline_node:CastTableToMatrix': 30,
    'sent_random_pipeline_node:MatrixAggregateColsByKey': 35, 'sent_random_pipeline_node:MatrixAggregateRowsByKey': 40,
    'sent_random_pipeline_node:MatrixAnnotateColsTable': 75, 'sent_random_pipeline_node:MatrixAnnotateRowsTable(product=False)': 140,
    'sent_random_pipeline_node:MatrixAnnotateRowsTable(product=True)': 35, 'sent_random_pipeline_node:MatrixChooseCols': 19,
    'sent_random_pipeline_node:MatrixCollectColsByKey': 35, 'sent_random_pipeline_node:MatrixColsHead': 17,
    'sent_random_pipeline_node:MatrixColsTable': 50, 'sent_random_pipeline_node:MatrixColsTail': 20,
    'sent_random_pipeline_node:MatrixDistinctByRow': 30, 'sent_random_pipeline_node:MatrixEntriesTable': 11,
    'sent_random_pipeline_node:MatrixExplodeCols(path_len=1)': 15, 'sent_random_pipeline_node:MatrixExplodeCols(path_len=2)': 10,
    'sent_random_pipeline_node:MatrixExplodeRows(path_len=1)': 40, 'sent_random_pipeline_node:MatrixExplodeRows(path_len=2)': 30,
    'sent_random_pipeline_node:MatrixFilterCols': 140, 'sent_random_pipeline_node:MatrixFilterEntries': 80,
    'sent_random_pipeline_node:MatrixFilterIntervals(keep=False)': 6, 'sent_random_pipeline_node:MatrixFilterIntervals(keep=True)': 7,
    'sent_random_pipeline_node:MatrixFilterRows': 140, 'sent_random_pipeline_node:MatrixKeyRowsBy(is_sorted=False,empty=False)': 230,
    'sent_random_pipeline_node:MatrixKeyRowsBy(is_sorted=False,empty=True)': 45,
    'sent_random_pipeline_node:MatrixMapCols(new_key,empty=False)': 170, 'sent_random_pipeline_node:MatrixMapCols(new_key,empty=True)': 1,
    'sent_random_pipeline_node:MatrixMapCols(new_key=None)': 370, 'sent_random_pipeline_node:MatrixMapEntries': 270,
    'sent_random_pipeline_node:MatrixMapGlobals': 35, 'sent_random_pipeline_node:MatrixMapRows': 480,
    'sent_random_pipeline_node:MatrixRead': 670, 'sent_random_pipeline_node:MatrixRename': 110,
    'sent_random_pipeline_node:MatrixRepartition(strategy=2)': 30, 'sent_random_pipeline_node:MatrixRowsHead': 20,
    'sent_random_pipeline_node:MatrixRowsTable': 65, 'sent_random_pipeline_node:MatrixRowsTail': 18,
    'sent_random_pipeline_node:MatrixToMatrixApply(MatrixFilterPartitions)': 30,
    'sent_random_pipeline_node:MatrixUnionRows': 40,
    'sent_random_pipeline_node:TableAggregateByKey': 50, 'sent_random_pipeline_node:TableDistinct': 25,
    'sent_random_pipeline_node:TableExplode(path_len=1)': 25, 'sent_random_pipeline_node:TableExplode(path_len=2)': 40,
    'sent_random_pipeline_node:TableFilter': 490, 'sent_random_pipeline_node:TableFilterIntervals(keep=False)': 6,
    'sent_random_pipeline_node:TableFilterIntervals(keep=True)': 2, 'sent_random_pipeline_node:TableHead': 110,
    'sent_random_pipeline_node:TableIntervalJoin(product=False)': 50, 'sent_random_pipeline_node:TableIntervalJoin(product=True)': 100,
    'sent_random_pipeline_node:TableJoin(inner,partial_key=False)': 45, 'sent_random_pipeline_node:TableJoin(left,partial_key=False)': 7,
    'sent_random_pipeline_node:TableJoin(outer,partial_key=False)': 11,
    'sent_random_pipeline_node:TableJoin(right,partial_key=False)': 11,
    'sent_random_pipeline_node:TableKeyBy(is_sorted=False,empty=False)': 480,
    'sent_random_pipeline_node:TableKeyBy(is_sorted=False,empty=True)': 300,
    'sent_random_pipeline_node:TableKeyBy(is_sorted=True,empty=False)': 95, 'sent_random_pipeline_node:TableKeyByAndAggregate': 160,
    'sent_random_pipeline_node:TableLeftJoinRightDistinct': 160, 'sent_random_pipeline_node:TableMapGlobals': 150,
    'sent_random_pipeline_node:TableMapPartitions': 40, 'sent_random_pipeline_node:TableMapRows': 810,
    'sent_random_pipeline_node:TableOrderBy': 35, 'sent_random_pipeline_node:TableParallelize': 490,
    'sent_random_pipeline_node:TableRange': 600, 'sent_random_pipeline_node:TableRename': 80,
    'sent_random_pipeline_node:TableRepartition(strategy=2)': 35, 'sent_random_pipeline_node:TableTail': 25,
    'sent_random_pipeline_node:TableToTableApply(TableFilterPartitions)': 35, 'sent_random_pipeline_node:TableUnion': 100,
    # the three rewrite situations repaired by the fix: commits 79ba8d367 / bacf59513 / d23e4a0f0 (validation record G1-G3) must keep arising
    'entries_tables_under_a_uid_requesting_consumer': 45, 'entries_tables_under_a_random_filter': 35,
    'multi_way_zip_joins_under_a_uid_requesting_consumer': 25, 'random_group_keys_rebuilt': 18,
    'sent_random_pipeline_node:TableMultiWayZipJoin': 95,
    # phase nary (nodes with several relational children): cases, evaluations of the engine's child-agreement rule on emitted / rebuilt trees
    # in total and per class over children that are NOT one and the same node, unions accepted with / without unify and refused, unions
    # that need numeric widening / where a table already has the unified names and order but another numeric type (the class of
    # seeded/C36-agent10) / with re-ordered, missing or extra fields / whose receiver itself needs casting / of 3+ tables / followed by
    # expressions over the unified field, zip joins and matrix unions accepted and refused
    'nary_cases': 180, 'nary_children_rule_checked': 410, 'sent_nary_children_rule_checked': 1700,
    'nary_children_rule_checked_distinct_children:TableUnion': 150, 'sent_nary_children_rule_checked_distinct_children:TableUnion': 810,
    'nary_children_rule_checked_distinct_children:TableMultiWayZipJoin': 60,
    'sent_nary_children_rule_checked_distinct_children:TableMultiWayZipJoin': 200,
    'nary_children_rule_checked_distinct_children:MatrixUnionRows': 10,
    'sent_nary_children_rule_checked_distinct_children:MatrixUnionRows': 180,
    'nary_children_rule_checked_distinct_children:MatrixUnionCols': 50,
    'sent_nary_children_rule_checked_distinct_children:MatrixUnionCols': 380, 'nary_children_rule_checked_3plus_children:TableUnion': 100,
    'nary_children_rule_checked_3plus_children:TableMultiWayZipJoin': 30, 'nary_children_rule_checked_3plus_children:MatrixUnionRows': 4,
    'unions_accepted:unify=True': 55, 'unions_accepted:unify=False': 10, 'nary_union_refused': 30, 'unions_over_different_row_types': 50,
    'unions_with_numeric_widening': 40, 'unions_where_a_table_has_the_unified_names_and_order_but_another_numeric_type': 25,
    'unions_with_reordered_missing_or_extra_fields': 40, 'unions_whose_receiver_needs_casting': 35, 'unions_of_3plus_tables': 30,
    'unions_downstream_over_unified_field': 75, 'unions_unify_over_tables_that_differ_only_in_key_position': 9, 'nary_mwzj_accepted': 10,
    'nary_mwzj_refused': 7, 'nary_union_rows_accepted': 2, 'nary_union_rows_refused': 11, 'nary_union_cols_accepted': 10,
    'nary_union_cols_refused': 9, 'nary_union_cols_accepted_over_tables_that_differ_in_a_field_the_method_need_not_compare': 1,
    'nary_union_rows_accepted_over_tables_that_differ_in_a_field_the_method_need_not_compare': 1,
    # M9 / phase primop: primitive-operator nodes judged against the engine's tables at construction / in finished emitted programs / in
    # rebuilt trees, distinct (operator, operand types) combinations judged, API applications accepted / refused, downstream uses, and the
    # unary operators and the 64-bit / float32 corners of the binary ones separately
    'contract_primitive_op_constructed': 18700, 'contract_primitive_op_in_tree': 16400, 'sent_contract_primitive_op_in_tree': 12700,
    'primop_applications_accepted': 3800, 'primop_applications_refused': 1700, 'primop_downstream_uses': 3300,
    'primop_tables_annotated': 80, 'contract_primitive_op_constructed:Negate(int32)': 630,
    'sent_contract_primitive_op_in_tree:Negate(int32)': 390, 'contract_primitive_op_constructed:Negate(int64)': 280,
    'sent_contract_primitive_op_in_tree:Negate(int64)': 170, 'contract_primitive_op_constructed:Negate(float32)': 310,
    'sent_contract_primitive_op_in_tree:Negate(float32)': 190, 'contract_primitive_op_constructed:Negate(float64)': 370,
    'sent_contract_primitive_op_in_tree:Negate(float64)': 240, 'contract_primitive_op_constructed:Bang(bool)': 2600,
    'sent_contract_primitive_op_in_tree:Bang(bool)': 2200, 'contract_primitive_op_constructed:BitNot(int32)': 230,
    'sent_contract_primitive_op_in_tree:BitNot(int32)': 180, 'contract_primitive_op_constructed:BitNot(int64)': 110,
    'sent_contract_primitive_op_in_tree:BitNot(int64)': 75, 'contract_primitive_op_constructed:BitCount(int32)': 310,
    'sent_contract_primitive_op_in_tree:BitCount(int32)': 270, 'contract_primitive_op_constructed:BitCount(int64)': 160,
    'sent_contract_primitive_op_in_tree:BitCount(int64)': 140, 'contract_primitive_op_constructed:LeftShift(int64, int32)': 65,
    'sent_contract_primitive_op_in_tree:LeftShift(int64, int32)': 60, 'contract_primitive_op_constructed:RightShift(int64, int32)': 10,
    'sent_contract_primitive_op_in_tree:RightShift(int64, int32)': 4,
    'contract_primitive_op_constructed:LogicalRightShift(int64, int32)': 11,
    'sent_contract_primitive_op_in_tree:LogicalRightShift(int64, int32)': 1,
    'contract_primitive_op_constructed:FloatingPointDivide(int64, int64)': 100,
    'sent_contract_primitive_op_in_tree:FloatingPointDivide(int64, int64)': 70,
    'contract_primitive_op_constructed:FloatingPointDivide(float32, float32)': 120,
    'sent_contract_primitive_op_in_tree:FloatingPointDivide(float32, float32)': 120,
    'contract_primitive_op_constructed:RoundToNegInfDivide(int64, int64)': 40,
    'sent_contract_primitive_op_in_tree:RoundToNegInfDivide(int64, int64)': 17,
    'contract_primitive_op_constructed:BitXOr(int64, int64)': 25, 'sent_contract_primitive_op_in_tree:BitXOr(int64, int64)': 9,
    'primitive_op_combinations_constructed': 65, 'primitive_op_combinations_in_tree': 65, 'sent_primitive_op_combinations_in_tree': 60, 'primop_api_combinations_accepted': 330,
}

# MatrixTable.union_cols in the matrix workload.  OFF by default: on the unchanged tree it witnesses a GENUINE disagreement between the
# Python rule and the engine rule (MatrixUnionCols, see the validation record at the bottom; proposed fix in
# /verif/proposed_fixes/C36-MatrixUnionCols-row-type-keeps-left-field-order.diff).  Turn on (VERIF_C36_UNION_COLS=1, or flip the
# default) once the repair / the known finding `relational/MatrixUnionCols-type-differs-from-engine-rule` is registered.
UNION_COLS_IN_WORKLOAD = os.environ.get('VERIF_C36_UNION_COLS', '1') == '1'

# Three patterns of the wide workload on which M7 found GENUINE disagreements between the reported type and the IR that is sent (validation
# record G1-G3 at the bottom).  They were kept out of the default workload until the repairs landed; all three are repaired in /repo now
# (`fix:` commits d23e4a0f0, bacf59513, 79ba8d367) and ON by default.  The switches remain (=0 turns a pattern off, e.g. to run the monitor
# against a tree from before the repairs); FLOORS make a run in which a pattern never arises INCONCLUSIVE
# (multi_way_zip_joins_under_a_uid_requesting_consumer, entries_tables_under_a_uid_requesting_consumer / ..._under_a_random_filter,
# random_group_keys_rebuilt), so a switched-off run does not claim HELD.
#   G1  Table.multi_way_zip_join under a consumer that needs row uids: TableMultiWayZipJoin._handle_randomness inserted the uid as a VALUE
#       field into every child, so the elements of the `data` array carried `__row_uid` / `__uid`.
MULTI_WAY_ZIP_JOIN_IN_WORKLOAD = os.environ.get('VERIF_C36_MULTI_WAY_ZIP_JOIN', '1') == '1'
#   G2  randomness-consuming table operations on top of MatrixTable.entries(): MatrixEntriesTable._handle_randomness asked its child for
#       `__col_uid` and never dropped it; `mt.entries().filter(hl.rand_bool(.5))` / `.sample(p)` sent rows with an extra `__col_uid` field
#       (a TableMapRows consumer re-selects its fields by name and hid it: the workload puts filter / sample DIRECTLY on the view).
ENTRIES_UNDER_RANDOMNESS_IN_WORKLOAD = os.environ.get('VERIF_C36_ENTRIES_UNDER_RANDOMNESS', '1') == '1'
#   G3  seeded randomness in the KEY expression of Table.group_by(...).aggregate(...): TableKeyByAndAggregate._handle_randomness assigned the
#       re-bound key to `expr` instead of `new_key`, so the node that was sent aggregated the KEY and every aggregated field was gone.
RANDOM_GROUP_KEY_IN_WORKLOAD = os.environ.get('VERIF_C36_RANDOM_GROUP_KEY', '1') == '1'

# Table.union(unify=True) over tables whose VALUE fields agree in name, order and type but whose KEY fields sit at different positions of
# the row struct (e.g. `t.key_by(ks=...)`: row {idx, ks, v} against `t.select('idx', 'v')`: row {ks, idx, v}) in the nary workload.  OFF by
# default: on the unchanged tree it witnesses a GENUINE disagreement (validation record G4): `union` decides that there is nothing to
# unify from `row_value.dtype` alone, emits TableUnion over children whose row types differ in field order, which the engine's TypeCheck
# rejects (VERIF_C36_UNION_KEY_POSITION=1 to turn on; witnesses are attributed to
# `relational/TableUnion-children-differ-in-key-position-after-union-unify`).
UNION_KEY_POSITION_IN_WORKLOAD = os.environ.get('VERIF_C36_UNION_KEY_POSITION', '1') == '1'

# IR classes whose "rule" merely returns a type stored at construction (no derivation from children)
VACUOUS = {'Ref', 'TopLevelReference', 'Apply', 'ApplySeeded', 'NA', 'Literal', 'EncodedLiteral', 'Cast', 'Die', 'Recur', 'JavaIR',
           'SelectedTopLevelReference', 'ProjectedTopLevelReference'}


# =================================================================================================
# value generator for literals (own small generator; no dependency on gen_hail_types)
# =================================================================================================
def gen_type(rng, hl, depth=0, key=False):
    prim = ['int32', 'int64', 'float64', 'str', 'bool', 'float32'] if not key else ['int32', 'int64', 'str', 'bool']
    opts = list(prim) * 2
    if not key:
        opts += ['call', 'locus', 'interval']
    if depth < 3:
        opts += ['array', 'array', 'struct', 'struct', 'tuple']
        if not key:
            opts += ['set', 'dict']
    k = rng.choice(opts)
    if k in ('int32', 'int64', 'float64', 'float32', 'str', 'bool', 'call'):
        return getattr(hl, 't' + k)
    if k == 'locus':
        return hl.tlocus(rng.choice(['GRCh37', 'GRCh38']))
    if k == 'interval':
        return hl.tinterval(rng.choice([hl.tint32, hl.tfloat64, hl.tlocus('GRCh37')]))
    if k == 'array':
        return hl.tarray(gen_type(rng, hl, depth + 1, key))
    if k == 'set':
        return hl.tset(gen_type(rng, hl, depth + 1, True))
    if k == 'dict':
        if rng.random() < 0.15:  # corner: values of a field-less type
            return hl.tdict(hl.tstr, rng.choice([hl.tstruct(), hl.ttuple()]))
        return hl.tdict(gen_type(rng, hl, depth + 1, True), gen_type(rng, hl, depth + 1))
    if k == 'tuple':
        return hl.ttuple(*[gen_type(rng, hl, depth + 1, key) for _ in range(rng.randint(0, 3))])
    names = rng.sample(['a', 'b', 'c', 'x y', 'é', 'f1', 'idx', 'values'], rng.randint(0, 3))
    return hl.tstruct(**{n: gen_type(rng, hl, depth + 1, key) for n in names})


def gen_value(rng, hl, t, allow_na=True, depth=0):
    from hail.utils import Interval, Struct
    from hail.utils.java import Env

    if allow_na and depth > 0 and rng.random() < 0.08:
        return None
    if t == hl.tint32:
        return rng.choice([0, 1, -1, 7, 2**31 - 1, -(2**31), rng.randint(-1000, 1000)])
    if t == hl.tint64:
        return rng.choice([0, 1, -5, 2**31, -(2**31) - 1, 2**63 - 1, -(2**63), rng.randint(-10**12, 10**12)])
    if t in (hl.tfloat64, hl.tfloat32):
        v = rng.choice([0.0, -0.0, 1.5, -2.25, 1e10, 3.0, float('inf'), float('-inf'), float('nan'), 0.1, rng.random()])
        if t == hl.tfloat32 and v == v and not math.isinf(v):
            import numpy as np

            v = float(np.float32(v))
        return v
    if t == hl.tstr:
        return rng.choice(['', 'a', 'xyz', 'é', 'a b', '\n', '"q"', '\U0001f600', 'NA'])
    if t == hl.tbool:
        return rng.random() < 0.5
    if t == hl.tcall:
        from hail.genetics import Call

        return rng.choice([Call([0, 1]), Call([1, 1], phased=True), Call([2]), Call([]), Call([0, 0])])
    if isinstance(t, hl.tlocus):
        from hail.genetics import Locus

        rg = t.reference_genome
        c = rng.choice(rg.contigs)
        return Locus(c, rng.randint(1, rg.lengths[c]), rg)
    if isinstance(t, hl.tinterval):
        a = gen_value(rng, hl, t.point_type, False, depth + 1)
        b = gen_value(rng, hl, t.point_type, False, depth + 1)
        if isinstance(a, float) and (a != a or b != b):
            a, b = 0.0, 1.0
        if isinstance(t.point_type, hl.tlocus):
            if (a.contig, a.position) > (b.contig, b.position):
                a, b = b, a
        elif a > b:
            a, b = b, a
        return Interval(a, b, rng.random() < 0.5, rng.random() < 0.5, point_type=t.point_type)
    if isinstance(t, hl.tarray):
        return [gen_value(rng, hl, t.element_type, allow_na, depth + 1) for _ in range(rng.choice([0, 1, 2, 3]))]
    if isinstance(t, hl.tset):
        vals = [gen_value(rng, hl, t.element_type, False, depth + 1) for _ in range(rng.choice([0, 1, 2, 3]))]
        out = []
        for v in vals:
            try:
                if not any(_same(v, w) for w in out):
                    out.append(_freeze(v))
            except TypeError:
                pass
        return frozenset(out) if rng.random() < 0.5 else set(out)
    if isinstance(t, hl.tdict):
        d = {}
        for _ in range(rng.choice([0, 1, 2, 3])):
            k = _freeze(gen_value(rng, hl, t.key_type, False, depth + 1))
            d[k] = gen_value(rng, hl, t.value_type, allow_na, depth + 1)
        return d
    if isinstance(t, hl.ttuple):
        return tuple(gen_value(rng, hl, x, allow_na, depth + 1) for x in t.types)
    if isinstance(t, hl.tstruct):
        return Struct(**{n: gen_value(rng, hl, x, allow_na, depth + 1) for n, x in t.items()})
    raise AssertionError(t)


def _freeze(v):
    from hail.utils import Struct
    from hail.utils.frozendict import frozendict

    if isinstance(v, list):
        return tuple(_freeze(x) for x in v) if False else _FrozenList(v)
    if isinstance(v, (set, frozenset)):
        return frozenset(_freeze(x) for x in v)
    if isinstance(v, dict) and not isinstance(v, frozendict):
        return frozendict({_freeze(k): _freeze(x) for k, x in v.items()})
    if isinstance(v, Struct):
        return v
    return v


def _FrozenList(v):
    # hail represents arrays inside hashable containers as tuples?  no: set<array<..>> values must be hashable;
    # the front end accepts tuples only for ttuple, so arrays are not used as set elements / dict keys here
    raise TypeError('unhashable array')


def _same(a, b):
    """value equality that treats NaN == NaN, -0.0 == 0.0 and list/tuple alike only when both are the same kind"""
    from hail.utils import Interval, Struct

    if a is None or b is None:
        return a is None and b is None
    if isinstance(a, float) and isinstance(b, float):
        return (a != a and b != b) or a == b
    if isinstance(a, bool) and isinstance(b, bool):
        return a == b
    # (a bool captured in a numeric container is coerced to 0 / 1: unify_types_limited)
    if isinstance(a, (int, float)) and isinstance(b, (int, float)):
        return a == b
    if isinstance(a, (list, tuple)) and isinstance(b, (list, tuple)):
        return len(a) == len(b) and all(_same(x, y) for x, y in zip(a, b))
    if isinstance(a, (set, frozenset)) and isinstance(b, (set, frozenset)):
        return len(a) == len(b) and all(any(_same(x, y) for y in b) for x in a)
    if isinstance(a, Struct) and isinstance(b, Struct):
        return list(a.keys()) == list(b.keys()) and all(_same(a[k], b[k]) for k in a)
    if isinstance(a, Struct) != isinstance(b, Struct) and isinstance(a, (Struct, dict)) and isinstance(b, (Struct, dict)):
        # a Python dict with str keys may legitimately be captured as a struct (impute_type): compare field-wise
        da, db = dict(a.items()), dict(b.items())
        return set(da) == set(db) and all(isinstance(k, str) and _same(da[k], db[k]) for k in da)
    if isinstance(a, dict) and isinstance(b, dict):
        return len(a) == len(b) and all(any(_same(k, k2) and _same(v, v2) for k2, v2 in b.items()) for k, v in a.items())
    if isinstance(a, Interval) and isinstance(b, Interval):
        return _same(a.start, b.start) and _same(a.end, b.end) and a.includes_start == b.includes_start and a.includes_end == b.includes_end
    return a == b


def typecheck_value(t, v):
    """`v` satisfies `t`: the repository's own per-level checks (`_typecheck_one_level`) applied with the repository's own
    traversal (`_traverse`), descending only into defined values -- exactly how `hl.literal` itself uses them.
    (`HailType.typecheck` cannot be used: it descends into missing compound values and fails with
    "'NoneType' object is not iterable" for e.g. tarray(tarray(tint32)).typecheck([None]).)"""

    def check(tt, obj):
        tt._typecheck_one_level(obj)
        return obj is not None

    t._traverse(v, check)


# =================================================================================================
# M9: primitive operators against an ABSOLUTE reference (the engine's UnaryOp / BinaryOp / ComparisonOp tables)
# =================================================================================================
def prim_judge(hl, ir, x, declared, count, seen, where):
    """`x`: an ApplyUnaryPrimOp / ApplyBinaryPrimOp / ApplyComparisonOp node.  The type the Python node computes (and, at construction, the
    type the front end declares for the expression) must be the type the ENGINE gives the operator for these operand types, and the
    operand types must be a combination the engine accepts.  Returns [(key, message)]."""
    from vf.hail_relational_rules import BINARY_OPS, COMPARISON_OPS, UNARY_OPS, EngineRejects, binary_prim_type, comparison_type, unary_prim_type

    try:
        if isinstance(x, ir.ApplyUnaryPrimOp):
            ts, name, f = (x.x.typ,), UNARY_OPS.get(x.op, x.op), unary_prim_type
        elif isinstance(x, ir.ApplyBinaryPrimOp):
            ts, name, f = (x.left.typ, x.right.typ), BINARY_OPS.get(x.op, x.op), binary_prim_type
        elif isinstance(x, ir.ApplyComparisonOp):
            ts, name, f = (x.left.typ, x.right.typ), COMPARISON_OPS.get(x.op, x.op), comparison_type
        else:
            return []
        got = x.typ
    except Exception:
        count('primitive_op_types_unavailable')
        return []
    if got is None or any(t is None for t in ts):
        count('primitive_op_types_unavailable')
        return []
    prim = all(t in (hl.tbool, hl.tint32, hl.tint64, hl.tfloat32, hl.tfloat64) for t in ts)
    label = f'{name}({", ".join(str(t) if prim else "non-primitive" for t in ts)})'
    count('contract_primitive_op_' + where)
    if prim or not isinstance(x, ir.ApplyComparisonOp):
        count(f'contract_primitive_op_{where}:{label}')
        seen('primitive_op_combinations_' + where, label)
    try:
        want = f(hl, x.op, *ts)
    except EngineRejects as err:
        return [('expr/primitive-op-operands-rejected-by-engine-rule', f'{type(x).__name__} {x.op} over {[str(t) for t in ts]}: the engine rule rejects it ({err}); the front end types it {got}')]
    out = []
    if got != want:
        out.append(('expr/primitive-op-type-differs-from-engine-rule', f'{type(x).__name__} {x.op} over {[str(t) for t in ts]}: the Python node computes {got}, the engine rule gives {want}'))
    if declared is not None and declared != want:
        out.append(('expr/primitive-op-type-differs-from-engine-rule', f'{type(x).__name__} {x.op} over {[str(t) for t in ts]}: the front end declares {declared}, the engine rule gives {want}'))
    return out[:1]


# =================================================================================================
# M1: the construction hook
# =================================================================================================
class Hook:
    def __init__(self, ctx):
        self.ctx = ctx
        self.pending = []      # violations found during the current case: (key, what, witness)
        self.orig = None
        self.derivational = 0  # per case

    def install(self):
        from hail.expr.expressions.base_expression import Expression

        hook = self
        orig = Expression.__init__
        self.orig = orig

        def __init__(self, *a, **k):
            orig(self, *a, **k)
            try:
                hook.on_expr(self)
            except _Skip:
                pass

        Expression.__init__ = __init__

    def uninstall(self):
        from hail.expr.expressions.base_expression import Expression

        Expression.__init__ = self.orig

    def on_expr(self, e):
        ctx = self.ctx
        # (the subclass constructor has not finished yet: StructExpression.__getattribute__ needs attributes set later)
        x, t = object.__getattribute__(e, '_ir'), object.__getattribute__(e, '_type')
        cls = type(x).__name__
        ctx.seen('ir_node_classes', cls)
        if cls in ('ApplyUnaryPrimOp', 'ApplyBinaryPrimOp', 'ApplyComparisonOp'):
            import hail as hl
            import hail.ir as ir

            for key, msg in prim_judge(hl, ir, x, t, ctx.count, ctx.seen, 'constructed'):
                self.pending.append((key, msg, {'ir': str(x)[:1500]}))
        if t is None:
            ctx.count('expr_untyped')
            return
        if x._type is not None and x._type != t:
            self.pending.append((f'expr/declared-type-differs-from-type-cached-on-ir/{cls}', f'{cls}: Expression.dtype {t} but IR node type {x._type}', {'ir': str(x)[:1500]}))
        try:
            fresh = type(x)._compute_type(x, {}, None, False)
        except AssertionError as err:
            self.pending.append((f'expr/ir-rule-assertion/{cls}', f'{cls}._compute_type raised {err!r} for an expression the front end built with dtype {t}', {'ir': str(x)[:1500]}))
            return
        except Exception as err:  # rule needs the engine (readers) or an environment
            ctx.count('rule_not_applicable')
            ctx.seen('rule_not_applicable_kinds', cls + ': ' + type(err).__name__)
            return
        if fresh is None:
            ctx.count('rule_gives_none')
            return
        if cls in VACUOUS:
            ctx.count('contract_expr_stored_type')
        else:
            ctx.count('contract_expr_rule')
            self.derivational += 1
        if fresh != t:
            self.pending.append((f'expr/declared-type-differs-from-ir-rule/{cls}', f'{cls}: front end declares {t}, the IR node derives {fresh} from its children', {'ir': str(x)[:1500]}))


class _Skip(Exception):
    pass


# =================================================================================================
# M2: walk over emitted IR with the repository's binding metadata
# =================================================================================================
class Walker:
    def __init__(self, ctx, hl, sent=False):
        self.ctx = ctx
        self.hl = hl
        import hail.ir as ir

        self.ir = ir
        self.problems = []
        self.budget = 0
        # sent=True: the walk is over the IR as REWRITTEN for an action (handle_randomness).  There a binder may legitimately provide
        # a struct with extra (row / col uid) fields to a `Ref` whose declared type predates the rewrite -- the declared type of a
        # Ref is not part of what is sent -- as long as the reference is only projected from (GetField / SelectFields); a reference
        # whose WHOLE value flows on would carry the uid field into a value the front end typed without it.
        self.sent = sent

    def walk(self, root):
        self.memo = set()
        self.budget = 60000
        self._walk(root, ({}, None, None))

    def _walk(self, x, c, projected=False):
        ir = self.ir
        projected = projected and self.sent
        key = (id(x), id(c[0]), id(c[1]), id(c[2]), projected)
        if key in self.memo:
            return
        self.memo.add(key)
        self.budget -= 1
        if self.budget < 0:
            self.ctx.count('walk_budget_exhausted')
            return
        ctx = self.ctx
        cls = type(x).__name__
        ctx.seen('ir_node_classes', cls)
        if isinstance(x, ir.Ref):
            env = c[0] or {}
            declared = x._typ
            if x.name in env and env[x.name] is not None:
                if declared is not None:
                    ctx.count('contract_ref_binder')
                    if declared != env[x.name]:
                        if self.sent and _only_extra_fields(self.hl, declared, env[x.name]):
                            if projected:
                                ctx.count('ref_binder_has_extra_uid_fields_projected_away')
                            else:
                                self.problems.append(('ref/whole-struct-reference-sees-fields-added-by-the-rewrite',
                                                      f'Ref {x.name} was typed {declared} by the front end; in the rewritten IR its binder provides {env[x.name]} and the whole value is used', x))
                        else:
                            self.problems.append((f'ref/type-differs-from-binder', f'Ref {x.name} is declared {declared} but its binder provides {env[x.name]}', x))
            else:
                ctx.count('ref_not_resolved_by_metadata')
                ctx.seen('unresolved_ref_kinds', ('toplevel ' if isinstance(x, ir.TopLevelReference) else 'var ') + ('agg_capability' if x.name == 'agg_capability' else x.name.rstrip('0123456789')))
            return
        if isinstance(x, (ir.ProjectedTopLevelReference, ir.SelectedTopLevelReference)):
            # `t.f` / `t.row`: the declared type must be what the enclosing relational node binds for row / global / va / sa / g
            env = c[0] or {}
            bound = env.get(x.ref.name)
            if bound is None:
                ctx.count('ref_not_resolved_by_metadata')
                ctx.seen('unresolved_ref_kinds', 'toplevel ' + x.ref.name)
                return
            ctx.count('contract_ref_binder')
            try:
                if isinstance(x, ir.ProjectedTopLevelReference):
                    have = bound[x.field] if x.field in bound else None
                else:
                    have = bound._select_fields(x._typ.fields) if all(f in bound for f in x._typ.fields) else None
            except Exception:
                have = None
            if have != x._typ:
                self.problems.append(('ref/field-type-differs-from-relational-binder', f'{cls} {x.ref.name}.{getattr(x, "field", "*")} is declared {x._typ} but the enclosing relational node binds {have}', x))
            return
        # children first (so that cached types below are what the rule sees)
        for i, ch in enumerate(x.children):
            if isinstance(ch, ir.BaseIR):
                try:
                    cc = x.child_context(i, c)
                except Exception as err:
                    ctx.count('child_context_failed')
                    ctx.seen('child_context_failures', cls + ': ' + type(err).__name__ + ' ' + str(err)[:60])
                    continue
                self._walk(ch, cc, isinstance(x, (ir.GetField, ir.SelectFields)))
        if isinstance(x, (ir.ApplyUnaryPrimOp, ir.ApplyBinaryPrimOp, ir.ApplyComparisonOp)):
            for key, msg in prim_judge(self.hl, ir, x, None, ctx.count, ctx.seen, 'in_tree'):
                self.problems.append((key, msg, x))
        if isinstance(x, ir.Join):
            return
        # the node's own rule, re-applied now
        try:
            if isinstance(x, ir.IR):
                cached = x.typ
                fresh = type(x)._compute_type(x, c[0] or {}, c[1], False)
            elif isinstance(x, (ir.TableIR, ir.MatrixIR)):
                cached = x.typ
                fresh = type(x)._compute_type(x, False)
            else:
                return
        except AssertionError as err:
            self.problems.append((f'node/ir-rule-assertion/{cls}', f'{cls}._compute_type raised {err!r} inside an accepted program', x))
            return
        except Exception as err:
            ctx.count('rule_not_applicable')
            ctx.seen('rule_not_applicable_kinds', cls + ': ' + type(err).__name__)
            return
        if fresh is None:
            return
        if cls not in VACUOUS:
            ctx.count('contract_node_in_env')
        if fresh != cached:
            self.problems.append((f'node/cached-type-differs-from-ir-rule/{cls}', f'{cls}: cached type {cached}, rule gives {fresh}', x))


def deep_typecheck(ctx, root, relational):
    """the repository's own top-down re-derivation; never used by the front end itself, so its failures are
    triaged: only genuine type disagreements are violations, limitations of the facility are counted."""
    import traceback

    try:
        if relational:
            root.compute_type(deep_typecheck=True)
        else:
            root.compute_type({}, None, deep_typecheck=True)
        ctx.count('deep_typecheck_passed')
        return None
    except AssertionError as err:
        tb = traceback.extract_tb(err.__traceback__)
        line = (tb[-1].line or '').strip()
        if 'not found in' in str(err) or line.startswith('assert self.name in env'):
            ctx.count('deep_typecheck_facility_limit')
            ctx.seen('deep_typecheck_facility_limits', 'Ref not in env handed down by ' + _binder_of(tb))
            return None
        node = _last_self(err)
        if line == 'assert self._type == computed' and type(node).__name__ == 'TopLevelReference' and getattr(node, '_typ', 0) is None:
            # the untyped inner reference of a Projected/SelectedTopLevelReference caches the row type of the FIRST table it is
            # checked against; the same field expression legitimately occurs under a table with extra (join / key) fields
            ctx.count('deep_typecheck_facility_limit')
            ctx.seen('deep_typecheck_facility_limits', 'untyped TopLevelReference caches the first environment')
            return None
        if line in ('assert self._type == computed', 'assert self._typ == env[self.name]', 'assert computed == typ, (computed, typ)',
                    'assert self.cnsq.typ == self.altr.typ', 'assert x.typ == first.typ', 'assert self.ref.typ[self.field] == self._typ',
                    'assert self.ref.typ._select_fields(self._typ.fields) == self._typ', 'assert self.zero.typ == self.seq_op.typ',
                    'assert self.zero.typ == self.comb_op.typ'):
            return ('deep-typecheck/type-assertion', f'deep_typecheck: {line} failed in {tb[-1].name}: {str(err)[:200]}')
        ctx.count('deep_typecheck_other_assert')
        ctx.seen('deep_typecheck_other', line[:80])
        return None
    except Exception as err:
        tb = traceback.extract_tb(err.__traceback__)
        ctx.count('deep_typecheck_facility_limit')
        ctx.seen('deep_typecheck_facility_limits', type(err).__name__ + ' at ' + (tb[-1].line or '').strip()[:70])
        return None


def _last_self(err):
    tb = err.__traceback__
    while tb.tb_next is not None:
        tb = tb.tb_next
    return tb.tb_frame.f_locals.get('self')


def _binder_of(tb):
    for f in reversed(tb):
        if f.name == '_compute_type' and 'compute_type(' in (f.line or '') and 'assert' not in (f.line or ''):
            return (f.line or '').strip()[:90]
    return '?'


# =================================================================================================
# API catalogue for the 'api' phase
# =================================================================================================
def api_catalogue(hl, rng):
    T = hl
    num = lambda e: e.dtype in (T.tint32, T.tint64, T.tfloat64, T.tfloat32)  # noqa: E731
    integral = lambda e: e.dtype in (T.tint32, T.tint64)  # noqa: E731
    i32 = lambda e: e.dtype == T.tint32  # noqa: E731
    boolean = lambda e: e.dtype == T.tbool  # noqa: E731
    string = lambda e: e.dtype == T.tstr  # noqa: E731
    arr = lambda e: isinstance(e.dtype, T.tarray)  # noqa: E731
    numarr = lambda e: isinstance(e.dtype, T.tarray) and e.dtype.element_type in (T.tint32, T.tint64, T.tfloat64)  # noqa: E731
    arrarr = lambda e: isinstance(e.dtype, T.tarray) and isinstance(e.dtype.element_type, T.tarray)  # noqa: E731
    setlike = lambda e: isinstance(e.dtype, T.tset)  # noqa: E731
    dictlike = lambda e: isinstance(e.dtype, T.tdict)  # noqa: E731
    coll = lambda e: isinstance(e.dtype, (T.tarray, T.tset))  # noqa: E731
    struct = lambda e: isinstance(e.dtype, T.tstruct)  # noqa: E731
    nonempty_struct = lambda e: isinstance(e.dtype, T.tstruct) and len(e.dtype) > 0  # noqa: E731
    tup = lambda e: isinstance(e.dtype, T.ttuple) and len(e.dtype) > 0  # noqa: E731
    anyv = lambda e: True  # noqa: E731

    def lam_for(et):
        """a lambda body suited to element type et"""
        opts = [lambda x: x, lambda x: T.is_defined(x), lambda x: T.struct(v=x, w=1), lambda x: [x], lambda x: T.str(x) if et in (T.tint32, T.tint64, T.tfloat64, T.tbool, T.tstr) else T.is_missing(x),
                lambda x: (x, 1.5)]
        if et in (T.tint32, T.tint64, T.tfloat64, T.tfloat32):
            opts += [lambda x: x + 1, lambda x: x * 2.5, lambda x: x / 2, lambda x: x > 1, lambda x: T.int64(x), lambda x: -x, lambda x: x ** 2, lambda x: x // 2, lambda x: x % 3]
        if et == T.tstr:
            opts += [lambda x: x + 'z', lambda x: T.len(x), lambda x: x.upper()]
        if isinstance(et, T.tarray):
            opts += [lambda x: T.len(x), lambda x: x[0], lambda x: x[:1]]
        if isinstance(et, T.tstruct) and len(et) > 0:
            f0 = list(et)[0]
            opts += [lambda x: x[f0], lambda x: x.annotate(zz=1), lambda x: x.drop(f0)]
        if isinstance(et, T.ttuple) and len(et) > 0:
            opts += [lambda x: x[0]]
        return rng.choice(opts)

    def pred_for(et):
        opts = [lambda x: T.is_defined(x), lambda x: True]
        if et in (T.tint32, T.tint64, T.tfloat64, T.tfloat32):
            opts += [lambda x: x > 0, lambda x: x != 1]
        if et == T.tstr:
            opts += [lambda x: x == 'a']
        return rng.choice(opts)

    ops = [
        # arithmetic / coercions
        ('add', (num, num), lambda a, b: a + b), ('sub', (num, num), lambda a, b: a - b), ('mul', (num, num), lambda a, b: a * b),
        ('truediv', (num, num), lambda a, b: a / b), ('floordiv', (num, num), lambda a, b: a // b), ('mod', (num, num), lambda a, b: a % b),
        ('pow', (num, num), lambda a, b: a ** b), ('neg', (num,), lambda a: -a), ('add_py_int', (num,), lambda a: a + 3), ('radd_py_float', (num,), lambda a: 2.5 + a),
        ('mul_py_float', (num,), lambda a: a * 0.5), ('rsub_py_int', (num,), lambda a: 10 - a), ('arr_add', (numarr, numarr), lambda a, b: a + b),
        ('arr_mul_scalar', (numarr, num), lambda a, b: a * b), ('scalar_div_arr', (num, numarr), lambda a, b: a / b), ('arr_pow', (numarr,), lambda a: a ** 2),
        ('arr_floordiv', (numarr, num), lambda a, b: a // b), ('arr_neg', (numarr,), lambda a: -a),
        ('int32', (num,), lambda a: T.int32(a)), ('int64', (num,), lambda a: T.int64(a)), ('float64', (num,), lambda a: T.float64(a)), ('float32', (num,), lambda a: T.float32(a)),
        ('abs', (num,), lambda a: T.abs(a)), ('sign', (num,), lambda a: T.sign(a)), ('min2', (num, num), lambda a, b: T.min(a, b)), ('max2', (num, num), lambda a, b: T.max(a, b)),
        ('floor', (num,), lambda a: T.floor(a)), ('ceil', (num,), lambda a: T.ceil(a)), ('sqrt', (num,), lambda a: T.sqrt(a)), ('exp', (num,), lambda a: T.exp(a)),
        ('log', (num,), lambda a: T.log(a)), ('is_nan', (num,), lambda a: T.is_nan(a)), ('bit_and', (integral, integral), lambda a, b: T.bit_and(a, b)),
        ('bit_lshift', (integral, i32), lambda a, b: T.bit_lshift(a, b)), ('bit_count', (integral,), lambda a: T.bit_count(a)),
        # comparisons / logic
        ('lt', (num, num), lambda a, b: a < b), ('ge', (num, num), lambda a, b: a >= b), ('eq_num', (num, num), lambda a, b: a == b),
        ('eq_same', (anyv,), lambda a: a == a), ('ne_same', (anyv,), lambda a: a != a), ('and', (boolean, boolean), lambda a, b: a & b),
        ('or', (boolean, boolean), lambda a, b: a | b), ('not', (boolean,), lambda a: ~a), ('if_else', (boolean, anyv), lambda c, a: T.if_else(c, a, a)),
        ('if_else_coerce', (boolean, num, num), lambda c, a, b: T.if_else(c, a, b)), ('case', (boolean, anyv), lambda c, a: T.case().when(c, a).or_missing()),
        ('switch', (num, anyv), lambda a, b: T.switch(a).when(1, b).default(b)), ('or_else', (anyv,), lambda a: T.or_else(a, a)),
        ('coalesce_num', (num, num), lambda a, b: T.coalesce(a, b)), ('or_missing', (boolean, anyv), lambda c, a: T.or_missing(c, a)),
        ('is_missing', (anyv,), lambda a: T.is_missing(a)), ('is_defined', (anyv,), lambda a: T.is_defined(a)), ('missing_like', (anyv,), lambda a: T.missing(a.dtype)),
        ('bind', (anyv,), lambda a: T.bind(lambda x: lam_for(a.dtype)(x), a)), ('rbind2', (anyv, anyv), lambda a, b: T.rbind(a, b, lambda x, y: T.struct(l=x, r=y))),
        # collections
        ('len', (coll,), lambda a: T.len(a)), ('map', (coll,), lambda a: T.map(lam_for(a.dtype.element_type), a)), ('filter', (coll,), lambda a: T.filter(pred_for(a.dtype.element_type), a)),
        ('flatmap', (arr,), lambda a: a.flatmap(lambda x: [x, x])), ('flatten', (arrarr,), lambda a: T.flatten(a)), ('sorted', (arr,), lambda a: T.sorted(a)),
        ('sorted_key', (arr,), lambda a: T.sorted(a, key=lambda x: T.is_defined(x), reverse=True)), ('index0', (arr,), lambda a: a[0]), ('index_expr', (arr, i32), lambda a, i: a[i]),
        ('slice', (arr,), lambda a: a[1:3]), ('append', (arr,), lambda a: a.append(a[0])), ('extend', (arr,), lambda a: a.extend(a)), ('contains', (coll,), lambda a: a.contains(T.missing(a.dtype.element_type))),
        ('first', (arr,), lambda a: a.first()), ('last', (arr,), lambda a: a.last()), ('head', (arr,), lambda a: a.head()), ('zip', (arr, arr), lambda a, b: T.zip(a, b)),
        ('zip_fill', (arr, arr), lambda a, b: T.zip(a, b, fill_missing=True)), ('zip_with_index', (arr,), lambda a: T.zip_with_index(a)), ('enumerate', (arr,), lambda a: T.enumerate(a)),
        ('map2', (numarr, numarr), lambda a, b: T.map(lambda x, y: x + y, a, b)), ('any', (coll,), lambda a: T.any(pred_for(a.dtype.element_type), a)),
        ('all', (coll,), lambda a: T.all(pred_for(a.dtype.element_type), a)), ('find', (coll,), lambda a: T.find(pred_for(a.dtype.element_type), a)),
        ('fold', (numarr,), lambda a: T.fold(lambda acc, x: acc + x, 0, a)), ('fold_coerce', (numarr,), lambda a: T.fold(lambda acc, x: acc + x, 0.0, a)),
        ('array_scan', (numarr,), lambda a: T.array_scan(lambda acc, x: acc + x, 0, a)), ('sum', (numarr,), lambda a: T.sum(a)), ('mean', (numarr,), lambda a: T.mean(a)),
        ('min_arr', (numarr,), lambda a: T.min(a)), ('max_arr', (numarr,), lambda a: T.max(a)), ('median', (numarr,), lambda a: T.median(a)), ('product', (numarr,), lambda a: T.product(a)),
        ('argmin', (numarr,), lambda a: T.argmin(a)), ('cumsum', (numarr,), lambda a: T.cumulative_sum(a)), ('group_by', (coll,), lambda a: T.group_by(lambda x: T.is_defined(x), a)),
        ('array_of', (anyv,), lambda a: T.array([a, a])), ('array_mixed', (num, num), lambda a, b: T.array([a, b])), ('range', (i32,), lambda a: T.range(a)),
        ('empty_array', (anyv,), lambda a: T.empty_array(a.dtype)), ('array_agg_sum', (numarr,), lambda a: a.aggregate(lambda x: T.agg.sum(x))),
        ('array_agg_collect', (arr,), lambda a: a.aggregate(lambda x: T.agg.collect(x))), ('array_agg_counter', (arr,), lambda a: a.aggregate(lambda x: T.agg.counter(x))),
        ('array_agg_stats', (numarr,), lambda a: a.aggregate(lambda x: T.agg.stats(x))), ('array_agg_group', (arr,), lambda a: a.aggregate(lambda x: T.agg.group_by(T.is_defined(x), T.agg.count()))),
        ('array_agg_take', (arr,), lambda a: a.aggregate(lambda x: T.agg.take(x, 2))), ('array_agg_mean', (numarr,), lambda a: a.aggregate(lambda x: T.agg.mean(x))),
        ('array_agg_max', (numarr,), lambda a: a.aggregate(lambda x: T.agg.max(x))), ('array_agg_explode', (arrarr,), lambda a: a.aggregate(lambda x: T.agg.explode(lambda y: T.agg.collect(y), x))),
        ('array_agg_filter', (arr,), lambda a: a.aggregate(lambda x: T.agg.filter(T.is_defined(x), T.agg.count()))), ('array_agg_array_agg', (arrarr,), lambda a: a.aggregate(lambda x: T.agg.array_agg(lambda y: T.agg.count(), x))),
        ('array_agg_collect_set', (arr,), lambda a: a.aggregate(lambda x: T.agg.collect_as_set(x))), ('array_agg_fraction', (arr,), lambda a: a.aggregate(lambda x: T.agg.fraction(T.is_defined(x)))),
        # sets
        ('set', (arr,), lambda a: T.set(a)), ('set_of', (anyv,), lambda a: T.set([a])), ('set_union', (setlike,), lambda a: a.union(a)), ('set_inter', (setlike,), lambda a: a.intersection(a)),
        ('set_diff', (setlike,), lambda a: a.difference(a)), ('set_add', (setlike,), lambda a: a.add(T.missing(a.dtype.element_type))), ('set_subset', (setlike,), lambda a: a.is_subset(a)),
        ('set_to_array', (setlike,), lambda a: T.array(a)), ('set_or', (setlike,), lambda a: a | a), ('set_len', (setlike,), lambda a: a.length()), ('empty_set', (anyv,), lambda a: T.empty_set(a.dtype)),
        # dicts
        ('dict_from_zip', (arr, arr), lambda a, b: T.dict(T.zip(a, b))), ('dict_get', (dictlike,), lambda d: d.get(T.missing(d.dtype.key_type))), ('dict_index', (dictlike,), lambda d: d[T.missing(d.dtype.key_type)]),
        ('dict_get_default', (dictlike,), lambda d: d.get(T.missing(d.dtype.key_type), T.missing(d.dtype.value_type))), ('dict_keys', (dictlike,), lambda d: d.keys()), ('dict_values', (dictlike,), lambda d: d.values()),
        ('dict_items', (dictlike,), lambda d: d.items()), ('dict_key_set', (dictlike,), lambda d: d.key_set()), ('dict_contains', (dictlike,), lambda d: d.contains(T.missing(d.dtype.key_type))),
        ('dict_map_values', (dictlike,), lambda d: d.map_values(lam_for(d.dtype.value_type))), ('dict_size', (dictlike,), lambda d: d.size()), ('dict_to_array', (dictlike,), lambda d: T.array(d)),
        ('dict_literal_expr', (anyv,), lambda a: T.dict({'k': a})), ('empty_dict', (anyv,), lambda a: T.empty_dict(T.tstr, a.dtype)),
        # structs / tuples
        ('struct', (anyv, anyv), lambda a, b: T.struct(p=a, q=b)), ('struct_annotate', (struct, anyv), lambda s, a: s.annotate(new_f=a)), ('struct_overwrite', (nonempty_struct, anyv), lambda s, a: s.annotate(**{list(s.dtype)[0]: a})),
        ('struct_select', (nonempty_struct,), lambda s: s.select(list(s.dtype)[0])), ('struct_select_named', (nonempty_struct, anyv), lambda s, a: s.select(list(s.dtype)[-1], extra=a)),
        ('struct_drop', (nonempty_struct,), lambda s: s.drop(list(s.dtype)[0])), ('struct_field', (nonempty_struct,), lambda s: s[list(s.dtype)[rng.randrange(len(s.dtype))]]),
        ('struct_index_int', (nonempty_struct,), lambda s: s[0]), ('struct_values', (nonempty_struct,), lambda s: T.tuple(list(s.values()))), ('struct_rename', (nonempty_struct,), lambda s: s.rename({list(s.dtype)[0]: 'renamed'})),
        ('struct_flatten', (struct,), lambda s: s.flatten()), ('tuple', (anyv, anyv), lambda a, b: T.tuple([a, b])), ('tuple_index', (tup,), lambda t: t[0]), ('tuple_len', (tup,), lambda t: T.len(t) if False else t[len(t.dtype) - 1]),
        ('py_tuple_to_expr', (anyv, num), lambda a, b: T.literal(1) if False else T.expr.expressions.to_expr((a, b))), ('py_list_to_expr', (num, num), lambda a, b: T.expr.expressions.to_expr([a, b, 1])),
        ('py_dict_to_expr', (num, num), lambda a, b: T.expr.expressions.to_expr({'u': a, 'v': b})), ('py_struct_to_expr', (anyv,), lambda a: T.expr.expressions.to_expr(T.Struct(u=a, v=[a]))),
        # strings
        ('str', (anyv,), lambda a: T.str(a)), ('concat', (string, string), lambda a, b: a + b), ('str_len', (string,), lambda a: T.len(a)), ('str_slice', (string,), lambda a: a[1:]),
        ('str_index', (string,), lambda a: a[0]), ('split', (string,), lambda a: a.split(',')), ('upper', (string,), lambda a: a.upper()), ('contains_str', (string,), lambda a: a.contains('a')),
        ('delimit', (arr,), lambda a: T.delimit(T.map(lambda x: T.str(x), a), '|')), ('format', (anyv,), lambda a: T.format('%s', a)), ('json', (anyv,), lambda a: T.json(a)),
        ('parse_int', (string,), lambda a: T.parse_int32(a)), ('parse_float', (string,), lambda a: T.parse_float64(a)), ('str_eq', (string, string), lambda a, b: a == b),
        # genetics-flavoured
        ('locus', (), lambda: T.locus('1', 5)), ('locus_pos', (lambda e: isinstance(e.dtype, T.tlocus),), lambda l: l.position), ('locus_contig', (lambda e: isinstance(e.dtype, T.tlocus),), lambda l: l.contig),
        ('call', (), lambda: T.call(0, 1)), ('call_n_alt', (lambda e: e.dtype == T.tcall,), lambda c: c.n_alt_alleles()), ('call_index', (lambda e: e.dtype == T.tcall,), lambda c: c[0]),
        ('interval', (num,), lambda a: T.interval(a, a + 1)), ('interval_contains', (lambda e: isinstance(e.dtype, T.tinterval),), lambda i: i.contains(T.missing(i.dtype.point_type))),
        ('interval_start', (lambda e: isinstance(e.dtype, T.tinterval),), lambda i: i.start),
    ]
    return ops


# =================================================================================================
# schema models for Table / MatrixTable programs
# =================================================================================================
class TModel:
    def __init__(self, globals_, row, key):
        self.g = dict(globals_)
        self.row = dict(row)
        self.key = list(key)

    def copy(self):
        return TModel(self.g, self.row, self.key)


class MModel:
    def __init__(self, g, row, col, entry, row_key, col_key):
        self.g, self.row, self.col, self.entry = dict(g), dict(row), dict(col), dict(entry)
        self.row_key, self.col_key = list(row_key), list(col_key)


def _norm(hl, t):
    """a type up to the order of struct fields (recursively)"""
    if isinstance(t, hl.tstruct):
        return 'struct{' + ','.join(f'{k!r}:{_norm(hl, v)}' for k, v in sorted(t.items())) + '}'
    if isinstance(t, hl.tarray):
        return 'array<' + _norm(hl, t.element_type) + '>'
    if isinstance(t, hl.tset):
        return 'set<' + _norm(hl, t.element_type) + '>'
    if isinstance(t, hl.tdict):
        return 'dict<' + _norm(hl, t.key_type) + ',' + _norm(hl, t.value_type) + '>'
    if isinstance(t, hl.ttuple):
        return 'tuple(' + ','.join(_norm(hl, x) for x in t.types) + ')'
    if isinstance(t, hl.tinterval):
        return 'interval<' + _norm(hl, t.point_type) + '>'
    return str(t)


def _normd(hl, fields):
    return {k: _norm(hl, v) for k, v in fields.items()}


def _tk(hl, ty):
    return {hl.tint32: 'i32', hl.tint64: 'i64', hl.tfloat64: 'f64', hl.tbool: 'bool', hl.tstr: 'str', hl.tarray(hl.tint32): 'ai32',
            hl.tarray(hl.tfloat64): 'af64', hl.tarray(hl.tarray(hl.tint32)): 'aai32',
            hl.tstruct(a=hl.tint32, b=hl.tfloat64, c=hl.tarray(hl.tint32)): 'st', hl.ttuple(hl.tint32, hl.tfloat64): 'tu'}.get(ty)


class _Prefixed:
    """counters / seen-sets of the walks over the SENT (rewritten) IR are kept apart from those of the emitted IR, so that the floors
    of the emitted-IR contracts keep measuring what they measured"""

    def __init__(self, ctx, prefix):
        self._ctx, self._p = ctx, prefix

    def count(self, name, n=1):
        self._ctx.count(self._p + name, n)

    def seen(self, family, value):
        self._ctx.seen(self._p + family, value)


def _only_extra_fields(hl, declared, bound):
    """`bound` is `declared` plus extra fields (the common fields in the same order with the same types)"""
    if not (isinstance(declared, hl.tstruct) and isinstance(bound, hl.tstruct)):
        return False
    if len(bound) <= len(declared) or any(f not in bound for f in declared):
        return False
    return [(f, t) for f, t in bound.items() if f in declared] == list(declared.items())


def _without_uid_fields(hl, t):
    """`t` with every struct field named like a uid of the randomness rewrite (`__row_uid`, `__col_uid`, `__uid`, `__left_uid`, `__uid_7` ...)
    removed, recursively -- used only to CLASSIFY a disagreement (never to excuse one)"""
    if isinstance(t, hl.tstruct):
        return hl.tstruct(**{f: _without_uid_fields(hl, x) for f, x in t.items() if not (f.startswith('__') and 'uid' in f)})
    if isinstance(t, hl.tarray):
        return hl.tarray(_without_uid_fields(hl, t.element_type))
    if isinstance(t, hl.tset):
        return hl.tset(_without_uid_fields(hl, t.element_type))
    if isinstance(t, hl.tdict):
        return hl.tdict(_without_uid_fields(hl, t.key_type), _without_uid_fields(hl, t.value_type))
    if isinstance(t, hl.ttuple):
        return hl.ttuple(*[_without_uid_fields(hl, x) for x in t.types])
    return t


def randomized(rng, hl, e):
    """an expression of the SAME type as `e` that contains seeded randomness (value level; for arrays also inside stream bodies, which
    the front end elaborates with its stream-level `handle_randomness`)"""
    T = hl
    t = e.dtype
    coin = lambda: T.rand_bool(rng.choice([0.3, 0.5]))  # noqa: E731
    generic = [lambda: T.if_else(coin(), e, e), lambda: T.or_missing(coin(), e), lambda: T.if_else(coin(), e, T.missing(t)),
               lambda: T.bind(lambda c: T.if_else(c, e, e), coin())]
    if t == T.tbool:
        opts = [lambda: e & coin(), lambda: coin() | e, lambda: T.if_else(coin(), e, ~e), lambda: T.rand_bool(0.5, seed=rng.randint(0, 9))]
    elif t == T.tint32:
        opts = [lambda: e + T.rand_int32(5), lambda: T.if_else(coin(), e, T.rand_int32(1, 4)), lambda: e + T.rand_cat([0.2, 0.8]),
                lambda: e + T.sum(T.range(3).map(lambda i: i * T.rand_int32(4))), lambda: e * T.rand_hyper(10, 4, 3),
                lambda: e + T.fold(lambda a, x: a + x + T.rand_int32(2), 0, T.range(2)), lambda: e + T.len(T.filter(lambda x: coin(), T.range(4)))]
    elif t == T.tint64:
        opts = [lambda: e + T.rand_int64(5), lambda: T.if_else(coin(), e, T.rand_int64()), lambda: e + T.int64(T.rand_int32(3))]
    elif t == T.tfloat64:
        opts = [lambda: e * T.rand_unif(0.0, 1.0), lambda: e + T.rand_norm(0, 1), lambda: e + T.rand_pois(2.0), lambda: e * T.rand_beta(1.0, 2.0),
                lambda: e + T.rand_gamma(1.0, 2.0), lambda: e + T.rand_unif(0.0, 1.0, seed=rng.randint(0, 9)), lambda: e + T.sum(T.rand_dirichlet([1.0, 2.0])),
                lambda: e + T.rand_norm(0, 1, seed=rng.randint(0, 9))]
    elif t == T.tstr:
        opts = [lambda: e + T.str(T.rand_int32(9)), lambda: T.if_else(coin(), e, T.str(T.rand_unif(0.0, 1.0)))]
    elif isinstance(t, T.tarray):
        et_ = t.element_type
        opts = [lambda: e.map(lambda x: T.if_else(coin(), x, x)), lambda: T.filter(lambda x: coin(), e), lambda: T.shuffle(e),
                lambda: e.flatmap(lambda x: T.if_else(coin(), [x], [x, x])), lambda: T.sorted(e, key=lambda x: T.rand_unif(0.0, 1.0)),
                lambda: T.zip(e, e).map(lambda p: T.if_else(coin(), p[0], p[1])), lambda: e[: T.rand_int32(3)],
                lambda: T.zip_with_index(e).map(lambda p: T.if_else(coin(), p[1], p[1])), lambda: T.map(lambda x, y: T.if_else(coin(), x, y), e, e)]
        if et_ == T.tint32:
            opts += [lambda: e.map(lambda x: x + T.rand_int32(3)), lambda: T.array_scan(lambda a, x: a + x + T.rand_int32(2), 0, e),
                     lambda: T.range(T.rand_int32(1, 4)).map(lambda i: i + T.rand_int32(2)), lambda: e.extend(T.rand_multi_hyper([2, 3], 2)),
                     lambda: e.append(T.fold(lambda a, x: a + x * T.rand_int32(3), 0, e)), lambda: e.map(lambda x: T.sum(T.range(2).map(lambda i: i + x + T.rand_int32(2))))]
        elif et_ == T.tfloat64:
            opts += [lambda: e.map(lambda x: x * T.rand_unif(0.0, 1.0)), lambda: e.append(T.rand_unif(0.0, 1.0)), lambda: e.extend(T.rand_dirichlet([1.0, 2.0])),
                     lambda: e.extend(T.rand_norm2d([0.0, 1.0], [1.0, 0.0, 0.0, 1.0]))]
        elif isinstance(et_, T.tarray):
            opts += [lambda: e.map(lambda x: T.filter(lambda y: coin(), x)), lambda: e.map(lambda x: T.shuffle(x))]
    elif isinstance(t, T.tstruct) and len(t) > 0:
        f0 = list(t)[0]
        opts = [lambda: e.annotate(**{f0: T.if_else(coin(), e[f0], e[f0])}), lambda: T.if_else(coin(), e, e)]
    else:
        opts = []
    return rng.choice(opts + generic[: 2 if opts else 4])()


def random_aggs(rng, hl, ae, scan=False):
    """aggregations (or scans) over the numeric expression `ae` that contain seeded randomness, by name"""
    A = hl.scan if scan else hl.agg
    coin = lambda: hl.rand_bool(0.5)  # noqa: E731
    out = {
        'rf': lambda: A.filter(coin(), A.count()), 'rs': lambda: A.sum(ae * hl.rand_int32(1, 3)), 'rc': lambda: A.collect(ae + hl.rand_int32(2)),
        'rg': lambda: A.group_by(coin(), A.count()), 'rm': lambda: A.max(hl.rand_unif(0.0, 1.0)), 'rw': lambda: A.count_where(coin()),
        'rx': lambda: A.explode(lambda v: A.sum(v + hl.rand_int32(2)), hl.range(2)), 'ra': lambda: A.array_agg(lambda v: A.sum(v + hl.rand_int32(2)), hl.range(2)),
        'rt': lambda: A.take(hl.rand_int32(5), 2), 'rv': lambda: A.count() + hl.rand_int32(3),   # value-level randomness around an aggregation
    }
    return out


def run(ctx):
    import linecache
    import sys
    import traceback

    import hail as hl
    import hail.ir as ir
    from hail.expr.expressions import ExpressionException

    from vf.gen_hail_ir import ExprGen, Scope
    from vf.hail_fake_backend import BackendUnavailable, install
    from vf.hail_relational_rules import EngineTyper, RefM, RefT

    backend = install()
    # `MatrixRead._compute_type` ASKS THE ENGINE for its type when uids are kept (`Env.backend().matrix_type(self)`), which every
    # rewrite of a range_matrix_table pipeline that needs row / col uids does.  The engine's answer for the range reader is fixed
    # (MatrixIR.scala MatrixReader.fullMatrixType + Parser.scala "MatrixRead" DropRowUIDs / DropColUIDs) and given here; any other
    # reader still raises BackendUnavailable.
    engine_matrix_type = backend.matrix_type

    def matrix_type(mir):
        if isinstance(mir, ir.MatrixRead) and type(mir.reader).__name__ == 'MatrixRangeReader':
            ctx.count('engine_answers_matrix_range_type')
            row, col = {'row_idx': hl.tint32}, {'col_idx': hl.tint32}
            if not mir.drop_row_uids:
                row['__row_uid'] = hl.tint64
            if not mir.drop_col_uids:
                col['__col_uid'] = hl.tint64
            return hl.tmatrix(hl.tstruct(), hl.tstruct(**col), ['col_idx'], hl.tstruct(**row), ['row_idx'], hl.tstruct())
        return engine_matrix_type(mir)

    backend.matrix_type = matrix_type
    sys.setrecursionlimit(20000)
    linecache.checkcache = lambda filename=None: None  # see c35.py: only affects stack-trace text freshness

    hook = Hook(ctx)
    hook.install()
    et = EngineTyper(hl, ir, ctx.count, ctx.seen)
    REJECT = (TypeError, ExpressionException, ValueError, NotImplementedError, LookupError, AttributeError, hl.utils.java.HailUserError,
              hl.utils.java.FatalError)  # (LookupError: KeyError, IndexError, 'no field ...'; FatalError: 'TableMapPartitions does not support randomness ... in consumers')

    # ---- shared plumbing -----------------------------------------------------------------------
    def triage_assert(err, what):
        """an AssertionError escaped from a front-end call: a type-agreement assertion => violation (M3)"""
        tb = err.__traceback__
        frames = []
        while tb is not None:
            frames.append(tb)
            tb = tb.tb_next
        ex = traceback.extract_tb(err.__traceback__)
        for fr, fs in zip(reversed(frames), reversed(ex)):
            if fs.name in ('assign_type', 'compute_type', '_compute_type') and fs.filename.endswith(('base_ir.py', 'ir.py', 'table_ir.py', 'matrix_ir.py')):
                node = fr.tb_frame.f_locals.get('self')
                cls = type(node).__name__
                line = (fs.line or '').strip()
                return (f'internal-type-assertion/{fs.name}/{cls}', f'{what}: {line} failed on {cls}: {str(err)[:300]}')
        ctx.count('rejected_by_plain_assert')
        ctx.seen('plain_assert_sites', (ex[-1].name + ': ' + (ex[-1].line or '').strip())[:90])
        return None

    def guarded(what, f):
        """run one front-end call; returns (ok, value)"""
        try:
            return True, f()
        except BackendUnavailable:
            ctx.count('needs_engine')
            ctx.seen('needs_engine_ops', what)
            return False, None
        except AssertionError as err:
            v = triage_assert(err, what)
            if v is not None:
                hook.pending.append((v[0], v[1], {'op': what}))
            return False, None
        except REJECT as err:
            ctx.count('frontend_rejected')
            ctx.seen('frontend_rejections', what.split('(')[0] + ': ' + type(err).__name__)
            return False, None
        except RecursionError:
            ctx.count('recursion')
            return False, None

    def engine_check(root, wrapper, what):
        """M6: the emitted relational IR under `root` (and the wrapper's own claim) against the transcribed engine rules"""
        try:
            if et.is_relational(root):
                ref = et.rtype(root)
            else:
                ref = None
                et.visit(root)
        except RecursionError:
            ctx.count('walk_recursion')
            return
        for cls, parts, msg, node in et.take_findings():
            try:
                shown = str(node)[:1200]
            except Exception as err:  # rendering is not what is judged here
                shown = f'<{type(node).__name__}: not renderable: {type(err).__name__}>'
            if parts == ['rejected']:
                key = f'relational/{cls}-engine-rule-rejects-accepted-node'
            else:
                key = f'relational/{cls}-type-differs-from-engine-rule'
            hook.pending.append((key, f'after {what}: {msg}', {'node': shown, 'differing': parts}))
        if wrapper is not None and ref is not None and et.was_judged(root):
            cls = type(root).__name__
            ctx.count('contract_relational_wrapper')
            parts = et.diff(ref, wrapper)
            if parts:
                msg = '; '.join(f'{p}: engine rule gives {str(getattr(ref, p))[:400]}, the wrapper reports {str(getattr(wrapper, p))[:400]}' for p in parts)
                hook.pending.append((f'relational/{cls}-type-differs-from-engine-rule',
                                     f'after {what}: the {"Table" if isinstance(wrapper, RefT) else "MatrixTable"} wrapper differs from the engine rule of its {cls} in {"/".join(parts)} -- {msg}',
                                     {'differing': parts, 'wrapper': True}))

    def finish_program(root, relational, label, rewritten=False):
        """M2 on a finished program.  rewritten=True: `root` is an ACTION node over a pipeline with seeded randomness, i.e. its relational
        children are already the rebuilt ones (TableAggregate with a random query asks its child for row uids and its query sees them):
        references are judged as in the sent-IR walk, and the repository's deep typecheck -- which insists that every `Ref` carries the
        binder's exact type -- is only counted"""
        engine_check(root, None, label)
        w = Walker(ctx, hl, sent=rewritten)
        try:
            w.walk(root)
        except RecursionError:
            ctx.count('walk_recursion')
        for key, what, node in w.problems[:5]:
            hook.pending.append((key, what, {'program': label, 'node': str(node)[:1200]}))
        v = deep_typecheck(ctx, root, relational)
        if v is not None and rewritten and 'assert self._typ == env[self.name]' in v[1]:
            ctx.count('deep_typecheck_facility_limit')
            ctx.seen('deep_typecheck_facility_limits', 'Ref typed before the randomness rewrite added uid fields to its binder')
            v = None
        if v is not None:
            hook.pending.append((v[0], v[1], {'program': label}))

    # ---- M7: the IR that is actually SENT at an action ---------------------------------------------------
    # Every action (TableCollect / TableCount / TableWrite / TableGetGlobals: `child.handle_randomness(None)`; TableAggregate with a
    # random query: `child.handle_randomness(default_row_uid)`; MatrixCount / MatrixWrite: `(None, None)`; MatrixAggregate with a random
    # query: `(default_row_uid, default_col_uid)`; MatrixRowsTable / MatrixColsTable / CastMatrixToTable under a table action: one uid)
    # sends the pipeline as REBUILT node by node by the `_handle_randomness` methods, not the tree the wrapper shows.  The type implied by
    # the rebuilt tree (transcribed engine rules, bottom-up, on the rebuilt nodes) must be the type the front end reports for the table /
    # matrix table -- exactly, field order included, up to the uid fields that were asked for --, every rebuilt relational node must agree
    # with its engine rule, every reference inside must be typed as its (rebuilt) binder provides, and the result type of the action node
    # (what the backend decodes with) must be the reported one.
    from hail.ir.utils import default_col_uid, default_row_uid
    from hail.utils.java import FatalError

    from vf.hail_relational_rules import canon

    sctx = _Prefixed(ctx, 'sent_')
    et_sent = EngineTyper(hl, ir, sctx.count, sctx.seen)

    def node_kinds(root):
        """relational node kinds of a pipeline, with the value of every OPTIONAL / type-relevant constructor argument"""
        out, stack, seen_ids = set(), [root], set()
        while stack:
            x = stack.pop()
            if id(x) in seen_ids:
                continue
            seen_ids.add(id(x))
            if isinstance(x, (ir.TableIR, ir.MatrixIR)):
                cls = type(x).__name__
                extra = ''
                if cls in ('TableIntervalJoin', 'MatrixAnnotateRowsTable'):
                    extra = f'(product={x.product})'
                elif cls in ('TableKeyBy', 'MatrixKeyRowsBy'):
                    extra = f'(is_sorted={x.is_sorted},empty={not x.keys})'
                elif cls == 'MatrixMapCols':
                    extra = '(new_key=None)' if x.new_key is None else f'(new_key,empty={not x.new_key})'
                elif cls == 'TableJoin':
                    extra = f'({x.join_type},partial_key={x.join_key < len(x.right.typ.row_key)})'
                elif cls == 'MatrixUnionCols':
                    extra = f'({x.join_type})'
                elif cls in ('TableFilterIntervals', 'MatrixFilterIntervals'):
                    extra = f'(keep={x.keep})'
                elif cls in ('TableRepartition', 'MatrixRepartition'):
                    extra = f'(strategy={x.strategy})'
                elif cls in ('TableExplode', 'MatrixExplodeRows', 'MatrixExplodeCols'):
                    extra = f'(path_len={len(x.path)})'
                elif cls in ('TableToTableApply', 'MatrixToMatrixApply'):
                    extra = f'({x.config.get("name")})'
                out.add(cls + extra)
            for ch in x.children:
                if isinstance(ch, ir.BaseIR):
                    stack.append(ch)
        return out

    def origin_of(root):
        """a rebuilt pipeline that contains one of the three rewrites KNOWN (by reading and by witness, see the validation record) to
        break the type.  Used narrowly: only when the type implied by the rebuilt tree differs from the reported one in exactly the way that
        rewrite explains (a uid-named field too many / the aggregations gone) are the symptoms of THAT tree attributed to the originating
        mechanism (DESIGN 3.4); any other disagreement in the same pipeline keeps its own key"""
        stack, seen_ids = [root], set()
        is_uid = lambda f: f.startswith('__') and 'uid' in f  # noqa: E731
        while stack:
            x = stack.pop()
            if id(x) in seen_ids:
                continue
            seen_ids.add(id(x))
            cls = type(x).__name__
            try:
                if cls == 'TableMultiWayZipJoin':
                    c0 = x.children[0].typ
                    if any(is_uid(f) for f in c0.row_type if f not in c0.row_key):
                        return 'sent-ir/uid-field-leaks-into-reported-type/TableMultiWayZipJoin'
                elif cls == 'MatrixEntriesTable' and any(is_uid(f) for f in x.child.typ.col_type):
                    return 'sent-ir/uid-field-leaks-into-reported-type/MatrixEntriesTable'
                elif cls == 'TableKeyByAndAggregate' and x.new_key.uses_randomness:
                    return 'sent-ir/TableKeyByAndAggregate-random-key-rewrite-replaces-aggregations'
            except Exception:
                pass
            for ch in x.children:
                if isinstance(ch, ir.BaseIR):
                    stack.append(ch)
        return None

    def attribute(origin, start):
        if origin is not None:
            for j in range(start, len(hook.pending)):
                k, w, wit = hook.pending[j]
                hook.pending[j] = (origin, f'{w} [symptom: {k}]', wit)

    def leak_key(got, want, generic):
        """a disagreement that disappears once every uid-named field is removed (recursively) is a uid field LEAKED by the rewrite"""
        try:
            leak = canon(hl, _without_uid_fields(hl, got)) == canon(hl, _without_uid_fields(hl, want))
        except Exception:
            leak = False
        if not leak:
            return generic
        ctx.count('sent_uid_field_leaks')
        leaky.append(True)
        return 'sent-ir/uid-field-leaks-into-reported-type'

    leaky = []   # set by leak_key: the disagreement just judged is leak-shaped

    def sent_judge(sent, reported, added, what, variant, random_pipeline, walk=True):
        """`sent`: the relational IR as rebuilt for an action; `reported`: the RefT / RefM the front end reports for the same table;
        `added`: {part: uid field names the action asked for}"""
        kind = 'table' if isinstance(reported, RefT) else 'matrix'
        start = len(hook.pending)
        del leaky[:]
        try:
            ref = et_sent.rtype(sent)
        except RecursionError:
            ctx.count('walk_recursion')
            return
        for cls, parts, msg, node in et_sent.take_findings():
            try:
                shown = str(node)[:1200]
            except Exception as err:
                shown = f'<{type(node).__name__}: not renderable: {type(err).__name__}>'
            key = f'sent-ir/relational/{cls}-engine-rule-rejects-rebuilt-node' if parts == ['rejected'] else f'sent-ir/relational/{cls}-type-differs-from-engine-rule'
            hook.pending.append((key, f'after {what}, IR rebuilt for an action ({variant}): {msg}', {'node': shown, 'differing': parts, 'variant': variant}))
        if ref is None:
            ctx.count('sent_root_type_unavailable')
        else:
            ctx.count('contract_sent_root_type')
            ctx.count(f'contract_sent_root_type:{kind}:{variant}')
            if random_pipeline:
                ctx.count('contract_sent_root_type_random_pipeline')
                ctx.count(f'contract_sent_root_type_random_pipeline:{kind}:{variant}')
            bad = []
            keys = set()
            for part in ref._fields:
                a, b = getattr(ref, part), getattr(reported, part)
                if part in ('key', 'row_key', 'col_key'):
                    if list(a) != list(b):
                        bad.append(f'{part}: the rebuilt IR implies {list(a)}, reported {list(b)}')
                        keys.add(f'sent-ir/{kind}-type-differs-from-reported-type')
                else:
                    # an action that asked for uids addresses the fields BY NAME (aggregation queries); the rewrite may leave further
                    # uid fields of its own in place there (MatrixEntriesTable keeps `__col_uid` next to the requested row uid):
                    # the reported fields must be there, in the reported order, with the reported types.  Without uids: exactly.
                    want = added.get(part, ())
                    extra = [f for f in a if f not in b] if any(added.values()) else []
                    for f in extra:
                        if f not in want:
                            ctx.seen('sent_unrequested_extra_fields_in_uid_variants', f'{kind}.{part}: ' + f.rstrip('0123456789'))
                    missing = [u for u in want if u not in a]
                    stripped = hl.tstruct(**{f: ty for f, ty in a.items() if f not in extra})
                    if missing:
                        bad.append(f'{part}: the requested uid field {missing} is not in {str(a)[:300]}')
                        keys.add(f'sent-ir/{kind}-type-differs-from-reported-type')
                    if canon(hl, stripped) != canon(hl, b):
                        bad.append(f'{part}: the rebuilt IR implies {str(stripped)[:500]}, reported {str(b)[:500]}')
                        keys.add(leak_key(stripped, b, f'sent-ir/{kind}-type-differs-from-reported-type'))
            if bad:
                try:
                    shown = str(sent)[:2500]
                except Exception as err:
                    shown = f'<not renderable: {type(err).__name__}>'
                generic = f'sent-ir/{kind}-type-differs-from-reported-type'
                hook.pending.append((generic if generic in keys or len(keys) != 1 else next(iter(keys)),
                                     f'after {what}: the IR rebuilt for an action ({variant}) implies another type than the front end reports -- ' + '; '.join(bad),
                                     {'variant': variant, 'sent_ir': shown}))
        if walk:
            # (the reference walk is the expensive part and a pipeline contains its prefixes: done on finished programs only)
            ctx.count('contract_sent_reference_walk')
            w = Walker(sctx, hl, sent=True)
            try:
                w.walk(sent)
            except RecursionError:
                ctx.count('walk_recursion')
            for key, msg, node in w.problems[:5]:
                hook.pending.append(('sent-ir/' + key, f'after {what}, IR rebuilt for an action ({variant}): {msg}', {'variant': variant, 'node': str(node)[:1200]}))
        origin = origin_of(sent)
        if origin is not None and (leaky or (origin.startswith('sent-ir/TableKeyByAndAggregate') and len(hook.pending) > start)):
            attribute(origin, start)

    def rebuilt(label, f):
        """run one `handle_randomness` entry point; a refusal (FatalError: 'does not support randomness in consumers') or a crash of the
        rewrite is not a type disagreement: counted, not judged"""
        try:
            return f()
        except BackendUnavailable:
            ctx.count('sent_rewrite_needs_engine')
            ctx.seen('sent_rewrite_needs_engine_at', label)
        except FatalError:
            ctx.count('sent_rewrite_refused')
        except AssertionError as err:
            ex = traceback.extract_tb(err.__traceback__)
            ctx.count('sent_rewrite_assertion')
            ctx.seen('sent_rewrite_assertions', (ex[-1].name + ': ' + (ex[-1].line or '').strip())[:110])
        except REJECT as err:
            ex = traceback.extract_tb(err.__traceback__)
            ctx.count('sent_rewrite_raised')
            ctx.seen('sent_rewrite_raises', f'{label}: {type(err).__name__} at {ex[-1].name}: {(ex[-1].line or "").strip()}'[:130])
        except RecursionError:
            ctx.count('recursion')
        return None

    def count_repaired_patterns(original, sent):
        """the three rewrite situations that were found broken on the tree before the `fix:` commits (validation record, G1-G3), counted
        where the comparison is EXACT (the rebuild without uids): a run in which they never arise must not claim them"""
        stack, seen_ids = [(sent, None, None)], set()
        is_uid = lambda f: f.startswith('__') and 'uid' in f  # noqa: E731
        while stack:
            x, parent, grandparent = stack.pop()
            if id(x) in seen_ids:
                continue
            seen_ids.add(id(x))
            cls = type(x).__name__
            try:
                if cls == 'MatrixEntriesTable' and type(parent).__name__ == 'TableRename' and '__entry_uid' in parent.row_map:
                    ctx.count('entries_tables_under_a_uid_requesting_consumer')     # G2: a consumer above asked the entries table for a row uid
                    if type(grandparent).__name__ == 'TableFilter':
                        # ... and hands the rows on as they are (a TableMapRows consumer re-selects the fields it knows by name,
                        # which hid the left-over `__col_uid`; filter / sample do not)
                        ctx.count('entries_tables_under_a_random_filter')
                elif cls == 'TableMultiWayZipJoin':
                    c0 = x.children[0].typ
                    if any(is_uid(f) for f in c0.row_type if f not in c0.row_key):
                        ctx.count('multi_way_zip_joins_under_a_uid_requesting_consumer')    # G1: the children carry the uid as a value field
            except Exception:
                pass
            for ch in x.children:
                if isinstance(ch, ir.BaseIR):
                    stack.append((ch, x, parent))
        stack, seen_ids = [original], set()
        while stack:
            x = stack.pop()
            if id(x) in seen_ids:
                continue
            seen_ids.add(id(x))
            if type(x).__name__ == 'TableKeyByAndAggregate' and x.new_key.uses_randomness:
                ctx.count('random_group_keys_rebuilt')                                   # G3: seeded randomness in the key of a keyed aggregation
            for ch in x.children:
                if isinstance(ch, ir.BaseIR):
                    stack.append(ch)

    def sent_check_table(t, what, final=True):
        tir = t._tir
        rep = RefT(t.row.dtype, list(t.key), t.globals.dtype)
        rnd = tir.uses_randomness
        if rnd:
            ctx.count('sent_random_pipelines')
            for k in node_kinds(tir):
                ctx.seen('sent_random_pipeline_node_kinds', k)
                ctx.count('sent_random_pipeline_node:' + k)
        # (a) collect / count / write / globals
        coll = rebuilt('TableCollect', lambda: ir.TableCollect(tir))
        if coll is not None:
            if coll.child is tir:
                ctx.count('sent_identical_to_emitted')       # no randomness: nothing rebuilt, M6 has judged this tree already
            else:
                sent_judge(coll.child, rep, {}, what, 'no-uid', rnd, final)
                count_repaired_patterns(tir, coll.child)
                ctx.count('contract_sent_action_result_type')
                got = rebuilt('TableCollect.typ', lambda: coll.typ)
                want = hl.tstruct(rows=hl.tarray(t.row.dtype), **{'global': t.globals.dtype})
                if got is not None and canon(hl, got) != canon(hl, want):
                    start = len(hook.pending)
                    del leaky[:]
                    hook.pending.append((leak_key(got, want, 'sent-ir/action-result-type-differs-from-reported-type'),
                                         f'after {what}: TableCollect of the rebuilt IR is typed {str(got)[:500]}, the table reports {str(want)[:500]}', {'variant': 'no-uid'}))
                    origin = origin_of(coll.child)
                    if origin is not None and (leaky or origin.startswith('sent-ir/TableKeyByAndAggregate')):
                        attribute(origin, start)
        # (b) aggregate with a random query (row uids requested from the whole pipeline)
        sent = rebuilt('handle_randomness(row uid)', lambda: tir.handle_randomness(default_row_uid))
        if sent is not None:
            sent_judge(sent, rep, {'row': (default_row_uid,)}, what, 'row-uid', rnd, final)

    def sent_check_matrix(mt, what, final=True):
        mir = mt._mir
        rep = RefM(mt.globals.dtype, list(mt.col_key), mt.col.dtype, list(mt.row_key), mt.row.dtype, mt.entry.dtype)
        rnd = mir.uses_randomness
        if rnd:
            ctx.count('sent_random_pipelines')
            for k in node_kinds(mir):
                ctx.seen('sent_random_pipeline_node_kinds', k)
                ctx.count('sent_random_pipeline_node:' + k)
        variants = (('no-uid', None, None), ('row+col-uid', default_row_uid, default_col_uid), ('row-uid', default_row_uid, None), ('col-uid', None, default_col_uid))
        for variant, ru, cu in variants if final else variants[:2]:
            sent = rebuilt(f'handle_randomness({variant})', lambda: mir.handle_randomness(ru, cu))
            if sent is None:
                continue
            if sent is mir:
                ctx.count('sent_identical_to_emitted')
                continue
            sent_judge(sent, rep, {'row': (ru,) if ru else (), 'col': (cu,) if cu else ()}, what, variant, rnd, final)

    def flush(sample, key, info):
        n = hook.derivational
        hook.derivational = 0
        for k, what, wit in hook.pending:
            w = dict(wit)
            w.update(info)
            ctx.violation(k, what, w)
        hook.pending = []
        ctx.case(sample=sample, key=key, nontrivial=n > 0)

    # ---- phase literal --------------------------------------------------------------------------
    import base64

    def roundtrip(x, t, v, what):
        """the accepted literal must be renderable (its value encodable under its type) and decode back to the value"""
        ctx.count('contract_literal_roundtrip')
        try:
            enc = x.encoded_value            # what CSERenderer / head_str would do when the IR is sent
        except Exception as err:
            hook.pending.append(('literal/accepted-literal-cannot-be-encoded', f'{what} was accepted but rendering it raises {type(err).__name__}: {str(err)[:100]}', {}))
            return
        try:
            back = t._from_encoding(base64.b64decode(enc))
        except Exception as err:
            hook.pending.append(('literal/encoding-cannot-be-decoded', f'{what}: decoding its own encoding raises {type(err).__name__}: {str(err)[:100]}', {}))
            return
        if not _same(_plain(back), _plain(v)):
            hook.pending.append(('literal/encoding-does-not-decode-to-value', f'{what} decodes to {back!r:.200}', {}))

    N = ctx.pick(600, 6000)
    for i, rng in ctx.cases(N, 'literal'):
        t = gen_type(rng, hl)
        try:
            v = gen_value(rng, hl, t, True, 0 if rng.random() < 0.9 else 1)
        except TypeError:
            ctx.count('value_gen_skipped')
            continue
        info = {'type': str(t), 'value': repr(v)[:300]}
        # (a) explicit type
        ok, e = guarded('literal(v, t)', lambda: hl.literal(v, t))
        if ok:
            ctx.count('contract_literal_typecheck')
            if e.dtype != t:
                hook.pending.append(('literal/explicit-type-not-kept', f'hl.literal(v, {t}).dtype == {e.dtype}', {}))
            try:
                typecheck_value(e.dtype, v)
            except TypeError as err:
                hook.pending.append(('literal/value-does-not-satisfy-declared-type', f'hl.literal(v, {t}) accepted but {t}.typecheck(v) fails: {str(err)[:150]}', {}))
            x = e._ir
            if isinstance(x, ir.EncodedLiteral) and v is not None:
                roundtrip(x, t, v, f'hl.literal(v, {t})')
        # (b) imputed type
        if v is not None:
            ok, e2 = guarded('literal(v)', lambda: hl.literal(v))
            if ok:
                ctx.count('contract_literal_typecheck')
                ctx.count('literal_imputed')
                try:
                    typecheck_value(e2.dtype, v)
                except TypeError as err:
                    hook.pending.append(('literal/value-does-not-satisfy-imputed-type', f'hl.literal(v) has dtype {e2.dtype} but typecheck(v) fails: {str(err)[:150]}', {}))
                x2 = e2._ir
                if isinstance(x2, ir.EncodedLiteral):
                    roundtrip(x2, e2.dtype, v, f'hl.literal(v) with imputed type {e2.dtype}')
                elif isinstance(x2, (ir.F64, ir.F32, ir.I32, ir.I64, ir.Str)) and not isinstance(v, bool):
                    ctx.count('contract_literal_roundtrip')
                    want_cls = {float: ir.F64, int: (ir.I32, ir.I64), str: ir.Str}.get(type(v))
                    if want_cls is not None and (not isinstance(x2, want_cls) or not _same(x2.x, v)):
                        hook.pending.append(('literal/primitive-literal-node-does-not-carry-value', f'hl.literal({v!r}) is rendered as {x2}', {}))
                # the imputed type must be the declared one up to the documented ambiguities (int width, empty containers)
                ctx.seen('imputed_vs_generated', 'same' if e2.dtype == t else 'differs')
        flush({'literal': info}, ('literal', str(t), repr(v)[:80]), info)

    # ---- phase literal-corners: a fixed catalogue of corner values (every shard-0 run) ---------------
    if ctx.shard == 0:
        import numpy as np
        from hail.utils import Interval, Struct

        corners = [
            [1, 2**31], [1, 2.5], [True, 2], [1, None, 3], [[1], [], [2.5]], [None, [None]], (1, 'a', None), ((), ((),)), {'a': 1, 'b': 2}, {'a': 1, 'b': 'x'},
            {'a': Struct()}, {'a': ()}, [{'k': Struct()}, {'j': Struct()}], [{'k': ()}, {'j': ()}], {1: {'x': Struct()}, 2: {'y': Struct()}}, {Struct()}, {()},
            Struct(a=1, b=Struct(c=[1.5, None])), [Struct(a=1), Struct(a=None)], {1: [1], 2: []}, {'s': {1, 2}}, {(1, 'a'): 2.5}, frozenset([1, 2]), 2**63 - 1, -(2**63), 1e308, float('nan'),
            np.int32(5), np.int64(2**40), np.float64(1.5), np.float32(0.1), np.array([1, 2, 3]), np.array([[1.5, 2.5]]), Interval(1, 5), Interval(1.5, 2.5, True, True),
            [Interval(1, 2), None], '', 'é\n', [[[]], [[1]]], {'': 1}, Struct(**{'x y': 1, 'é': [None]}),
        ]
        for j, v in enumerate(corners):
            if ctx.replay is not None and (ctx.replay.get('phase') != 'literal-corners' or ctx.replay.get('case_index') != j):
                continue
            ctx.case_index = ('literal-corners', j)
            ok, e2 = guarded('literal(corner)', lambda: hl.literal(v))
            if ok:
                ctx.count('contract_literal_typecheck')
                ctx.count('literal_corners_accepted')
                if not isinstance(v, (np.ndarray, np.generic)):
                    try:
                        typecheck_value(e2.dtype, v)
                    except TypeError as err:
                        hook.pending.append(('literal/value-does-not-satisfy-imputed-type', f'hl.literal({v!r:.80}) has dtype {e2.dtype} but typecheck fails: {str(err)[:150]}', {}))
                    if isinstance(e2._ir, ir.EncodedLiteral):
                        roundtrip(e2._ir, e2.dtype, v, f'hl.literal({v!r:.80}) with imputed type {e2.dtype}')
            flush({'corner': repr(v)[:200]}, ('literal-corner', j), {'value': repr(v)[:300]})
        ctx.case_index = None

    # ---- phase expr -----------------------------------------------------------------------------
    N = ctx.pick(300, 3000)
    for i, rng in ctx.cases(N, 'expr'):
        g = ExprGen(rng, hl, max_depth=rng.choice([3, 4, 5, 6]), p_share=rng.choice([0.2, 0.35]))
        ok, e = guarded('exprgen', g.program)
        if ok:
            finish_program(e._ir, False, 'expr')
            flush({'type': str(e.dtype)}, ('expr', str(e.dtype), len(str(e._ir))), {'program_ir': str(e._ir)[:3000]})
        else:
            flush(None, ('expr-rejected', i), {})

    # ---- phase api ------------------------------------------------------------------------------
    N = ctx.pick(200, 2000)
    for i, rng in ctx.cases(N, 'api'):
        ops = api_catalogue(hl, rng)
        pool = []
        for _ in range(rng.randint(5, 9)):
            t = gen_type(rng, hl, depth=1)
            try:
                v = gen_value(rng, hl, t, True, 1)
            except TypeError:
                continue
            ok, e = guarded('seed literal', lambda: hl.literal(v, t))
            if ok:
                pool.append(e)
        pool += [hl.int32(3), hl.float64(1.5), hl.int64(7), hl.bool(True), hl.str('a'), hl.array([1, 2, 3]), hl.array([1.5, 2.5])]
        trace = []
        for _ in range(rng.randint(10, 28)):
            name, preds, f = rng.choice(ops)
            args = []
            for p in preds:
                c = [e for e in pool if p(e)]
                if not c:
                    break
                args.append(rng.choice(c))
            if len(args) != len(preds):
                continue
            ok, r = guarded(name, lambda: f(*args))
            if ok and r is not None:
                ok2, r = guarded(name + ':to_expr', lambda: hl.expr.expressions.to_expr(r))
                if ok2:
                    ctx.seen('api_ops_accepted', name)
                    trace.append(name)
                    pool.append(r)
        for e in pool[-3:]:
            finish_program(e._ir, False, 'api')
        flush({'ops': trace}, ('api', tuple(trace), str(pool[-1].dtype)), {'ops': trace, 'last_ir': str(pool[-1]._ir)[:2500]})

    # ---- phase table ----------------------------------------------------------------------------
    def row_scope(t, globals_only=False, allow_agg=True, names=('row', 'global')):
        vs = []
        if not globals_only:
            for f, ty in t.row.dtype.items():
                k = _tk(hl, ty)
                if k:
                    vs.append((k, t[f], frozenset(['row'])))
        for f, ty in t.globals.dtype.items():
            k = _tk(hl, ty)
            if k:
                vs.append((k, t[f], frozenset(['global'])))
        nm = frozenset(['global']) if globals_only else frozenset(names)
        return Scope(nm, tuple(vs), 'eval', None, 0, allow_agg)

    def check_table(t, m, what, final=False):
        """M4 for a Table"""
        typ = t._tir.typ
        cmpz = [
            ('row', t.row.dtype, typ.row_type), ('globals', t.globals.dtype, typ.global_type), ('key', t.key.dtype, typ.key_type),
            ('key-names', list(t.key), list(typ.row_key)),
        ]
        for f in typ.row_type:
            cmpz.append((f'field', t[f].dtype, typ.row_type[f]))
        for lab, a, b in cmpz:
            ctx.count('contract_table_wrapper')
            if a != b:
                hook.pending.append((f'table/wrapper-{lab}-type-differs-from-ir', f'after {what}: Table reports {lab} {a}, the TableIR type says {b}', {}))
        if list(t.row.dtype)[:len(t.key)] != list(t.key):
            ctx.count('table_states_with_key_not_leading')         # layouts in which field ORDER rules can show
        engine_check(t._tir, RefT(t.row.dtype, list(t.key), t.globals.dtype), what)
        sent_check_table(t, what, final)
        if m is not None:
            # field ORDER inside row / globals is not part of what the methods promise (joins, drops ... move key fields first)
            for lab, a, b in (('row', _normd(hl, t.row.dtype), _normd(hl, m.row)), ('globals', _normd(hl, t.globals.dtype), _normd(hl, m.g)), ('key', list(t.key), list(m.key))):
                ctx.count('contract_table_model')
                if a != b:
                    hook.pending.append((f'table/{what.split("(")[0]}-{lab}-schema-differs-from-meaning', f'after {what}: {lab} is {a}, the method means {b}', {}))
                    # report once: continue the program from what the front end says
                    m.row, m.g, m.key = dict(t.row.dtype.items()), dict(t.globals.dtype.items()), list(t.key)

    def gen_field_expr(rng, t, S, depth=3):
        g = ExprGen(rng, hl, max_depth=rng.choice([4, 5, 6]), p_share=0.3)
        tk = rng.choice(['i32', 'f64', 'ai32', 'bool', 'str', 'i64', 'st', 'af64'])
        return g.gen(tk, depth, S)

    def fresh_name(rng, used, prefix='f'):
        while True:
            n = prefix + str(rng.randint(0, 99))
            if n not in used:
                return n

    def table_source(rng):
        if rng.random() < 0.5:
            n = rng.randint(0, 20)
            return hl.utils.range_table(n, rng.choice([None, 2])), TModel({}, {'idx': hl.tint32}, ['idx']), f'range_table({n})'
        st = hl.tstruct(**{n: gen_type(rng, hl, 1) for n in rng.sample(['a', 'b', 'c', 'd', 'k'], rng.randint(1, 4))})
        rows = [gen_value(rng, hl, st, True, 1) for _ in range(rng.randint(0, 3))]
        rows = [r for r in rows if r is not None]
        gl = None
        gm = {}
        if rng.random() < 0.4:
            gl = hl.struct(gg=hl.int32(1), gh=hl.array([1.5]))
            gm = {'gg': hl.tint32, 'gh': hl.tarray(hl.tfloat64)}
        keyf = [n for n, ty in st.items() if ty in (hl.tint32, hl.tstr, hl.tint64)]
        key = [rng.choice(keyf)] if keyf and rng.random() < 0.5 else None
        t = hl.Table.parallelize(rows, schema=st, key=key, globals=gl)
        return t, TModel(gm, dict(st.items()), key or []), 'parallelize'

    def make_other(rng, kt0, wide):
        """a small table keyed by one field of type `kt0` (the right side of joins / the table that is indexed); in the wide workload
        it sometimes carries seeded randomness itself (the rewrite has to rebuild the RIGHT side of the join too)"""
        other = hl.utils.range_table(5)
        if kt0 == hl.tint32:
            other = other.annotate(jv=hl.str(other.idx), jw=hl.float64(other.idx))
        elif kt0 == hl.tstr:
            other = other.key_by(ks=hl.str(other.idx)).annotate(jw=[1.5]).drop('idx')
        else:
            other = other.key_by(kl=hl.int64(other.idx)).annotate(jw=hl.struct(z=1))
        if wide:
            r = rng.random()
            if r < 0.25:
                other = other.annotate(jr=hl.rand_unif(0.0, 1.0))
            elif r < 0.4:
                other = other.filter(hl.rand_bool(0.8))
            elif r < 0.5:
                other = other.annotate_globals(og=hl.rand_int32(4)).select_globals()
        return other

    def interval_table(rng):
        """a table whose FIRST key field is an interval<int32> (sometimes followed by a second key field), 0-2 value fields in a row
        order that may put values before keys, sometimes carrying seeded randomness"""
        from hail.utils import Interval, Struct

        ft = {'interval': hl.tinterval(hl.tint32), 'gene': hl.tstr, 'score': hl.tfloat64, 'tag': hl.tint32}
        vals = rng.choice([['gene', 'score'], ['gene'], ['score', 'gene'], [], ['tag'], ['gene', 'score']])
        key = ['interval'] + (['tag'] if 'tag' not in vals and rng.random() < 0.25 else [])
        names = (vals + key) if rng.random() < 0.3 else (key + vals)
        schema = hl.tstruct(**{n: ft[n] for n in names})
        fv = {'gene': 'A', 'score': 2.5, 'tag': 7}
        rows = [Struct(**{n: (Interval(a, a + w, point_type=hl.tint32) if n == 'interval' else fv[n]) for n in names}) for a, w in ((1, 3), (3, 5), (0, 9))[: rng.randint(0, 3)]]
        iv = hl.Table.parallelize(rows, schema=schema, key=key)
        r = rng.random()
        if r < 0.25:
            iv = iv.annotate(rr=hl.rand_unif(0.0, 1.0))
        elif r < 0.4:
            iv = iv.filter(hl.rand_bool(0.9))
        return iv

    TABLE_OPS = ['annotate', 'annotate', 'annotate', 'select', 'drop', 'rename', 'transmute', 'key_by', 'key_by_expr', 'filter', 'globals',
                 'group_by', 'join', 'index', 'explode', 'union', 'order_by', 'add_index', 'collect_by_key', 'head', 'distinct', 'select_globals',
                 'agg_expr', 'collect_expr', 'annotate_scan', 'key_by_none']
    # the wide workload: every op above (with seeded randomness in the generated expressions about half of the time) plus the relational
    # node kinds / optional constructor arguments the plain workload never builds
    TABLE_OPS_WIDE = TABLE_OPS + ['interval_index'] * 5 + ['join', 'index', 'index', 'filter', 'filter', 'group_by', 'tail', 'naive_coalesce', 'sample', 'sample', 'filter_intervals',
                                  'multi_way_zip_join', 'multi_way_zip_join', 'semi_anti_join', 'map_partitions', 'filter_partitions', 'key_by_sorted', 'key_by_sorted', 'union_rand', 'from_matrix', 'from_matrix', 'from_matrix', 'rename', 'globals', 'explode_nested', 'explode']

    def table_case(i, rng, wide):
        phase = 'table-sent' if wide else 'table'
        et.reset()
        et_sent.reset()
        ok, src = guarded('table_source', lambda: table_source(rng))
        if not ok:
            flush(None, (phase + '-source-rejected', i), {})
            return
        t, m, what = src
        trace = [what]
        check_table(t, m, what)
        for _ in range(rng.randint(3, 8) if wide else rng.randint(2, 7)):
            op = rng.choice(TABLE_OPS_WIDE if wide else TABLE_OPS)
            rz = wide and rng.random() < 0.5

            def R(e, rz=rz):
                """in the wide workload: the same expression with seeded randomness in it (same type)"""
                if not rz:
                    return e
                ok, r = guarded('randomized', lambda: randomized(rng, hl, e))
                if ok and r.dtype == e.dtype:
                    ctx.count('randomized_expressions')
                    return r
                return e

            S = row_scope(t)
            nonkey = [f for f in m.row if f not in m.key]
            res = None
            m2 = m.copy()
            if op == 'annotate':
                kw = {}
                for _k in range(rng.randint(1, 3)):
                    name = rng.choice(nonkey) if nonkey and rng.random() < 0.25 else fresh_name(rng, set(m.row) | set(m.g) | set(kw))
                    ok, e = guarded('gen', lambda: gen_field_expr(rng, t, S))
                    if ok:
                        kw[name] = R(e)
                        m2.row[name] = e.dtype
                if kw:
                    res = guarded(f'annotate', lambda: t.annotate(**kw))
            elif op == 'annotate_scan':
                ok, e = guarded('gen', lambda: ExprGen(rng, hl, max_depth=5).gen(rng.choice(['i32', 'f64']), 3, row_scope(t, allow_agg=False)))
                if ok:
                    name = fresh_name(rng, set(m.row) | set(m.g))
                    sc = rng.choice([lambda: hl.scan.sum(e), lambda: hl.scan.count(), lambda: hl.scan.collect(e), lambda: hl.scan.max(e), lambda: hl.scan.mean(e),
                                     lambda: hl.scan.filter(e > 1, hl.scan.count()) + hl.scan.count_where(e > 0)])
                    if rz:
                        ra = random_aggs(rng, hl, e, scan=True)
                        sc = ra[rng.choice(sorted(ra))]
                    ok, se = guarded('scan', sc)
                    if ok:
                        m2.row[name] = se.dtype
                        res = guarded('annotate(scan)', lambda: t.annotate(**{name: se}))
            elif op == 'select' and m.row:
                keep = rng.sample(nonkey, rng.randint(0, len(nonkey)))
                ok, e = guarded('gen', lambda: gen_field_expr(rng, t, S))
                name = fresh_name(rng, set(m.row) | set(m.g))
                m2.row = {k: m.row[k] for k in m.key}
                m2.row.update({k: m.row[k] for k in keep})
                if ok:
                    m2.row[name] = e.dtype
                    res = guarded('select', lambda: t.select(*keep, **{name: R(e)}))
                else:
                    res = guarded('select', lambda: t.select(*keep))
            elif op == 'drop' and nonkey:
                d = rng.sample(nonkey, rng.randint(1, min(2, len(nonkey))))
                for f in d:
                    del m2.row[f]
                res = guarded('drop', lambda: t.drop(*d))
            elif op == 'rename' and m.row:
                f = rng.choice(list(m.row))
                nn = fresh_name(rng, set(m.row) | set(m.g), 'r')
                m2.row = {(nn if k == f else k): v for k, v in m.row.items()}
                m2.key = [nn if k == f else k for k in m.key]
                ren = {f: nn}
                if wide and m.g and rng.random() < 0.6:
                    # a global field too (TableRename carries a row map AND a global map)
                    fg = rng.choice(list(m.g))
                    ng = fresh_name(rng, set(m.row) | set(m.g) | {nn}, 'r')
                    m2.g = {(ng if k == fg else k): v for k, v in m.g.items()}
                    ren[fg] = ng
                res = guarded('rename', lambda: t.rename(ren))
            elif op == 'transmute' and nonkey:
                f = rng.choice(nonkey)
                nn = fresh_name(rng, set(m.row) | set(m.g))
                e = hl.struct(w=t[f], n=hl.is_defined(t[f]))
                del m2.row[f]
                m2.row[nn] = e.dtype
                res = guarded('transmute', lambda: t.transmute(**{nn: e}))
            elif op == 'key_by' and m.row:
                cand = [f for f, ty in m.row.items() if not isinstance(ty, (hl.tdict,))]
                ks = rng.sample(cand, rng.randint(1, min(2, len(cand)))) if cand else []
                if ks:
                    m2.key = ks
                    res = guarded('key_by', lambda: t.key_by(*ks))
            elif op == 'key_by_none':
                m2.key = []
                res = guarded('key_by()', lambda: t.key_by())
            elif op == 'key_by_expr':
                ok, e = guarded('gen', lambda: ExprGen(rng, hl, max_depth=5).gen(rng.choice(['i32', 'str', 'i64']), 3, S))
                if ok:
                    nn = fresh_name(rng, set(m.row) | set(m.g), 'k')
                    m2.row[nn] = e.dtype
                    m2.key = [nn]
                    res = guarded('key_by(expr)', lambda: t.key_by(**{nn: R(e)}))
            elif op == 'filter':
                ok, e = guarded('gen', lambda: ExprGen(rng, hl, max_depth=5).gen('bool', 3, S))
                if ok:
                    res = guarded('filter', lambda: t.filter(R(e), keep=rng.random() < 0.7))
            elif op == 'globals':
                Sg = row_scope(t, globals_only=True)
                ok, e = guarded('gen', lambda: gen_field_expr(rng, t, Sg))
                if ok:
                    nn = fresh_name(rng, set(m.row) | set(m.g), 'g')
                    m2.g[nn] = e.dtype
                    res = guarded('annotate_globals', lambda: t.annotate_globals(**{nn: R(e)}))
            elif op == 'select_globals' and m.g:
                keep = rng.sample(list(m.g), rng.randint(0, len(m.g)))
                m2.g = {k: m.g[k] for k in keep}
                res = guarded('select_globals', lambda: t.select_globals(*keep))
            elif op == 'group_by':
                g = ExprGen(rng, hl, max_depth=5)
                ok, ke = guarded('gen', lambda: g.gen(rng.choice(['i32', 'bool', 'str']), 3, S))
                ok2, ae = guarded('gen', lambda: g.gen(rng.choice(['i32', 'f64']), 3, row_scope(t, allow_agg=False)))
                if ok and ok2:
                    aggs = {'n': hl.agg.count(), 's': hl.agg.sum(ae), 'c': hl.agg.collect(ae), 'm': hl.agg.mean(ae), 'mx': hl.agg.max(ae),
                            'st': hl.agg.stats(ae), 'cs': hl.agg.collect_as_set(ke), 'tk': hl.agg.take(ae, 2), 'ct': hl.agg.counter(ke),
                            'fr': hl.agg.fraction(ae > 1), 'ex': hl.agg.explode(lambda v: hl.agg.sum(v), hl.range(hl.int32(hl.min(hl.abs(ae), 3))))}
                    pick = rng.sample(sorted(aggs), rng.randint(1, 4))
                    if rz:
                        # randomness in the aggregations (TableKeyByAndAggregate / TableAggregateByKey rebuild `expr` around per-row
                        # and per-group rng states) and / or in the key expression
                        ra = random_aggs(rng, hl, ae)
                        for a in rng.sample(sorted(ra), rng.randint(1, 2)):
                            ok3, x = guarded('random agg', ra[a])
                            if ok3:
                                aggs[a] = x
                                pick.append(a)
                        if rng.random() < 0.5 and RANDOM_GROUP_KEY_IN_WORKLOAD:
                            ke = R(ke)
                    kn = fresh_name(rng, set(pick), 'k')
                    m2.row = {kn: ke.dtype}
                    m2.row.update({a: aggs[a].dtype for a in pick})
                    m2.key = [kn]
                    if wide and m.key and rng.random() < 0.3:
                        # group by the table's own key fields: TableAggregateByKey instead of TableKeyByAndAggregate
                        m2.row = {k: m.row[k] for k in m.key}
                        m2.row.update({a: aggs[a].dtype for a in pick})
                        m2.key = list(m.key)
                        res = guarded('group_by(key).aggregate', lambda: t.group_by(*m.key).aggregate(**{a: aggs[a] for a in pick}))
                    else:
                        res = guarded('group_by.aggregate', lambda: t.group_by(**{kn: ke}).aggregate(**{a: aggs[a] for a in pick}))
            elif op in ('join', 'index') and m.key:
                kt = [m.row[k] for k in m.key]
                if len(kt) == 1 and kt[0] in (hl.tint32, hl.tstr, hl.tint64):
                    other = make_other(rng, kt[0], wide)
                    ovals = {f: ty for f, ty in other.row.dtype.items() if f not in list(other.key)}
                    if not (set(ovals) & (set(m.row) | set(m.g))):
                        if op == 'join':
                            how = rng.choice(['inner', 'left', 'right', 'outer'])
                            m2.row.update(ovals)
                            def _join(t=t, other=other, how=how):
                                r = t.join(other, how=how)
                                # row layout of TableJoin (engine rule, TableIR.scala `TableJoin.typ`): the left key fields in key
                                # order, the other left fields in row order, then the right non-key fields
                                lk, rk = list(t.key), list(other.key)
                                exp = lk + [f for f in t.row.dtype if f not in lk] + [f for f in other.row.dtype if f not in rk]
                                ctx.count('contract_join_row_layout')
                                if list(t.row.dtype)[:len(lk)] != lk:
                                    ctx.count('joins_with_left_key_not_leading')
                                if list(r.row.dtype) != exp:
                                    hook.pending.append(('table/join-row-layout-differs-from-relational-rule',
                                                         f'Table.join({how}) row fields {list(r.row.dtype)} but TableJoin lays the row out as {exp}', {'op': 'join'}))
                                return r
                            res = guarded('join', _join)
                        elif wide and rng.random() < 0.35:
                            # all_matches=True on a NON-interval key: collect_by_key(uid) on the right, then a distinct join
                            nn = fresh_name(rng, set(m.row) | set(m.g), 'j')
                            m2.row[nn] = hl.tarray(hl.tstruct(**ovals))
                            res = guarded('index(all_matches)', lambda: t.annotate(**{nn: other.index(t[m.key[0]], all_matches=True)}))
                        else:
                            nn = fresh_name(rng, set(m.row) | set(m.g), 'j')
                            if rng.random() < 0.5:
                                f0 = rng.choice(sorted(ovals))
                                m2.row[nn] = ovals[f0]
                                res = guarded('index', lambda: t.annotate(**{nn: other[t[m.key[0]]][f0]}))
                            else:
                                m2.row[nn] = hl.tstruct(**ovals)
                                res = guarded('index', lambda: t.annotate(**{nn: other[t.key]}))
            elif op == 'interval_index':
                # Table.index on a table whose first key field is an interval: TableIntervalJoin, product = all_matches
                pts = [f for f, ty in m.row.items() if ty == hl.tint32]
                ok, iv = guarded('interval_table', lambda: interval_table(rng))
                if pts and ok:
                    f = rng.choice(pts)
                    product = rng.random() < 0.6
                    ovals = {g: ty for g, ty in iv.row.dtype.items() if g not in list(iv.key)}
                    jt = hl.tarray(hl.tstruct(**ovals)) if product else hl.tstruct(**ovals)
                    how = rng.choice(['field', 'field', 'expr', 'rand_expr', 'key'])
                    if how == 'key' and not (len(m.key) == 1 and m.row[m.key[0]] == hl.tint32):
                        how = 'field'
                    nn = fresh_name(rng, set(m.row) | set(m.g), 'j')
                    use = rng.choice(['whole', 'whole', 'derived', 'both'])
                    if use in ('whole', 'both'):
                        m2.row[nn] = jt
                    if use in ('derived', 'both'):
                        m2.row[nn + 'n'] = hl.tint32 if product else hl.tbool

                    def _ij(t=t, iv=iv, f=f, how=how, product=product, use=use, nn=nn):
                        x = {'field': lambda: t[f], 'expr': lambda: t[f] + 1, 'rand_expr': lambda: t[f] + hl.rand_int32(3), 'key': lambda: t.key}[how]()
                        j = iv.index(x, all_matches=product)
                        kw = {}
                        if use in ('whole', 'both'):
                            kw[nn] = j
                        if use in ('derived', 'both'):
                            kw[nn + 'n'] = hl.len(j) if product else hl.is_defined(j)
                        return t.annotate(**kw)

                    res = guarded('interval_index', _ij)
            elif op in ('tail', 'naive_coalesce', 'sample', 'filter_partitions', 'union_rand'):
                f = {'tail': lambda: t.tail(rng.randint(0, 4)), 'naive_coalesce': lambda: t.naive_coalesce(rng.randint(1, 3)),
                     'sample': lambda: t.sample(rng.choice([0.1, 0.5]), seed=rng.choice([None, 3])),
                     'filter_partitions': lambda: t._filter_partitions([0], keep=rng.random() < 0.5),
                     'union_rand': lambda: t.union(t.filter(hl.rand_bool(0.5)), t.head(2))}[op]
                res = guarded(op, f)
            elif op == 'filter_intervals' and m.key and m.row[m.key[0]] == hl.tint32:
                # hl.filter_intervals evaluates its interval list on the backend and then emits exactly this node
                from hail.utils import Interval, Struct

                k0 = m.key[0]
                ivs = [Interval(Struct(**{k0: a}), Struct(**{k0: b}), True, rng.random() < 0.5) for a, b in ((0, 3), (5, 9))[: rng.randint(1, 2)]]
                keep = rng.random() < 0.5
                res = guarded(op, lambda: hl.Table(ir.TableFilterIntervals(t._tir, ivs, hl.tstruct(**{k0: hl.tint32}), keep)))
            elif op == 'multi_way_zip_join' and MULTI_WAY_ZIP_JOIN_IN_WORKLOAD and not ({'mw_data', 'mw_gl'} & (set(m.row) | set(m.g))):
                m2.row = {k: m.row[k] for k in m.key}
                m2.row['mw_data'] = hl.tarray(hl.tstruct(**{k: v for k, v in m.row.items() if k not in m.key}))
                m2.g = {'mw_gl': hl.tarray(hl.tstruct(**m.g))}
                others = [t] + [t.filter(hl.rand_bool(0.5)) if rng.random() < 0.5 else t for _k in range(rng.randint(0, 2))]
                res = guarded(op, lambda: hl.Table.multi_way_zip_join(others, 'mw_data', 'mw_gl'))
            elif op == 'semi_anti_join' and len(m.key) == 1 and m.row[m.key[0]] in (hl.tint32, hl.tstr, hl.tint64):
                other = make_other(rng, m.row[m.key[0]], wide)
                res = guarded(op, (lambda: t.semi_join(other)) if rng.random() < 0.5 else (lambda: t.anti_join(other)))
            elif op == 'map_partitions':
                nn = fresh_name(rng, set(m.row) | set(m.g), 'p')
                m2.row[nn] = hl.tint32
                res = guarded(op, lambda: t._map_partitions(lambda rows: rows.map(lambda r: r.annotate(**{nn: hl.int32(1)}))))
            elif op == 'key_by_sorted' and m.row:
                cand = [f for f, ty in m.row.items() if not isinstance(ty, (hl.tdict,))]
                if cand and rng.random() < 0.6:
                    ks = rng.sample(cand, rng.randint(1, min(2, len(cand))))
                    m2.key = ks
                    res = guarded(op, lambda: t._key_by_assert_sorted(*ks))
                else:
                    ok, e = guarded('gen', lambda: ExprGen(rng, hl, max_depth=5).gen(rng.choice(['i32', 'str', 'i64']), 3, S))
                    if ok:
                        nn = fresh_name(rng, set(m.row) | set(m.g), 'k')
                        m2.row[nn] = e.dtype
                        m2.key = [nn]
                        res = guarded(op + '(expr)', lambda: t._key_by_assert_sorted(**{nn: R(e)}))
            elif op == 'explode_nested':
                # explode an array that sits INSIDE a struct field (TableExplode with a path of length 2; the uid rewrite zips the nested
                # array with its indices and rebuilds the enclosing struct twice)
                nn = fresh_name(rng, set(m.row) | set(m.g), 'x')
                m2.row[nn] = hl.tstruct(arr=hl.tint32, z=hl.tint32)

                def _en(t=t, nn=nn):
                    t1 = t.annotate(**{nn: hl.struct(arr=R(hl.range(2)), z=1)})
                    return t1.explode(t1[nn].arr)

                res = guarded(op, _en)
            elif op == 'from_matrix':
                # continue from a table view of a small matrix-table pipeline (MatrixRowsTable / MatrixColsTable / MatrixEntriesTable /
                # CastMatrixToTable over matrix nodes that carry randomness): the table rewrite hands its uid request down into the matrix IR
                def _fm():
                    mt0 = hl.utils.range_matrix_table(3, 2)
                    mt0 = mt0.annotate_entries(x=mt0.row_idx + mt0.col_idx + hl.rand_int32(3)) if rng.random() < 0.6 else mt0.annotate_entries(x=mt0.row_idx * mt0.col_idx)
                    r = rng.random()
                    if r < 0.25:
                        mt0 = mt0.filter_rows(hl.rand_bool(0.5))
                    elif r < 0.5:
                        mt0 = mt0.annotate_cols(cr=hl.rand_unif(0.0, 1.0))
                    elif r < 0.7:
                        mt0 = mt0.annotate_rows(ra=hl.agg.filter(hl.rand_bool(0.5), hl.agg.sum(mt0.x)))
                    elif r < 0.85:
                        mt0 = mt0.filter_entries(hl.rand_bool(0.5))
                    view = rng.choice(['rows', 'cols', 'entries', 'entries', 'localize'] if ENTRIES_UNDER_RANDOMNESS_IN_WORKLOAD else ['rows', 'cols', 'localize', 'localize'])
                    tv = {'rows': mt0.rows, 'cols': mt0.cols, 'entries': mt0.entries, 'localize': lambda: mt0.localize_entries('ents', 'colz')}[view]()
                    # directly under a consumer that asks the view for row uids and passes the rows on unchanged
                    r2 = rng.random()
                    if r2 < 0.35:
                        tv = tv.filter(hl.rand_bool(0.5))
                    elif r2 < 0.5:
                        tv = tv.sample(0.5, seed=rng.choice([None, 2]))
                    return view, tv
                ok, vt = guarded(op, _fm)
                if ok:
                    view, t2 = vt
                    m2 = TModel(dict(t2.globals.dtype.items()), dict(t2.row.dtype.items()), list(t2.key))
                    res = (True, t2)
                    op = op + ':' + view
            elif op == 'explode':
                arrs = [f for f in nonkey if isinstance(m.row[f], (hl.tarray, hl.tset))]
                if arrs:
                    f = rng.choice(arrs)
                    m2.row[f] = m.row[f].element_type
                    res = guarded('explode', lambda: t.explode(f) if rng.random() < 0.5 else t.explode(t[f]))
            elif op == 'union':
                res = guarded('union', lambda: t.union(t))
            elif op == 'order_by' and m.row:
                f = rng.choice(list(m.row))
                m2.key = []
                res = guarded('order_by', lambda: t.order_by(hl.desc(t[f]) if rng.random() < 0.5 else t[f]))
            elif op == 'add_index':
                nn = fresh_name(rng, set(m.row) | set(m.g), 'i')
                m2.row[nn] = hl.tint64
                res = guarded('add_index', lambda: t.add_index(nn))
            elif op == 'collect_by_key' and m.key and 'values' not in m.row and 'values' not in m.g:
                m2.row = {k: m.row[k] for k in m.key}
                m2.row['values'] = hl.tarray(hl.tstruct(**{k: v for k, v in m.row.items() if k not in m.key}))
                res = guarded('collect_by_key', lambda: t.collect_by_key())
            elif op == 'head':
                res = guarded('head', lambda: t.head(3))
            elif op == 'distinct':
                res = guarded('distinct', lambda: t.distinct())
            elif op == 'agg_expr':
                ok, ae = guarded('gen', lambda: ExprGen(rng, hl, max_depth=5).gen(rng.choice(['i32', 'f64', 'ai32']), 3, row_scope(t, allow_agg=False)))
                if ok and rz:
                    ra = random_aggs(rng, hl, hl.int32(1))
                    a = rng.choice(sorted(ra))
                    ok, q = guarded('random agg', lambda: hl.struct(c=hl.agg.collect(R(ae)), n=hl.agg.count(), r=ra[a]()))
                    if ok:
                        ok, r = guarded('Table.aggregate(random query)', lambda: t.aggregate(q, _localize=False))
                        if ok:
                            ctx.count('contract_table_model')
                            ctx.count('actions_with_random_query')
                            if r.dtype != q.dtype:
                                hook.pending.append(('table/aggregate-expression-type', f'Table.aggregate gives {r.dtype}, expected {q.dtype}', {}))
                            finish_program(r._ir, False, 'table.aggregate(random query)', rewritten=True)
                            trace.append('aggregate-random')
                elif ok:
                    ok, r = guarded('Table.aggregate', lambda: t.aggregate(hl.struct(c=hl.agg.collect(ae), n=hl.agg.count()), _localize=False))
                    if ok:
                        ctx.count('contract_table_model')
                        want = hl.tstruct(c=hl.tarray(ae.dtype), n=hl.tint64)
                        if r.dtype != want:
                            hook.pending.append(('table/aggregate-expression-type', f'Table.aggregate gives {r.dtype}, expected {want}', {}))
                        finish_program(r._ir, False, 'table.aggregate')
                        trace.append('aggregate')
                continue
            elif op == 'collect_expr':
                ok, r = guarded('Table.collect', lambda: t.collect(_localize=False))
                if ok:
                    ctx.count('contract_table_model')
                    want = hl.tarray(hl.tstruct(**m.row))
                    if _norm(hl, r.dtype) != _norm(hl, want):
                        hook.pending.append(('table/collect-expression-type', f'Table.collect(_localize=False) gives {r.dtype}, expected {want}', {}))
                    trace.append('collect')
                continue
            if res is None:
                continue
            ok, t2 = res
            if not ok:
                continue
            t, m = t2, m2
            trace.append(op)
            ctx.seen('table_ops_accepted', op)
            check_table(t, m, op)
        sent_check_table(t, 'the finished program', final=True)
        finish_program(t._tir, True, phase)
        if wide:
            # the action nodes themselves, through the API where the API does not execute (what the backend decodes results with)
            start = len(hook.pending)
            del leaky[:]
            attributed_to = None
            ok, r = guarded('Table.collect', lambda: t.collect(_localize=False))
            if ok:
                ctx.count('contract_sent_action_result_type')
                if canon(hl, r.dtype) != canon(hl, hl.tarray(t.row.dtype)):
                    hook.pending.append((leak_key(r.dtype, hl.tarray(t.row.dtype), 'sent-ir/action-result-type-differs-from-reported-type'),
                                         f'Table.collect(_localize=False) is typed {r.dtype}, the table reports rows of {t.row.dtype}', {}))
                finish_program(r._ir, False, phase + '.collect')
                origin = origin_of(r._ir)
                if origin is not None and (leaky or origin.startswith('sent-ir/TableKeyByAndAggregate')):
                    attributed_to = origin       # (the same rebuilt tree as judged above, reached through the API's own action node)
                    attribute(origin, start)
            start = len(hook.pending)
            ok, r = guarded('Table.index_globals', lambda: t.index_globals())
            if ok:
                finish_program(r._ir, False, phase + '.globals')
                attribute(attributed_to, start)
        flush({'ops': trace, 'type': str(t._tir.typ)[:300]}, (phase, tuple(trace), str(t._tir.typ)), {'ops': trace, 'table_type': str(t._tir.typ)[:800]})

    N = ctx.pick(120, 1200)
    for i, rng in ctx.cases(N, 'table'):
        table_case(i, rng, False)
    N = ctx.pick(110, 800)
    for i, rng in ctx.cases(N, 'table-sent'):
        table_case(i, rng, True)

    # ---- phase matrix ---------------------------------------------------------------------------
    def mscope(mt, axis, allow_agg=True):
        vs = []
        spec = {'row': (('va',), [mt.row]), 'col': (('sa',), [mt.col]), 'entry': (('va', 'sa', 'g'), [mt.row, mt.col, mt.entry]), 'global': ((), [])}[axis]
        refname = {id(mt.row): 'va', id(mt.col): 'sa', id(mt.entry): 'g'}
        for s in spec[1]:
            for f, ty in s.dtype.items():
                k = _tk(hl, ty)
                if k:
                    vs.append((k, mt[f], frozenset([refname[id(s)]])))
        for f, ty in mt.globals.dtype.items():
            k = _tk(hl, ty)
            if k:
                vs.append((k, mt[f], frozenset(['global'])))
        return Scope(frozenset(spec[0] + ('global',)), tuple(vs), 'eval', None, 0, allow_agg)

    def check_matrix(mt, m, what, final=False):
        typ = mt._mir.typ
        cmpz = [('row', mt.row.dtype, typ.row_type), ('col', mt.col.dtype, typ.col_type), ('entry', mt.entry.dtype, typ.entry_type),
                ('globals', mt.globals.dtype, typ.global_type), ('row-key', list(mt.row_key), list(typ.row_key)), ('col-key', list(mt.col_key), list(typ.col_key)),
                ('row-key-type', mt.row_key.dtype, typ.row_key_type), ('col-key-type', mt.col_key.dtype, typ.col_key_type)]
        for lab, a, b in cmpz:
            ctx.count('contract_matrix_wrapper')
            if a != b:
                hook.pending.append((f'matrix/wrapper-{lab}-differs-from-ir', f'after {what}: MatrixTable reports {lab} {a}, the MatrixIR type says {b}', {}))
        if list(mt.row.dtype)[:len(mt.row_key)] != list(mt.row_key):
            ctx.count('matrix_states_with_row_key_not_leading')
        if list(mt.col.dtype)[:len(mt.col_key)] != list(mt.col_key):
            ctx.count('matrix_states_with_col_key_not_leading')
        engine_check(mt._mir, RefM(mt.globals.dtype, list(mt.col_key), mt.col.dtype, list(mt.row_key), mt.row.dtype, mt.entry.dtype), what)
        sent_check_matrix(mt, what, final)
        if m is not None:
            for lab, a, b in (('row', _normd(hl, mt.row.dtype), _normd(hl, m.row)), ('col', _normd(hl, mt.col.dtype), _normd(hl, m.col)),
                              ('entry', _normd(hl, mt.entry.dtype), _normd(hl, m.entry)), ('globals', _normd(hl, mt.globals.dtype), _normd(hl, m.g)),
                              ('row-key', list(mt.row_key), m.row_key), ('col-key', list(mt.col_key), m.col_key)):
                ctx.count('contract_matrix_model')
                if a != b:
                    hook.pending.append((f'matrix/{what.split("(")[0]}-{lab}-schema-differs-from-meaning', f'after {what}: {lab} is {a}, the method means {b}', {}))
                    m.row, m.col, m.entry, m.g = dict(mt.row.dtype.items()), dict(mt.col.dtype.items()), dict(mt.entry.dtype.items()), dict(mt.globals.dtype.items())
                    m.row_key, m.col_key = list(mt.row_key), list(mt.col_key)

    import copy

    MATRIX_OPS = ['annotate_rows', 'annotate_cols', 'annotate_entries', 'annotate_entries', 'annotate_globals', 'select_rows', 'select_cols', 'select_entries',
                  'drop', 'filter_rows', 'filter_cols', 'filter_entries', 'key_rows_by', 'key_cols_by', 'row_agg', 'col_agg', 'group_rows', 'group_cols',
                  'explode_rows', 'rows', 'cols', 'entries', 'localize', 'agg_exprs', 'transmute_entries'] + (['union_cols'] if UNION_COLS_IN_WORKLOAD else [])
    MATRIX_OPS_WIDE = MATRIX_OPS + ['rows_join'] * 4 + ['cols_join'] * 2 + ['entries_join', 'choose_cols', 'collect_cols_by_key', 'explode_cols', 'union_rows', 'distinct_by_row',
                                    'head', 'tail', 'sample_rows', 'sample_cols', 'naive_coalesce', 'filter_partitions', 'filter_intervals', 'unfilter_entries', 'rename',
                                    'unlocalize', 'add_index', 'filter_rows', 'filter_cols', 'filter_entries', 'row_agg', 'col_agg', 'annotate_cols', 'annotate_rows', 'explode_rows', 'entries']

    def matrix_case(i, rng, wide):
        phase = 'matrix-sent' if wide else 'matrix'
        et.reset()
        et_sent.reset()
        mt = hl.utils.range_matrix_table(rng.randint(0, 5), rng.randint(0, 4))
        m = MModel({}, {'row_idx': hl.tint32}, {'col_idx': hl.tint32}, {}, ['row_idx'], ['col_idx'])
        trace = []
        check_matrix(mt, m, 'range_matrix_table')
        # some cases start from a matrix table whose row / col key is NOT the leading field of its struct: the layouts in which
        # the field ORDER decided by the relational rules (keys first ...) differs from the order of declaration
        for axis, p_axis in (('row', 0.35), ('col', 0.2)):
            if rng.random() < p_axis:
                nn = fresh_name(rng, set(m.row) | set(m.col), 'p')
                if axis == 'row':
                    steps = [('annotate_rows', lambda mt=mt: mt.annotate_rows(**{nn: hl.str(mt.row_idx)})), ('key_rows_by', lambda: mt.key_rows_by(nn))]
                else:
                    steps = [('annotate_cols', lambda mt=mt: mt.annotate_cols(**{nn: hl.str(mt.col_idx)})), ('key_cols_by', lambda: mt.key_cols_by(nn))]
                for opname, f in steps:
                    ok, mt2 = guarded(opname, f)
                    if not ok:
                        break
                    mt = mt2
                    if opname.startswith('annotate'):
                        (m.row if axis == 'row' else m.col)[nn] = hl.tstr
                    elif axis == 'row':
                        m.row_key = [nn]
                    else:
                        m.col_key = [nn]
                    trace.append(opname)
                    check_matrix(mt, m, opname)
        for _ in range(rng.randint(3, 8)):
            op = rng.choice(MATRIX_OPS_WIDE if wide else MATRIX_OPS)
            rz = wide and rng.random() < 0.5

            def R(e, rz=rz):
                if not rz:
                    return e
                ok, r = guarded('randomized', lambda: randomized(rng, hl, e))
                if ok and r.dtype == e.dtype:
                    ctx.count('randomized_expressions')
                    return r
                return e

            m2 = copy.deepcopy(m)
            used = set(m.row) | set(m.col) | set(m.entry) | set(m.g)
            res = None

            def gen_at(axis, tks, allow_agg=True):
                return guarded('gen', lambda: ExprGen(rng, hl, max_depth=rng.choice([4, 5])).gen(rng.choice(tks), 3, mscope(mt, axis, allow_agg)))

            if op in ('annotate_rows', 'annotate_cols', 'annotate_entries', 'annotate_globals'):
                axis = op.split('_')[1].rstrip('s') if op != 'annotate_entries' else 'entry'
                axis = {'row': 'row', 'col': 'col', 'entry': 'entry', 'global': 'global'}[axis]
                ok, e = gen_at(axis, ['i32', 'f64', 'ai32', 'bool', 'str', 'st'])
                if ok:
                    nn = fresh_name(rng, used)
                    {'row': m2.row, 'col': m2.col, 'entry': m2.entry, 'global': m2.g}[axis][nn] = e.dtype
                    res = guarded(op, lambda: getattr(mt, op)(**{nn: R(e)}))
            elif op in ('select_rows', 'select_cols', 'select_entries'):
                axis = {'select_rows': 'row', 'select_cols': 'col', 'select_entries': 'entry'}[op]
                fields = {'row': m.row, 'col': m.col, 'entry': m.entry}[axis]
                keys = {'row': m.row_key, 'col': m.col_key, 'entry': []}[axis]
                nonkey = [f for f in fields if f not in keys]
                keep = rng.sample(nonkey, rng.randint(0, len(nonkey)))
                ok, e = gen_at(axis, ['i32', 'f64', 'str'])
                new = {k: fields[k] for k in keys}
                new.update({k: fields[k] for k in keep})
                kw = {}
                if ok:
                    nn = fresh_name(rng, used)
                    new[nn] = e.dtype
                    kw[nn] = R(e)
                if axis == 'row':
                    m2.row = new
                elif axis == 'col':
                    m2.col = new
                else:
                    m2.entry = new
                res = guarded(op, lambda: getattr(mt, op)(*keep, **kw))
            elif op == 'drop':
                cand = [f for f in list(m.row) + list(m.col) if f not in m.row_key + m.col_key] + list(m.entry) + list(m.g)
                if cand:
                    d = rng.sample(cand, rng.randint(1, min(2, len(cand))))
                    for f in d:
                        for dd in (m2.row, m2.col, m2.entry, m2.g):
                            dd.pop(f, None)
                    res = guarded('drop', lambda: mt.drop(*d))
            elif op in ('filter_rows', 'filter_cols', 'filter_entries'):
                axis = {'filter_rows': 'row', 'filter_cols': 'col', 'filter_entries': 'entry'}[op]
                ok, e = gen_at(axis, ['bool'])
                if ok:
                    res = guarded(op, lambda: getattr(mt, op)(R(e)))
            elif op == 'key_rows_by':
                cand = [f for f, ty in m.row.items() if ty in (hl.tint32, hl.tstr, hl.tfloat64, hl.tbool)]
                if cand:
                    ks = rng.sample(cand, rng.randint(1, min(2, len(cand))))
                    if len(cand) > 1 and ks[0] == next(iter(m.row)) and rng.random() < 0.6:
                        ks = [rng.choice([c for c in cand if c != ks[0]])] + ks[:1]   # prefer a key that does NOT lead the row struct
                    if rng.random() < 0.15:
                        ks = []  # un-keying is a key change too (an empty key list is not "no new key")
                        ctx.count('matrix_unkey_ops')
                    m2.row_key = ks
                    res = guarded(op, lambda: mt.key_rows_by(*ks))
            elif op == 'key_cols_by':
                cand = [f for f, ty in m.col.items() if ty in (hl.tint32, hl.tstr, hl.tfloat64, hl.tbool)]
                if cand:
                    ks = rng.sample(cand, rng.randint(1, min(2, len(cand))))
                    if len(cand) > 1 and ks[0] == next(iter(m.col)) and rng.random() < 0.6:
                        ks = [rng.choice([c for c in cand if c != ks[0]])] + ks[:1]
                    if rng.random() < 0.2:
                        ks = []
                        ctx.count('matrix_unkey_ops')
                    m2.col_key = ks
                    res = guarded(op, lambda: mt.key_cols_by(*ks))
            elif op in ('row_agg', 'col_agg'):
                ok, e = gen_at('entry', ['i32', 'f64'], allow_agg=False)
                if ok:
                    nn = fresh_name(rng, used)
                    ag = rng.choice([lambda: hl.agg.sum(e), lambda: hl.agg.collect(e), lambda: hl.agg.mean(e), lambda: hl.agg.count_where(e > 0),
                                     lambda: hl.struct(a=hl.agg.max(e), b=hl.agg.count())])
                    if rz:
                        # a random aggregation over the entries of a row / column: MatrixMapRows asks its child for COLUMN uids as well
                        ra = random_aggs(rng, hl, e)
                        ag = ra[rng.choice(sorted(ra))]
                    ok, ae = guarded('agg', ag)
                    if ok:
                        if op == 'row_agg':
                            m2.row[nn] = ae.dtype
                            res = guarded(op, lambda: mt.annotate_rows(**{nn: ae}))
                        else:
                            m2.col[nn] = ae.dtype
                            res = guarded(op, lambda: mt.annotate_cols(**{nn: ae}))
            elif op in ('group_rows', 'group_cols'):
                axis = 'row' if op == 'group_rows' else 'col'
                ok, ke = gen_at(axis, ['i32', 'bool', 'str'])
                ok2, e = gen_at('entry', ['i32', 'f64'], allow_agg=False)
                if ok and ok2:
                    kn = fresh_name(rng, used, 'k')
                    an = fresh_name(rng, used | {kn}, 'a')
                    ae = rng.choice([lambda: hl.agg.sum(e), lambda: hl.agg.collect(e), lambda: hl.agg.mean(e)])()
                    if rz:
                        ra = random_aggs(rng, hl, e)
                        ok3, x = guarded('random agg', ra[rng.choice(sorted(ra))])
                        if ok3:
                            ae = x
                    m2.entry = {an: ae.dtype}
                    # half of the time the grouped axis gets aggregated fields of its own (key fields ++ aggregations: an ORDER
                    # the relational rule decides), via aggregate_rows / aggregate_cols ... aggregate_entries ... result()
                    axis_aggs = {}
                    if rng.random() < 0.5:
                        axis_aggs[fresh_name(rng, used | {kn, an}, 'n')] = hl.agg.count()
                        if rng.random() < 0.5:
                            axis_aggs[fresh_name(rng, used | {kn, an} | set(axis_aggs), 'c')] = hl.agg.collect(ke)
                        if rz and rng.random() < 0.6:
                            axis_aggs[fresh_name(rng, used | {kn, an} | set(axis_aggs), 'q')] = hl.agg.filter(hl.rand_bool(0.5), hl.agg.count())
                    axis_types = {n: a.dtype for n, a in axis_aggs.items()}
                    if axis == 'row':
                        m2.row, m2.row_key = {kn: ke.dtype, **axis_types}, [kn]
                        if axis_aggs:
                            res = guarded(op, lambda: mt.group_rows_by(**{kn: ke}).aggregate_rows(**axis_aggs).aggregate_entries(**{an: ae}).result())
                        else:
                            res = guarded(op, lambda: mt.group_rows_by(**{kn: ke}).aggregate(**{an: ae}))
                    else:
                        m2.col, m2.col_key = {kn: ke.dtype, **axis_types}, [kn]
                        if axis_aggs:
                            res = guarded(op, lambda: mt.group_cols_by(**{kn: ke}).aggregate_cols(**axis_aggs).aggregate_entries(**{an: ae}).result())
                        else:
                            res = guarded(op, lambda: mt.group_cols_by(**{kn: ke}).aggregate(**{an: ae}))
            elif op == 'union_cols':
                # (the right operand only has to agree in col / entry type and row key types: the table itself does; its non-key
                #  row fields are dropped by union_cols, so the schema is unchanged up to what MatrixUnionCols does to the ORDER)
                if list(mt.row.dtype)[:len(mt.row_key)] != list(mt.row_key):
                    ctx.count('union_cols_with_row_key_not_leading')
                res = guarded(op, lambda: mt.union_cols(mt, row_join_type=rng.choice(['inner', 'outer'])))
            elif op in ('rows_join', 'cols_join', 'entries_join'):
                axis = 'col' if op == 'cols_join' else 'row'
                fields, keys = (m.col, m.col_key) if axis == 'col' else (m.row, m.row_key)
                kind = rng.choice(['key', 'key', 'fk', 'interval', 'interval'] if op == 'rows_join' else ['key', 'key', 'fk'])
                i32s = [f for f, ty in fields.items() if ty == hl.tint32]
                nn = fresh_name(rng, used, 'j')
                if kind == 'interval' and i32s:
                    # MatrixAnnotateRowsTable with product = all_matches (an interval-keyed table indexed from the row axis)
                    ok, iv = guarded('interval_table', lambda: interval_table(rng))
                    if ok:
                        f = rng.choice(i32s)
                        product = rng.random() < 0.6
                        ovals = {g: ty for g, ty in iv.row.dtype.items() if g not in list(iv.key)}
                        m2.row[nn] = hl.tarray(hl.tstruct(**ovals)) if product else hl.tstruct(**ovals)
                        plus = rng.random() < 0.3
                        res = guarded(op + '(interval)', lambda: mt.annotate_rows(**{nn: iv.index((mt[f] + 1) if plus else mt[f], all_matches=product)}))
                elif len(keys) == 1 and fields[keys[0]] in (hl.tint32, hl.tstr) and (kind == 'key' or i32s or fields[keys[0]] == hl.tstr):
                    k0 = keys[0]
                    other = make_other(rng, fields[k0], wide)
                    ovals = {g: ty for g, ty in other.row.dtype.items() if g not in list(other.key)}
                    f0 = rng.choice(sorted(ovals))
                    whole = rng.random() < 0.5 and op != 'entries_join'
                    jt = hl.tstruct(**ovals) if whole else ovals[f0]
                    # 'key': the axis key itself (MatrixAnnotateRowsTable / MatrixAnnotateColsTable directly); 'fk': an expression of the
                    # key's type (the foreign-key plans: a keyed side table + dict lookup for rows, index + TableJoin for cols)
                    if kind == 'key':
                        ix = lambda: (mt.col_key if axis == 'col' else mt.row_key)  # noqa: E731
                    elif fields[k0] == hl.tstr:
                        ix = lambda: mt[k0] + ''  # noqa: E731
                    else:
                        ix = lambda: mt[k0] + 0  # noqa: E731
                    if not set(ovals) & used:
                        if op == 'rows_join':
                            m2.row[nn] = jt
                            res = guarded(op + f'({kind})', lambda: mt.annotate_rows(**{nn: other[ix()] if whole else other[ix()][f0]}))
                        elif op == 'cols_join':
                            m2.col[nn] = jt
                            res = guarded(op + f'({kind})', lambda: mt.annotate_cols(**{nn: other[ix()] if whole else other[ix()][f0]}))
                        else:
                            m2.entry[nn] = jt
                            res = guarded(op + f'({kind})', lambda: mt.annotate_entries(**{nn: other[ix()][f0]}))
            elif op in ('distinct_by_row', 'head', 'tail', 'sample_rows', 'sample_cols', 'naive_coalesce', 'filter_partitions', 'unfilter_entries', 'union_rows', 'choose_cols'):
                f = {'distinct_by_row': lambda: mt.distinct_by_row(), 'head': lambda: mt.head(rng.choice([None, 2]), rng.choice([None, 1, 2])) if rng.random() < 0.8 else mt.head(2),
                     'tail': lambda: mt.tail(rng.choice([None, 2]), rng.choice([None, 1, 2])) if rng.random() < 0.8 else mt.tail(2),
                     'sample_rows': lambda: mt.sample_rows(0.5, seed=rng.choice([None, 4])), 'sample_cols': lambda: mt.sample_cols(0.5, seed=rng.choice([None, 4])),
                     'naive_coalesce': lambda: mt.naive_coalesce(rng.randint(1, 3)), 'filter_partitions': lambda: mt._filter_partitions([0], keep=rng.random() < 0.5),
                     'unfilter_entries': lambda: mt.unfilter_entries(),
                     # (_check_cols=False: the column comparison is evaluated on the backend; choose_cols counts the columns on the backend
                     #  and then emits exactly this node)
                     'union_rows': lambda: hl.MatrixTable.union_rows(mt, mt.filter_rows(hl.rand_bool(0.5)) if rng.random() < 0.5 else mt, *([mt] if rng.random() < 0.3 else []), _check_cols=False),
                     'choose_cols': lambda: hl.MatrixTable(ir.MatrixChooseCols(mt._mir, [0, 0] if rng.random() < 0.5 else [0]))}[op]
                res = guarded(op, f)
            elif op == 'filter_intervals' and m.row_key and m.row[m.row_key[0]] == hl.tint32:
                from hail.utils import Interval, Struct

                k0 = m.row_key[0]
                ivs = [Interval(Struct(**{k0: a}), Struct(**{k0: b}), True, rng.random() < 0.5) for a, b in ((0, 3), (5, 9))[: rng.randint(1, 2)]]
                keep = rng.random() < 0.5
                res = guarded(op, lambda: hl.MatrixTable(ir.MatrixFilterIntervals(mt._mir, ivs, hl.tstruct(**{k0: hl.tint32}), keep)))
            elif op == 'collect_cols_by_key':
                m2.col = {k: (v if k in m.col_key else hl.tarray(v)) for k, v in m.col.items()}
                m2.entry = {k: hl.tarray(v) for k, v in m.entry.items()}
                res = guarded(op, lambda: mt.collect_cols_by_key())
            elif op == 'explode_cols':
                arrs = [f for f in m.col if f not in m.col_key and isinstance(m.col[f], hl.tarray)]
                if arrs:
                    f = rng.choice(arrs)
                    m2.col[f] = m.col[f].element_type
                    res = guarded(op, lambda: mt.explode_cols(f))
                else:
                    # no array field on the column axis yet: add one (sometimes a random one) and explode it
                    nn = fresh_name(rng, used, 'x')
                    if rng.random() < 0.4:   # nested: path of length 2
                        m2.col[nn] = hl.tstruct(arr=hl.tint32, z=hl.tint32)
                        res = guarded(op + '(nested)', lambda: (lambda mt1: mt1.explode_cols(mt1[nn].arr))(mt.annotate_cols(**{nn: hl.struct(arr=R(hl.range(2)), z=1)})))
                    else:
                        m2.col[nn] = hl.tint32
                        res = guarded(op, lambda: (lambda mt1: mt1.explode_cols(nn))(mt.annotate_cols(**{nn: R(hl.range(2))})))
            elif op == 'rename':
                cand = list(m.row) + list(m.col) + list(m.entry) + list(m.g)
                if cand:
                    f = rng.choice(cand)
                    nn = fresh_name(rng, used, 'r')
                    ren = lambda d: {(nn if k == f else k): v for k, v in d.items()}  # noqa: E731
                    m2.row, m2.col, m2.entry, m2.g = ren(m.row), ren(m.col), ren(m.entry), ren(m.g)
                    m2.row_key = [nn if k == f else k for k in m.row_key]
                    m2.col_key = [nn if k == f else k for k in m.col_key]
                    res = guarded(op, lambda: mt.rename({f: nn}))
            elif op == 'unlocalize' and not ({'ents', 'colz'} & used):
                # localize_entries -> (a table op that may carry randomness) -> _unlocalize_entries: CastTableToMatrix over CastMatrixToTable
                def _unloc(mt=mt):
                    tt = mt.localize_entries('ents', 'colz')
                    if rng.random() < 0.5:
                        tt = tt.filter(hl.rand_bool(0.5))
                    return tt._unlocalize_entries('ents', 'colz', list(mt.col_key))
                res = guarded(op, _unloc)
            elif op == 'add_index':
                nn = fresh_name(rng, used, 'i')
                if rng.random() < 0.5:
                    m2.row[nn] = hl.tint64
                    res = guarded(op + '(row)', lambda: mt.add_row_index(nn))
                else:
                    m2.col[nn] = hl.tint64
                    res = guarded(op + '(col)', lambda: mt.add_col_index(nn))
            elif op == 'explode_rows':
                arrs = [f for f in m.row if f not in m.row_key and isinstance(m.row[f], hl.tarray)]
                if arrs:
                    f = rng.choice(arrs)
                    m2.row[f] = m.row[f].element_type
                    res = guarded(op, lambda: mt.explode_rows(f))
                elif wide:
                    nn = fresh_name(rng, used, 'x')
                    if rng.random() < 0.4:
                        m2.row[nn] = hl.tstruct(arr=hl.tint32, z=hl.tint32)
                        res = guarded(op + '(nested)', lambda: (lambda mt1: mt1.explode_rows(mt1[nn].arr))(mt.annotate_rows(**{nn: hl.struct(arr=R(hl.range(2)), z=1)})))
                    else:
                        m2.row[nn] = hl.tint32
                        res = guarded(op, lambda: (lambda mt1: mt1.explode_rows(nn))(mt.annotate_rows(**{nn: R(hl.range(2))})))
            elif op == 'transmute_entries' and m.entry:
                f = rng.choice(list(m.entry))
                nn = fresh_name(rng, used)
                e = hl.tuple([mt[f], hl.is_missing(mt[f])])
                del m2.entry[f]
                m2.entry[nn] = e.dtype
                res = guarded(op, lambda: mt.transmute_entries(**{nn: e}))
            elif op in ('rows', 'cols', 'entries', 'localize'):
                if op == 'rows':
                    tm = TModel(m.g, m.row, m.row_key)
                    ok, tt = guarded(op, lambda: mt.rows())
                elif op == 'cols':
                    tm = TModel(m.g, m.col, m.col_key)
                    ok, tt = guarded(op, lambda: mt.cols())
                elif op == 'entries':
                    row = dict(m.row)
                    row.update(m.col)
                    row.update(m.entry)
                    tm = TModel(m.g, row, m.row_key + m.col_key)
                    ok, tt = guarded(op, lambda: mt.entries())
                else:
                    if 'ents' in used or 'colz' in used:
                        continue
                    row = dict(m.row)
                    row['ents'] = hl.tarray(hl.tstruct(**m.entry))
                    gg = dict(m.g)
                    gg['colz'] = hl.tarray(hl.tstruct(**m.col))
                    tm = TModel(gg, row, m.row_key)
                    ok, tt = guarded(op, lambda: mt.localize_entries('ents', 'colz'))
                if ok:
                    check_table(tt, tm, 'MatrixTable.' + op, final=True)
                    finish_program(tt._tir, True, 'matrix.' + op)
                    trace.append(op)
                    ctx.seen('matrix_ops_accepted', op)
                continue
            elif op == 'agg_exprs':
                ok, e = gen_at('entry', ['i32', 'f64'], allow_agg=False)
                ok2, er = gen_at('row', ['i32', 'f64'], allow_agg=False)
                ok3, ec = gen_at('col', ['i32', 'str'], allow_agg=False)
                for okk, ee, meth in ((ok, e, 'aggregate_entries'), (ok2, er, 'aggregate_rows'), (ok3, ec, 'aggregate_cols')):
                    if okk and rz:
                        ra = random_aggs(rng, hl, hl.int32(1))
                        a = rng.choice(sorted(ra))
                        okq, q = guarded('random agg', lambda: hl.struct(c=hl.agg.collect(ee), n=hl.agg.count(), r=ra[a]()))
                        if okq:
                            okr, r = guarded(meth + '(random query)', lambda: getattr(mt, meth)(q, _localize=False))
                            if okr:
                                ctx.count('contract_matrix_model')
                                ctx.count('actions_with_random_query')
                                if r.dtype != q.dtype:
                                    hook.pending.append((f'matrix/{meth}-expression-type', f'{meth} gives {r.dtype}, expected {q.dtype}', {}))
                                finish_program(r._ir, False, 'matrix.' + meth + '(random query)', rewritten=True)
                    elif okk:
                        okr, r = guarded(meth, lambda: getattr(mt, meth)(hl.struct(c=hl.agg.collect(ee), n=hl.agg.count()), _localize=False))
                        if okr:
                            ctx.count('contract_matrix_model')
                            want = hl.tstruct(c=hl.tarray(ee.dtype), n=hl.tint64)
                            if r.dtype != want:
                                hook.pending.append((f'matrix/{meth}-expression-type', f'{meth} gives {r.dtype}, expected {want}', {}))
                            finish_program(r._ir, False, 'matrix.' + meth)
                trace.append(op)
                continue
            if res is None:
                continue
            ok, mt2 = res
            if not ok:
                continue
            mt, m = mt2, m2
            trace.append(op)
            ctx.seen('matrix_ops_accepted', op)
            check_matrix(mt, m, op)
        sent_check_matrix(mt, 'the finished program', final=True)
        finish_program(mt._mir, True, phase)
        flush({'ops': trace, 'type': str(mt._mir.typ)[:300]}, (phase, tuple(trace), str(mt._mir.typ)), {'ops': trace, 'matrix_type': str(mt._mir.typ)[:800]})

    N = ctx.pick(80, 750)
    for i, rng in ctx.cases(N, 'matrix'):
        matrix_case(i, rng, False)
    N = ctx.pick(70, 450)
    for i, rng in ctx.cases(N, 'matrix-sent'):
        matrix_case(i, rng, True)

    # ---- phase nary: nodes that combine SEVERAL relational children ---------------------------------------------------
    # TableUnion / TableMultiWayZipJoin / MatrixUnionRows / MatrixUnionCols are typed from their FIRST child only (Python rule and engine
    # `typ` alike); that the other children have the same type is what the front-end METHOD has to establish (Table.union(unify=True)
    # re-selects every table onto the unified field list, casting numeric fields to the common type; the others compare and refuse) and
    # what the engine asserts in TypeCheck.scala (transcribed in vf/hail_relational_rules.py, evaluated on the emitted and on the rebuilt
    # tree).  The cases: 2..4 tables derived from one table whose value fields have the SAME NAMES but other -- unifiable -- numeric types
    # (int32 / int64 / float32 / float64, arrays of them), in the same or another field order, with missing / extra fields, with
    # unify True / False, either one as the receiver, some carrying seeded randomness; then expressions over the unified fields.
    NUMS = [hl.tint32, hl.tint64, hl.tfloat32, hl.tfloat64]
    RANK = {ty: k for k, ty in enumerate(NUMS)}

    def is_num(ty):
        return ty in RANK

    def is_numarr(ty):
        return isinstance(ty, hl.tarray) and ty.element_type in RANK

    def cast(e, ty):
        if isinstance(ty, hl.tarray):
            return e.map(lambda x: cast(x, ty.element_type))
        return {hl.tint32: hl.int32, hl.tint64: hl.int64, hl.tfloat32: hl.float32, hl.tfloat64: hl.float64}[ty](e)

    def unified(types):
        """what Table.union(unify=True) means for one field: the common type all can be coerced to, None if there is none"""
        ts = list(types)
        if all(x == ts[0] for x in ts):
            return ts[0]
        if all(is_num(x) for x in ts):
            return max(ts, key=lambda x: RANK[x])
        if all(is_numarr(x) for x in ts):
            return hl.tarray(max((x.element_type for x in ts), key=lambda x: RANK[x]))
        return None

    def derive_sibling(rng, t, key, fields, exact, keypos=False):
        """a table with the same key as `t` whose value fields are those of `t` re-typed / re-ordered / dropped / extended;
        returns (table, ordered {value field: type})"""
        s = t
        f2 = dict(fields)
        if keypos:
            s = s.select(*list(f2))       # same value fields, same order, same types: only the key moves to the front of the row
            ctx.count('nary_sibling_key_moved_only')
        elif not exact:
            for f, ty in fields.items():
                if rng.random() < 0.55:
                    if is_num(ty):
                        nt = rng.choice(NUMS)
                    elif is_numarr(ty):
                        nt = hl.tarray(rng.choice(NUMS))
                    else:
                        continue
                    if nt != ty:
                        s = s.annotate(**{f: cast(s[f], nt)})     # (an overwritten field keeps its position)
                        f2[f] = nt
            r = rng.random()
            names = list(f2)
            if r < 0.3 and len(names) > 1:
                rng.shuffle(names)
                s = s.select(*names)
                f2 = {f: f2[f] for f in names}
                ctx.count('nary_sibling_reordered')
            elif r < 0.45 and names:
                d = rng.choice(names)
                s = s.drop(d)
                del f2[d]
                ctx.count('nary_sibling_missing_field')
            elif r < 0.6:
                nn = 'x' + str(rng.randint(0, 3))
                if nn not in f2 and nn not in key:
                    ty = rng.choice(NUMS + [hl.tstr])
                    s = s.annotate(**{nn: hl.str('e') if ty == hl.tstr else cast(hl.int32(1), ty)})
                    f2[nn] = ty
                    ctx.count('nary_sibling_extra_field')
            elif r < 0.74 and names and list(t.row.dtype)[:len(key)] != list(key):
                # the same value fields in the same order, only the KEY moves to the front of the row (select re-lays the row out)
                s = s.select(*names)
                ctx.count('nary_sibling_key_moved_only')
            elif r < 0.8 and names:
                # a field that CANNOT be unified (str where the others have a number): the method has to refuse
                d = rng.choice(names)
                if f2[d] != hl.tstr:
                    s = s.annotate(**{d: hl.str('q')})
                    f2[d] = hl.tstr
        r = rng.random()
        if r < 0.25:
            s = s.filter(hl.rand_bool(0.7))
        elif r < 0.35:
            s = s.head(2)
        return s, f2

    def nary_table_case(i, rng):
        et.reset()
        et_sent.reset()
        trace = []
        n = rng.randint(2, 6)
        t = hl.utils.range_table(n)
        key = ['idx']
        keypos = rng.random() < 0.1          # the tables differ ONLY in where the key sits in the row
        if keypos or rng.random() < 0.3:
            t = t.key_by(ks=hl.str(t.idx))
            key = ['ks']
        # 1..3 numeric value fields (scalars and arrays), sometimes a string too
        fields = {}
        if key == ['ks']:
            fields['idx'] = hl.tint32
        kw = {}
        for j in range(rng.randint(1, 3)):
            ty = rng.choice(NUMS + NUMS + [hl.tarray(hl.tint32), hl.tarray(hl.tfloat64)])
            kw[f'v{j}'] = cast(t.idx + j, ty.element_type if isinstance(ty, hl.tarray) else ty) if not isinstance(ty, hl.tarray) else cast(hl.range(t.idx % 3), ty)
            fields[f'v{j}'] = ty
        if rng.random() < 0.3:
            kw['s'] = hl.str(t.idx)
            fields['s'] = hl.tstr
        ok, t = guarded('annotate', lambda: t.annotate(**kw))
        if not ok:
            flush(None, ('nary-source-rejected', i), {})
            return
        keyt = {k: t[k].dtype for k in key}
        m = TModel({}, {**keyt, **fields}, key)
        check_table(t, m, 'nary source')
        kind = rng.choice(['union', 'union', 'union', 'union', 'mwzj'])
        unify = kind == 'union' and rng.random() < 0.75
        exact = kind == 'union' and not unify and rng.random() < 0.6       # without unify only identical row types are accepted
        if kind == 'mwzj':
            exact = rng.random() < 0.6
        if keypos:
            kind, unify, exact = 'union', rng.random() < 0.8, True
        tables = [(t, dict(fields))]
        for _k in range(rng.choice([1, 1, 2, 3])):
            ok, sib = guarded('sibling', lambda: derive_sibling(rng, t, key, fields, exact, keypos))
            if ok:
                tables.append(sib)
        if len(tables) < 2:
            flush(None, ('nary-no-siblings', i), {})
            return
        rng.shuffle(tables)                                              # either one is the receiver
        tabs = [x for x, _ in tables]
        fss = [f for _, f in tables]
        rows_equal = all(x.row.dtype == tabs[0].row.dtype for x in tabs)                 # (field order of the whole row included)
        values_equal = all(list(f.items()) == list(fss[0].items()) for f in fss)        # what `union` looks at: row_value.dtype
        key_position_only = values_equal and not rows_equal
        if key_position_only and kind == 'union' and unify:
            ctx.count('unions_unify_over_tables_that_differ_only_in_key_position')
            if not UNION_KEY_POSITION_IN_WORKLOAD:
                flush({'ops': ['union(unify=True): key position only (switched off)']}, ('nary-key-position-switched-off', i), {})
                return
        nary_start = len(hook.pending)
        names = []
        for f in fss:
            names += [k for k in f if k not in names]
        uni = {k: unified([f[k] for f in fss if k in f]) for k in names}
        ctx.count('nary_cases')
        if kind == 'union':
            expect_ok = rows_equal or (unify and all(v is not None for v in uni.values()))
            m2 = TModel({}, {**keyt, **(fss[0] if values_equal else uni)}, key)
            widening = any(len({f[k] for f in fss if k in f}) > 1 for k in names)
            conforming_other_type = unify and not values_equal and any(list(f) == names and any(f[k] != uni[k] for k in names) for f in fss)
            ok, u = guarded(f'union(unify={unify})', lambda: tabs[0].union(*tabs[1:], unify=unify))
            what = f'union(unify={unify})'
        else:
            expect_ok = rows_equal
            m2 = TModel({'mw_gl': hl.tarray(hl.tstruct())}, {**keyt, 'mw_data': hl.tarray(hl.tstruct(**fss[0]))}, key)
            widening = conforming_other_type = False
            ok, u = guarded('multi_way_zip_join', lambda: hl.Table.multi_way_zip_join(tabs, 'mw_data', 'mw_gl'))
            what = 'multi_way_zip_join'
        ctx.count(f'nary_{kind}_{"accepted" if ok else "refused"}')
        if ok != expect_ok:
            # (not a type disagreement by itself: recorded; an ACCEPTED combination the engine cannot type is what the rules catch)
            ctx.count('nary_acceptance_differs_from_documented_meaning')
            ctx.seen('nary_acceptance_surprises', f'{what}: accepted={ok}, rows_equal={rows_equal}, unifiable={all(v is not None for v in uni.values())}')
        if not ok:
            trace.append(what + ':refused')
            flush({'ops': trace}, ('nary', tuple(trace), str([list(f.items()) for f in fss])[:300]), {'ops': trace})
            return
        trace.append(what)
        if kind == 'union':
            ctx.count(f'unions_accepted:unify={unify}')
            if len(tabs) > 2:
                ctx.count('unions_of_3plus_tables')
            if not values_equal:
                ctx.count('unions_over_different_row_types')
                if widening:
                    ctx.count('unions_with_numeric_widening')
                if conforming_other_type:
                    ctx.count('unions_where_a_table_has_the_unified_names_and_order_but_another_numeric_type')
                if any(list(f) != names for f in fss):
                    ctx.count('unions_with_reordered_missing_or_extra_fields')
                if any(fss[0].get(k) != uni[k] for k in names):
                    ctx.count('unions_whose_receiver_needs_casting')
        elif not rows_equal:
            ctx.count('nary_mwzj_accepted_over_different_row_types')
        check_table(u, m2 if expect_ok else None, what)
        # expressions over the unified fields: their reported types rest on the reported row type of the n-ary node
        if kind == 'union':
            cand = [k for k in names if k in u.row.dtype and (is_num(u[k].dtype) or is_numarr(u[k].dtype))]
            if cand:
                f = rng.choice(cand)
                ty = m2.row.get(f, u[f].dtype)
                m3 = m2.copy()
                m3.row['dn'] = ty
                m3.row['dd'] = hl.tbool

                def _down(u=u, f=f):
                    e = u[f].map(lambda x: x + 1) if isinstance(u[f].dtype, hl.tarray) else u[f] + 1
                    return u.annotate(dn=e, dd=hl.is_defined(u[f]))

                ok, u2 = guarded('annotate(over unified field)', _down)
                if ok:
                    ctx.count('unions_downstream_over_unified_field')
                    u = u2
                    trace.append('downstream')
                    check_table(u, m3 if expect_ok else None, 'annotate over the unified field')
        r = rng.random()
        if r < 0.4:
            ok, u2 = guarded('filter', lambda: u.filter(hl.rand_bool(0.5)))
        elif r < 0.7:
            ok, u2 = guarded('annotate', lambda: u.annotate(rr=hl.rand_unif(0.0, 1.0)).drop('rr'))
        else:
            ok, u2 = False, None
        if ok:
            u = u2
            trace.append('random consumer')
        sent_check_table(u, 'the finished program', final=True)
        finish_program(u._tir, True, 'nary')
        if key_position_only and kind == 'union' and unify:
            for j in range(nary_start, len(hook.pending)):
                k, w, wit = hook.pending[j]
                if 'TableUnion-engine-rule-rejects' in k:
                    hook.pending[j] = ('relational/TableUnion-children-differ-in-key-position-after-union-unify', f'{w} [symptom: {k}]', wit)
        flush({'ops': trace, 'type': str(u._tir.typ)[:300]}, ('nary', tuple(trace), str(u._tir.typ)), {'ops': trace, 'tables': [str(list(f.items())) for f in fss], 'table_type': str(u._tir.typ)[:800]})

    def nary_matrix_case(i, rng):
        et.reset()
        et_sent.reset()
        trace = []
        mt = hl.utils.range_matrix_table(rng.randint(1, 3), rng.randint(1, 3))
        ty = {'e1': rng.choice(NUMS), 'c1': rng.choice(NUMS), 'r1': rng.choice(NUMS)}

        def build(mt, ty):
            mt = mt.annotate_entries(e1=cast(mt.row_idx + mt.col_idx, ty['e1']))
            mt = mt.annotate_cols(c1=cast(mt.col_idx, ty['c1']))
            return mt.annotate_rows(r1=cast(mt.row_idx, ty['r1']))

        ok, mt = guarded('build', lambda: build(mt, ty))
        if not ok:
            flush(None, ('nary-matrix-source-rejected', i), {})
            return
        m = MModel({}, {'row_idx': hl.tint32, 'r1': ty['r1']}, {'col_idx': hl.tint32, 'c1': ty['c1']}, {'e1': ty['e1']}, ['row_idx'], ['col_idx'])
        check_matrix(mt, m, 'nary matrix source')
        kind = rng.choice(['union_rows', 'union_cols'])
        sibs = []
        for _k in range(rng.choice([1, 1, 2]) if kind == 'union_rows' else 1):
            ty2 = dict(ty)
            for f in ty2:
                if rng.random() < 0.4:
                    ty2[f] = rng.choice(NUMS)

            def sib(ty2=ty2):
                s_ = mt
                for f, ann in (('e1', 'annotate_entries'), ('c1', 'annotate_cols'), ('r1', 'annotate_rows')):
                    if ty2[f] != ty[f]:
                        s_ = getattr(s_, ann)(**{f: cast(s_[f], ty2[f])})
                if rng.random() < 0.3:
                    s_ = s_.filter_rows(hl.rand_bool(0.7))
                return s_

            ok, s_ = guarded('sibling', sib)
            if ok:
                sibs.append((s_, ty2))
        if not sibs:
            flush(None, ('nary-matrix-no-siblings', i), {})
            return
        ctx.count('nary_cases')
        tables = [(mt, ty)] + sibs
        rng.shuffle(tables)
        tys = [x for _, x in tables]
        mts = [x for x, _ in tables]
        first = tys[0]
        m2 = MModel({}, {'row_idx': hl.tint32, 'r1': first['r1']}, {'col_idx': hl.tint32, 'c1': first['c1']}, {'e1': first['e1']}, ['row_idx'], ['col_idx'])
        if kind == 'union_rows':
            # union_rows compares row types, entry types and col KEY types (column VALUE fields may differ: the first table's are kept)
            expect_ok = all(x['r1'] == first['r1'] and x['e1'] == first['e1'] for x in tys)
            ok, u = guarded(kind, lambda: hl.MatrixTable.union_rows(*mts, _check_cols=False))
        else:
            # union_cols compares entry types, col types and row KEY types (the right table's row VALUE fields are dropped)
            expect_ok = all(x['c1'] == first['c1'] and x['e1'] == first['e1'] for x in tys)
            ok, u = guarded(kind, lambda: mts[0].union_cols(mts[1], row_join_type=rng.choice(['inner', 'outer'])))
        ctx.count(f'nary_{kind}_{"accepted" if ok else "refused"}')
        if ok != expect_ok:
            ctx.count('nary_acceptance_differs_from_documented_meaning')
            ctx.seen('nary_acceptance_surprises', f'{kind}: accepted={ok}, types={[sorted((k, str(v)) for k, v in x.items()) for x in tys]}'[:200])
        if not ok:
            trace.append(kind + ':refused')
            flush({'ops': trace}, ('nary', tuple(trace), str(tys)[:300]), {'ops': trace})
            return
        trace.append(kind)
        if any(x != first for x in tys):
            ctx.count(f'nary_{kind}_accepted_over_tables_that_differ_in_a_field_the_method_need_not_compare')
        check_matrix(u, m2 if expect_ok else None, kind)
        ok, u2 = guarded('annotate_entries(over unified field)', lambda: u.annotate_entries(dn=u.e1 + 1, dr=u.r1 + 1, dc=u.c1 + 1))
        if ok:
            m3 = copy.deepcopy(m2)
            m3.entry.update({'dn': first['e1'], 'dr': first['r1'], 'dc': first['c1']})
            u = u2
            trace.append('downstream')
            check_matrix(u, m3 if expect_ok else None, 'annotate_entries over the unified fields')
        if rng.random() < 0.5:
            ok, u2 = guarded('filter_entries', lambda: u.filter_entries(hl.rand_bool(0.5)))
            if ok:
                u = u2
                trace.append('random consumer')
        sent_check_matrix(u, 'the finished program', final=True)
        finish_program(u._mir, True, 'nary')
        flush({'ops': trace, 'type': str(u._mir.typ)[:300]}, ('nary', tuple(trace), str(u._mir.typ)), {'ops': trace, 'matrix_type': str(u._mir.typ)[:800]})

    N = ctx.pick(100, 800)
    for i, rng in ctx.cases(N, 'nary'):
        if rng.random() < 0.78:
            nary_table_case(i, rng)
        else:
            nary_matrix_case(i, rng)

    # ---- phase primop: every primitive operator over every primitive operand type -------------------------------------
    # ApplyUnaryPrimOp / ApplyBinaryPrimOp / ApplyComparisonOp are typed twice on the Python side (the function that builds the expression
    # and the node's `_compute_type`), and the two can agree with each other and still differ from the ENGINE's table (UnaryOp.scala /
    # BinaryOp.scala / ComparisonOp.scala): M9 judges every such node -- at construction, in finished emitted programs and in the rebuilt
    # trees -- against the transcribed table.  This phase applies every operator the API offers (negation, logical not, bit_not, bit_count,
    # bit_and / or / xor, the three shifts, + - * / //, the six comparisons; ** and % which are functions, for the coercions around them) to
    # bool / int32 / int64 / float32 / float64 operands that are table fields, typed literals and plain Python numbers (ints outside the
    # int32 range, floats, bools), in both operand orders, then uses the results: as table fields, added to an int64 / multiplied by a
    # float64 / compared / bit-counted again.
    def primop_case(i, rng):
        et.reset()
        et_sent.reset()
        t = hl.utils.range_table(rng.randint(1, 6))
        ok, t = guarded('annotate', lambda: t.annotate(b=t.idx > 1, i32=t.idx * 3, i64=hl.int64(t.idx) + 2**33, f32=hl.float32(t.idx), f64=hl.float64(t.idx) / 3))
        if not ok:
            flush(None, ('primop-source-rejected', i), {})
            return
        m = TModel({}, {'idx': hl.tint32, 'b': hl.tbool, 'i32': hl.tint32, 'i64': hl.tint64, 'f32': hl.tfloat32, 'f64': hl.tfloat64}, ['idx'])
        check_table(t, m, 'primop source')
        kinds = ['b', 'i32', 'i64', 'f32', 'f64']

        def operand(k):
            """an operand of primitive kind k: a field, a typed literal expression, or a plain Python value the front end has to type"""
            c = {'b': [lambda: t.b, lambda: hl.bool(True), lambda: True, lambda: ~t.b],
                 'i32': [lambda: t.i32, lambda: hl.int32(5), lambda: 7, lambda: -3, lambda: t.idx + 1],
                 'i64': [lambda: t.i64, lambda: hl.int64(9), lambda: 2**40, lambda: -(2**35) - 1, lambda: hl.literal(2**62), lambda: hl.int64(t.idx)],
                 'f32': [lambda: t.f32, lambda: hl.float32(2.5)],
                 'f64': [lambda: t.f64, lambda: hl.float64(0.5), lambda: 1.5, lambda: t.f64 * 2]}[k]
            return rng.choice(c)()

        unary = {'neg': lambda a: -a, 'not': lambda a: ~a, 'bit_not': lambda a: hl.bit_not(a), 'bit_count': lambda a: hl.bit_count(a), 'abs_neg': lambda a: -(-a)}
        binary = {'add': lambda a, b: a + b, 'sub': lambda a, b: a - b, 'mul': lambda a, b: a * b, 'truediv': lambda a, b: a / b, 'floordiv': lambda a, b: a // b,
                  'pow': lambda a, b: a ** b, 'mod': lambda a, b: a % b,
                  'bit_and': lambda a, b: hl.bit_and(a, b), 'bit_or': lambda a, b: hl.bit_or(a, b), 'bit_xor': lambda a, b: hl.bit_xor(a, b),
                  'bit_lshift': lambda a, b: hl.bit_lshift(a, b), 'bit_rshift': lambda a, b: hl.bit_rshift(a, b), 'bit_rshift_logical': lambda a, b: hl.bit_rshift(a, b, logical=True),
                  'lt': lambda a, b: a < b, 'le': lambda a, b: a <= b, 'gt': lambda a, b: a > b, 'ge': lambda a, b: a >= b, 'eq': lambda a, b: a == b, 'ne': lambda a, b: a != b,
                  'and': lambda a, b: a & b, 'or': lambda a, b: a | b}
        results = []
        trace = []

        def apply(name, f, ks):
            def go():
                args = [operand(k) for k in ks]
                if not any(isinstance(a, hl.expr.Expression) for a in args):
                    args[0] = hl.expr.expressions.to_expr(args[0])       # (Python-only operands would be computed by Python)
                return hl.expr.expressions.to_expr(f(*args))
            ok, r = guarded(name, go)
            ctx.count('primop_applications_' + ('accepted' if ok else 'refused'))
            if ok and r.dtype in (hl.tbool, hl.tint32, hl.tint64, hl.tfloat32, hl.tfloat64):
                ctx.seen('primop_api_combinations_accepted', f'{name}({",".join(ks)})->{r.dtype}')
                results.append((f'{name}_{"_".join(ks)}', r))
                trace.append(f'{name}({",".join(ks)})')

        for name, f in unary.items():                       # every unary operator over every operand kind
            for k in kinds:
                apply(name, f, [k])
        combos = [(name, a, b) for name in binary for a in kinds for b in kinds]
        for name, a, b in rng.sample(combos, 45):           # a sample of the binary cross product (all of it over a few cases)
            apply(name, binary[name], [a, b])
        # downstream uses: the reported type of the result is what the next operator / the table field is typed from
        kw = {}
        m2 = m.copy()
        for j, (label, r) in enumerate(rng.sample(results, min(len(results), 14))):
            uses = [('', lambda r=r: r)]
            if r.dtype in (hl.tint32, hl.tint64):
                uses += [('_plus_i64', lambda r=r: r + hl.int64(1)), ('_i64_times', lambda r=r: hl.int64(5) * r), ('_bc', lambda r=r: hl.bit_count(r)), ('_bc_plus_i64', lambda r=r: hl.bit_count(r) + t.i64),
                         ('_shl', lambda r=r: hl.bit_lshift(r, 2)), ('_cmp', lambda r=r: r < t.i64), ('_not', lambda r=r: hl.bit_not(r) + r)]
            if r.dtype in (hl.tfloat32, hl.tfloat64, hl.tint32, hl.tint64):
                uses += [('_times_f64', lambda r=r: r * hl.float64(0.5)), ('_neg', lambda r=r: -r), ('_div', lambda r=r: r / 2), ('_arr', lambda r=r: hl.sum([r, r]))]
            if r.dtype == hl.tbool:
                uses += [('_notb', lambda r=r: ~r), ('_if', lambda r=r: hl.if_else(r, t.i64, hl.int64(0)))]
            for suffix, u in rng.sample(uses, min(len(uses), 3)):
                ok, e = guarded('downstream' + suffix, lambda: hl.expr.expressions.to_expr(u()))
                if ok:
                    nm = f'p{j}_{label}{suffix}'[:60]
                    kw[nm] = e
                    m2.row[nm] = e.dtype
                    ctx.count('primop_downstream_uses')
        ok, t2 = guarded('annotate(primitive results)', lambda: t.annotate(**kw))
        if ok:
            ctx.count('primop_tables_annotated')
            check_table(t2, m2, 'annotate(primitive results)')
            t = t2
            if rng.random() < 0.5:
                ok, t3 = guarded('filter', lambda: t.filter(hl.rand_bool(0.5)))
                if ok:
                    t = t3
            ok, r = guarded('Table.aggregate', lambda: t.aggregate(hl.struct(**{k: hl.agg.collect(t[k]) for k in list(kw)[:6]}), _localize=False))
            if ok:
                finish_program(r._ir, False, 'primop.aggregate')
        sent_check_table(t, 'the finished program', final=True)
        finish_program(t._tir, True, 'primop')
        flush({'ops': trace[:40], 'type': str(t._tir.typ)[:300]}, ('primop', tuple(trace), str(t._tir.typ)), {'ops': trace[:60], 'table_type': str(t._tir.typ)[:800]})

    N = ctx.pick(40, 320)
    for i, rng in ctx.cases(N, 'primop'):
        primop_case(i, rng)

    hook.uninstall()
    del backend.matrix_type


def _plain(v):
    """decoded values use hail's frozen containers; bring both sides to plain Python containers"""
    from hail.utils import Interval, Struct

    try:
        from hail.utils.frozendict import frozendict
    except Exception:  # pragma: no cover
        frozendict = ()
    if isinstance(v, Struct):
        return Struct(**{k: _plain(v[k]) for k in v})
    if isinstance(v, (list,)):
        return [_plain(x) for x in v]
    if isinstance(v, tuple):
        return tuple(_plain(x) for x in v)
    if isinstance(v, (set, frozenset)):
        return set(_plain_h(x) for x in v)
    if isinstance(v, dict) or (frozendict and isinstance(v, frozendict)):
        return {_plain_h(k): _plain(x) for k, x in v.items()}
    if isinstance(v, Interval):
        return Interval(_plain(v.start), _plain(v.end), v.includes_start, v.includes_end, point_type=v.point_type)
    return v


def _plain_h(v):
    """hashable variant"""
    from hail.utils import Struct

    if isinstance(v, (list, tuple)):
        return tuple(_plain_h(x) for x in v)
    if isinstance(v, (set, frozenset)):
        return frozenset(_plain_h(x) for x in v)
    if isinstance(v, Struct):
        return v
    return v


# -------------------------------------------------------------------------------------------------
# Validation record (scratch worktree /tmp/scratch-ir = HEAD + proposed fixes, quick tier, seed 0; worktree removed afterwards)
#
# Genuine defect found on the UNCHANGED tree (phase literal-corners every run; phase literal occasionally):
#   literal/accepted-literal-cannot-be-encoded
#       hl.literal([{'k': hl.Struct()}, {'j': hl.Struct()}])  -> accepted with dtype array<struct{j: struct{}, k: struct{}}>, rendering the
#       literal raises KeyError 'j'.  _impute_type tests `if not unified_value_type:` / `if not unified_type:`; tstruct() and
#       ttuple() are falsy (len 0), so dict<str, struct{}> is imputed as a struct (and {hl.Struct()} is rejected as "heterogeneous").
#       fix: /verif/proposed_fixes/C36-impute-type-treats-fieldless-struct-or-tuple-type-as-no-type.diff ; with it: HELD, seeds 0..4.
#
# Not violations, but observed and recorded in the evidence (facility `compute_type(..., deep_typecheck=True)` is never used by the
# front end and is itself broken, which is why M2 walks the IR with child_context instead):
#   * StreamAgg._compute_type hands `_env_bind(env, self.bindings(1))` (only agg_capability) down as agg env: every aggregated Ref is
#     "not found"; * MakeArray._compute_type indexes args[0] of an empty array; * the untyped inner TopLevelReference of t.f caches the
#     first row type it is checked against.  * HailType.typecheck descends into missing compound values ('NoneType' is not iterable).
#
# Breaks tried on top of the fixed tree, one at a time:
#   B1  _bin_op_numeric declares int32 for int32 * float64                       -> CAUGHT  internal-type-assertion/assign_type/ApplyBinaryPrimOp
#   B2a Table.__init__ keeps only the first key field in the wrapper (stale key)  -> CAUGHT  table/wrapper-key-type-differs-from-ir (+ model)
#   B2b TableKeyBy._compute_type keeps the child's key for key_by()               -> CAUGHT  table/key_by_none-key-schema-differs-from-meaning
#   B3  (own) StructExpression.annotate declares an overwritten field moved last  -> CAUGHT  internal-type-assertion/assign_type/InsertFields
#   B4  (own, subtle) impute_type gives float32 for Python floats (value still passes the per-level check)
#                                                                                 -> CAUGHT  literal/encoding-does-not-decode-to-value,
#                                                                                            literal/primitive-literal-node-does-not-carry-value
#   B6  (own, subtle) TableLeftJoinRightDistinct types other[t.k] with the right table's whole row: wrapper, IR and model all agree
#       after cleanup; first version caught it only through the triaged deep typecheck; the Projected/SelectedTopLevelReference check
#       in Walker was added because of it                                         -> CAUGHT  ref/field-type-differs-from-relational-binder
#   B7  (own) MatrixEntriesTable forgets the column key                            -> CAUGHT  table/MatrixTable.entries-key-schema-differs-from-meaning
# -------------------------------------------------------------------------------------------------
#
# -------------------------------------------------------------------------------------------------
# M6 (engine-rule transcription, vf/hail_relational_rules.py) -- validation record
# (scratch worktree /var/tmp/c36-break = /repo HEAD, quick tier, seed 0, one break at a time; worktree removed afterwards)
#
# Relational node classes with a transcribed rule (those met by the workload are marked *):
#   TableRange* TableParallelize* TableKeyBy* TableFilter* TableHead* TableTail TableRepartition TableDistinct* TableFilterIntervals
#   TableUnion* TableJoin* TableIntervalJoin TableMultiWayZipJoin TableLeftJoinRightDistinct* TableMapPartitions TableMapRows*
#   TableMapGlobals* TableExplode* MatrixRowsTable* MatrixColsTable* MatrixEntriesTable* TableKeyByAndAggregate* TableAggregateByKey*
#   TableOrderBy* CastMatrixToTable* TableRename* TableToTableApply(TableFilterPartitions)
#   MatrixRead(MatrixRangeReader, uids dropped)* MatrixFilterCols* MatrixFilterRows* MatrixFilterEntries* MatrixChooseCols
#   MatrixCollectColsByKey MatrixAggregateRowsByKey* MatrixAggregateColsByKey* MatrixUnionCols(*) MatrixMapEntries* MatrixKeyRowsBy*
#   MatrixMapRows* MatrixMapCols* MatrixMapGlobals* MatrixAnnotateColsTable MatrixAnnotateRowsTable MatrixExplodeRows* MatrixExplodeCols
#   MatrixRepartition MatrixUnionRows MatrixDistinctByRow MatrixRows/ColsHead MatrixRows/ColsTail CastTableToMatrix MatrixRename*
#   MatrixFilterIntervals MatrixToMatrixApply(MatrixFilterPartitions)
#   value IR along the struct spine: MakeStruct SelectFields(+SelectedTopLevelReference) InsertFields GetField(+ProjectedTopLevelReference)
#   Let Ref/TopLevelReference(row, global, va, sa, g) TableGetGlobals TableCollect
# Not transcribed (recorded in `relational_rule_not_transcribed` when met, never judged; none is met by the present workload):
#   TableRead, MatrixRead with any other reader or with uids kept, TableGen, TableToTableApply / MatrixToMatrixApply with other
#   functions, MatrixToTableApply, BlockMatrixToTableApply, BlockMatrixToTable, JavaTable / JavaMatrix.
#
# GENUINE disagreement between the Python rule and the engine rule, found by reading and witnessed with VERIF_C36_UNION_COLS=1
# on the UNCHANGED tree (7 witnesses in quick seed 0; the only key that fires):
#   relational/MatrixUnionCols-type-differs-from-engine-rule
#       mt = range_matrix_table(3, 2); mt = mt.annotate_rows(b=hl.str(mt.row_idx)).key_rows_by('b'); u = mt.union_cols(mt)
#       Python: MatrixUnionCols._compute_type -> row_type = left.row_type ++ right.row_value_type          = struct{row_idx, b}
#       engine: MatrixIR.scala MatrixUnionCols.newRowType = leftKeyType ++ leftValueType ++ rightValueType = struct{b, row_idx}
#       (and LowerMatrixIR lowers it to a TableJoin, whose row is laid out keys first).  Whenever the left row key is not the leading
#       prefix of the left row struct the front end reports -- and later decodes results with (Backend.execute: ir.typ._from_encoding)
#       -- a row struct whose field ORDER is not the engine's.  Same mechanism as the TableJoin layout contract.
#       fix: /verif/proposed_fixes/C36-MatrixUnionCols-row-type-keeps-left-field-order.diff ; with it and the switch on: HELD.
#       The switch is OFF by default so that the unchanged tree stays silent until the repair / known finding is registered.
# All other Python rules agree with the Scala rules on everything generated (quick + thorough, seeds 0..4); by reading, the
# remaining textual differences (`_insert_field` where Scala uses `appendKey` in TableIntervalJoin / CastMatrixToTable /
# MatrixAnnotateRowsTable) only matter for a root name that already exists, where the engine asserts instead of typing.
#
# Breaks (each in the scratch worktree; "only M6" = no other contract of this monitor sees it):
#   R1  seeded/C36-agent2: TableJoin row = left.row_type ++ right.value_type            -> CAUGHT relational/TableJoin-... (+ the `_join` one-off)
#   R2  TableKeyBy._compute_type keeps the child's key                                    -> CAUGHT relational/TableKeyBy-... (+ table/*-key-schema-differs-from-meaning)
#   R3a tstruct._insert_fields moves an overwritten field last (IR rule only)             -> CAUGHT internal-type-assertion/assign_type/InsertFields, relational/TableExplode-...
#   R3b the same in StructExpression.annotate too (wrapper and IR rule agree with each other, Table.annotate / annotate_globals /
#       MatrixTable.annotate_* put an overwritten field last)                             -> CAUGHT relational/TableMapRows-..., TableMapGlobals, MatrixMapRows/Cols/Entries/Globals   (only M6)
#   R4  TableExplode keeps the array type                                                 -> CAUGHT relational/TableExplode-... (+ table/explode-row-schema-differs-from-meaning)
#   R5a MatrixEntriesTable key drops the column key / R5b column key first                -> CAUGHT relational/MatrixEntriesTable-... (key) (+ table/MatrixTable.entries-key-schema-...)
#   R5c MatrixEntriesTable row = col fields ++ row fields ++ entry fields                 -> CAUGHT relational/MatrixEntriesTable-... (row)   (only M6)
#   R6a MatrixAggregateRowsByKey row = aggregations ++ key                                -> CAUGHT relational/MatrixAggregateRowsByKey-...   (only M6; needed aggregate_rows in the workload)
#   R6b MatrixKeyRowsBy keeps the old key / R6d MatrixMapCols ignores new_key             -> CAUGHT relational/MatrixKeyRowsBy-..., relational/MatrixMapCols-... (+ matrix/key_*-schema-...)
#   R6c CastMatrixToTable puts the entries field first                                    -> CAUGHT relational/CastMatrixToTable-...          (only M6)
#   R7  tstruct._select_fields returns the fields in struct order (ttable.key_type ...)   -> CAUGHT relational/TableAggregateByKey-... (+ wrapper-key-type, SelectFields assertion)
#   R8  tstruct._rename sorts the fields                                                  -> CAUGHT relational/TableRename-..., relational/MatrixRename-...   (only M6)
#   R9  TableLeftJoinRightDistinct puts the joined root first                             -> CAUGHT relational/TableLeftJoinRightDistinct-...  (only M6)
#   R10 TableKeyByAndAggregate row = aggregations ++ key                                  -> CAUGHT relational/TableKeyByAndAggregate-...      (only M6)
#   (R6b / R6d used to crash the shard: the broken front end raises LookupError 'no field'; REJECT now takes LookupError)
# -------------------------------------------------------------------------------------------------
#
# -------------------------------------------------------------------------------------------------
# M7 (the IR that is SENT at an action: handle_randomness rewrites) -- validation record
# (scratch worktree /tmp/c36w/scratch = /repo HEAD, quick tier, seed 0, one break at a time; worktree removed afterwards)
#
# Why: seeded/C36-agent8 (TableIntervalJoin._handle_randomness rebuilds the node without `product`) passed the monitor: no generated
# pipeline contained seeded randomness, so `handle_randomness(None)` always returned the emitted tree itself, no interval-keyed
# Table.index(..., all_matches=True) was generated, and nothing compared the REBUILT tree with the reported type.  Also: the engine typer
# took the joined field's type from the front end (ir.Join was opaque to the struct spine; now it is read through, as it renders).
#
# GENUINE disagreements found by M7 on the tree as it was (/repo b3860ceef).  All three are REPAIRED since (`fix:` commits d23e4a0f0 G1,
# bacf59513 G2, 79ba8d367 G3) and their patterns are in the default workload; the classifier still attributes a witness that has the
# shape of one of them, in a pipeline that contains the pattern, to the key below (a regression of a repair is named as such).
# Re-validated after the repairs (quick tier): on a scratch worktree of b3860ceef all three keys fire for seeds 0, 1 and 2
# (G1 78-166, G2 112-140, G3 38-148 witnesses per run); on HEAD the hand-written witnesses below give exactly the reported type
# (engine rules over the rebuilt tree: no finding, no difference without uids, only the requested `__row_uid` with one) and seeds 0..4 HOLD.
#   G1  sent-ir/uid-field-leaks-into-reported-type/TableMultiWayZipJoin            (switch VERIF_C36_MULTI_WAY_ZIP_JOIN)
#       t = hl.utils.range_table(4).annotate(a=1); z = hl.Table.multi_way_zip_join([t, t], 'data', 'g'); z = z.filter(hl.rand_bool(.5))
#       reported z.row: struct{idx, data: array<struct{a}>}; TableCollect(z._tir).child / .typ: data: array<struct{a, __uid: tuple(int64,int64)}>.
#       TableMultiWayZipJoin._handle_randomness(uid) inserts the uid as a VALUE field into every child, and the zip join's `data` is the
#       array of the children's value structs.  Any consumer that needs row uids (random filter / annotate / sample / keyed aggregation)
#       above a multi_way_zip_join sends a table whose data elements carry an extra field (and the parent nodes keep the cached type).
#   G2  sent-ir/uid-field-leaks-into-reported-type/MatrixEntriesTable              (switch VERIF_C36_ENTRIES_UNDER_RANDOMNESS)
#       mt = hl.utils.range_matrix_table(3, 2); e = mt.entries().filter(hl.rand_bool(.5))        (also .sample(p))
#       reported e.row: struct{row_idx, col_idx}; TableCollect(e._tir).typ rows: struct{row_idx, col_idx, __col_uid: int64}.
#       MatrixEntriesTable._handle_randomness(uid) asks its child for (temp row uid, `__col_uid`), drops the temp row uid and never drops
#       `__col_uid`; the TableFilter above only drops the uid it asked for (a TableMapRows consumer, e.g. annotate, re-selects the
#       fields it knows by name and hides the left-over field -- which is why only filter / sample DIRECTLY on the view show it).
#   G3  sent-ir/TableKeyByAndAggregate-random-key-rewrite-replaces-aggregations    (switch VERIF_C36_RANDOM_GROUP_KEY)
#       t = hl.utils.range_table(4); g = t.group_by(k=hl.rand_bool(.5)).aggregate(n=hl.agg.count())
#       reported g.row: struct{k: bool, n: int64}; the node sent is TableKeyByAndAggregate(child, expr = Let(__rng_state, ..., NEW_KEY), new_key):
#       `_handle_randomness` ends with `expr = ir.Let('__rng_state', ..., new_key)` (should assign `new_key`), so the aggregations are
#       gone: TableCollect of the rebuilt node is typed rows: array<struct{k: bool}> by the front end itself, and the engine's
#       `keyType ++ expr.typ` (key ++ key) rejects the overlap.
# Not a defect (looked at because the shape is similar): TableAggregate / TableKeyByAndAggregate / TableAggregateByKey with a random
# aggregation let `row` refer to the child row INCLUDING the uid field; `t.row` renders as (SelectFields (f ...) (Ref row)), so no value can
# pick the uid up -- the sent-mode walk tolerates exactly that (a binder that only adds fields to a struct that is projected from) and
# flags a whole-struct use (`ref/whole-struct-reference-sees-fields-added-by-the-rewrite`).  MatrixExplodeRows / MatrixExplodeCols
# `_handle_randomness` forget a `return` in their no-uid branch; the fall-through happens to build the same node.
#
# Breaks (each in the scratch worktree; all CAUGHT in the quick tier, seed 0):
#   S1  seeded/C36-agent8: TableIntervalJoin._handle_randomness drops `product`     -> sent-ir/relational/TableMapRows-type-differs-from-engine-rule,
#                                                                                      sent-ir/ref/field-type-differs-from-relational-binder (+ relational/TableMapRows-..., ref/..., deep-typecheck
#                                                                                      through Table.collect(_localize=False) of the finished program)
#   S2  MatrixAnnotateRowsTable._handle_randomness drops `product`                   -> sent-ir/relational/MatrixMapRows-type-differs-from-engine-rule, sent-ir/ref/field-type-differs-...
#   S3  MatrixMapCols._handle_randomness (random branch) passes new_key=None        -> sent-ir/matrix-type-differs-from-reported-type, sent-ir/relational/MatrixMapCols-..., ...
#   S4  TableLeftJoinRightDistinct._handle_randomness asks the RIGHT side for the uid too (joined struct carries it)
#                                                                                   -> sent-ir/relational/TableMapRows-type-differs-from-engine-rule, sent-ir/ref/field-type-differs-...
#   S5  MatrixFilterRows._handle_randomness never drops the row uid it asked for    -> sent-ir/uid-field-leaks-into-reported-type, sent-ir/ref/whole-struct-reference-sees-fields-added-by-the-rewrite, ...
#   S6  TableKeyBy._handle_randomness keeps only the first key field                -> sent-ir/table-type-differs-from-reported-type, sent-ir/relational/TableMapRows-..., ...
#   S7  TableRename._handle_randomness drops the global map                          -> sent-ir/table-type-differs-from-reported-type, sent-ir/relational/TableMapGlobals-engine-rule-rejects-rebuilt-node
#       (needed rename of a GLOBAL field in the workload: added)
#   earlier seeds C36-agent2 / agent4 / agent6: still caught (same keys as before, plus their sent-ir/ twins).
# -------------------------------------------------------------------------------------------------
#
# -------------------------------------------------------------------------------------------------
# M8 (nodes with several relational children) -- validation record
# (scratch worktree /tmp/c36w/scratch = /repo HEAD 6c2e38e25, quick tier, seed 0, one break at a time; worktree removed afterwards)
#
# Why: seeded/C36-agent10 (Table.union(unify=True) skips the re-selecting TableMapRows -- and with it the numeric cast -- for a table
# that already has the unified field names in the unified order) passed the monitor: the only union generated was `t.union(t)`, the
# transcribed rule for TableUnion was the engine's `typ` (first child) without the assertion TypeCheck.scala makes about the other
# children, and nothing modelled what `unify` means.
#
# GENUINE disagreement found on the UNCHANGED tree (/repo 6c2e38e25) by M8 (switched OFF in the default workload until repaired / registered):
#   G4  relational/TableUnion-children-differ-in-key-position-after-union-unify      (VERIF_C36_UNION_KEY_POSITION=1)
#       t = hl.utils.range_table(3); t = t.key_by(ks=hl.str(t.idx)).annotate(v0=1)      # row struct{idx, ks, v0}, key [ks]
#       s = t.select('idx', 'v0')                                                         # row struct{ks, idx, v0}, key [ks]
#       u = s.union(t, unify=True)       # reported struct{ks, idx, v0}; TableUnion children: struct{ks, idx, v0}, struct{idx, ks, v0}
#       Table.union decides that nothing has to be unified from `row_value.dtype` alone (`len(set(ht.row_value.dtype ...)) == 1`) although
#       unify=True has waived the `ht.row.dtype == self.row.dtype` test: tables whose value fields agree but whose key fields sit at
#       different positions of the row are handed to TableUnion as they are; TypeCheck.scala asserts
#       `childrenSeq.tail.forall(_.typ.rowType == childrenSeq(0).typ.rowType)` (field order is part of struct equality) and rows of the
#       second child would be read with the first child's layout.  Without unify the same call is refused (ValueError).
#
# Breaks (all CAUGHT, quick tier, seed 0):
#   S8  seeded/C36-agent10                                                   -> relational/TableUnion-engine-rule-rejects-accepted-node,
#                                                                               sent-ir/relational/TableUnion-engine-rule-rejects-rebuilt-node, table/union-row-schema-differs-from-meaning
#   N1  Table.union without unify compares the field NAMES only               -> relational/TableUnion-engine-rule-rejects-accepted-node (+ sent-ir twin)
#   N2  Table.multi_way_zip_join compares the row field NAMES only            -> relational/TableMultiWayZipJoin-engine-rule-rejects-accepted-node (+ sent-ir twin)
#   N3  MatrixTable.union_rows compares the entry field NAMES only            -> relational/MatrixUnionRows-engine-rule-rejects-accepted-node (+ sent-ir twin)
#   N4  MatrixTable.union_cols compares the col field NAMES only              -> relational/MatrixUnionCols-engine-rule-rejects-accepted-node (+ sent-ir twin)
# -------------------------------------------------------------------------------------------------
#
# -------------------------------------------------------------------------------------------------
# M9 (primitive operators against the engine's tables) -- validation record (quick tier, seed 0)
# Why: seeded/C36-agent11 types BitCount by its operand in BOTH Python sites (functions.bit_count and ApplyUnaryPrimOp._compute_type):
# bit_count(int64) is int64 for the front end and int32 for the engine (UnaryOp.scala: case (BitCount, TInt32 | TInt64) => TInt32).  M1 / M2
# compare the declared type with the Python node's own rule only, and no absolute reference existed for value IR.
#   S9  seeded/C36-agent11                                     -> expr/primitive-op-type-differs-from-engine-rule, sent-ir/expr/primitive-op-type-differs-from-engine-rule
#   P1  (own) functions._bit_op coerces only the LEFT operand to the common width (bit_and(int64, int32) sends BitAnd over (int64, int32); the Python
#       node takes the left type, so both Python sites agree)   -> expr/primitive-op-operands-rejected-by-engine-rule (+ sent-ir twin); nothing else fires
# Nothing fires on /repo HEAD (06bdc1227): 72 distinct (operator, operand types) combinations judged, all agree with the engine tables.
# -------------------------------------------------------------------------------------------------
