"""C09 Submission is idempotent under client retries.   (fault_enumeration)

Real code: the real client hailtop.batch_client.aioclient (Batch.submit / _submit, fast and
multi-bunch paths, first and later updates) with its real retry layer (BatchClient._post/_patch ->
hailtop.aiocloud.common.Session.request -> retry_transient_errors re-sending the same kwargs), talking
through a fake HTTP transport to the real front-end handlers (router, auth decorators, validators,
_create_batch, _create_batch_update, _create_job_groups, _create_jobs, commit_batch_update).
Fault catalogue x sites: for request #k the client sends: deliver and lose the response, drop before
delivery, deliver twice, or let another client's update of the same batch run in between.
Oracle versus a fault-free twin run of the same submission: same numbers of batches, updates, jobs,
groups and parents; identical scheduling counters; update job-id and group-id ranges contiguous,
disjoint and increasing; the absolute id the client computed for each job equals the id of the
server row carrying that job's unique attribute.
"""
import itertools
import json
import logging
import random

import aiohttp

from vf.harness import Inconclusive
from vf.minimysql.values import Unsupported
from vf.sim.vloop import Deadlock, StepLimit, run_virtual
from vf.world import oracles
from vf.world.fuzz import Fuzzer
from vf.world.http import FrontEnd
from vf.world.oracles import View
from vf.world.world import World, userdata

PID = 'C09'
LEVEL = 'fault_enumeration'
RULE = ('submissions (first submit + 0-2 later updates; 0-7 jobs, 0-3 job groups, in-update and cross-update parents; bunch limits chosen so that both the '
        'fast path and the multi-bunch path occur) x fault plans over the requests the client sends: every single-request fault {lost response, dropped '
        'request, duplicated delivery, foreign update interleaved} is enumerated, subsets of size 2 (thorough: <= 3) are sampled. Distinct by '
        '(submission shape, request kinds, fault plan); non-trivial when at least one fault fired.')
ASSUMPTIONS = [
    'minimysql + shims; fake HTTP transport between the real client and the real handlers (no sockets); fake auth service',
    'a lost response is modelled as HTTP 503 after the handler finished; a dropped request as 503 before it ran (both retried by the real retry layer)',
]
SHARDS = {'quick': 4, 'thorough': 16}
TIMEOUT = {'quick': 900, 'thorough': 3600}
FLOORS = {'foreign_updates_with_job_groups_interleaved': 100, 'fault_fired:overlapping-calls-inside-a-procedure': 30, 'fault_fired:overlapping-copies': 60, 'fault_fired:ackloss': 30, 'faults_fired': 300, 'request_kinds': 6, 'fast_path_submissions': 20, 'multi_bunch_submissions': 20, 'later_updates': 20, 'job_id_agreements_checked': 300, 'fault_free_runs_judged': 100,
          'consecutive_fast_path_updates_from_one_batch_object': 4}


ACTIONS = ('lost', 'drop', 'dup', 'interleave', 'overlap1', 'overlap2', 'overlap3', 'overlap4', 'ackloss', 'sqloverlap')


def kind_of(method, path):
    if path.endswith('/batches/create-fast'):
        return 'create-fast'
    if path.endswith('/batches/create'):
        return 'create'
    if path.endswith('/update-fast'):
        return 'update-fast'
    if path.endswith('/updates/create'):
        return 'update-create'
    if path.endswith('/job-groups/create'):
        return 'job-group-bunch'
    if path.endswith('/jobs/create'):
        return 'job-bunch'
    if path.endswith('/commit'):
        return 'commit'
    return 'other:' + method


class FakeClientResponse:
    def __init__(self, status, text, headers):
        self.status = status
        self._text = text or ''
        self.headers = headers or {}

    async def json(self):
        return json.loads(self._text) if self._text else None

    async def text(self):
        return self._text

    async def read(self):
        return self._text.encode()

    async def release(self):
        pass

    def close(self):
        pass


class Transport:
    """stands where hailtop.httpx.ClientSession is (raise_for_status=True)"""

    def __init__(self, fe, plan, token, on_interleave):
        self.fe = fe
        self.plan = dict(plan)  # request index -> action
        self.token = token
        self.n = 0
        self.log = []
        self.fired = []
        self.on_interleave = on_interleave

    async def request(self, method, url, **kw):
        from yarl import URL

        path = URL(url).path
        idx = self.n
        self.n += 1
        action = self.plan.pop(idx, 'ok')
        kind = kind_of(method, path)
        self.log.append((idx, kind, action))
        body = kw.get('data')
        if isinstance(body, aiohttp.BytesPayload):
            body = bytes(body._value)
        js = kw.get('json')
        headers = dict(kw.get('headers') or {})

        async def deliver():
            if isinstance(body, (bytes, bytearray)):
                return await self.fe.request(method, path, data=bytes(body), headers=headers)
            return await self.fe.request(method, path, json=js, headers=headers)

        def error(status, why):
            from multidict import CIMultiDict, CIMultiDictProxy

            info = aiohttp.RequestInfo(URL(url), method, CIMultiDictProxy(CIMultiDict()), URL(url))
            return aiohttp.ClientResponseError(info, (), status=status, message=why)
        if action == 'drop':
            self.fired.append((idx, kind, action))
            raise error(503, 'injected: request dropped before delivery')
        if action == 'interleave':
            self.fired.append((idx, kind, action))
            await self.on_interleave()
        if action.startswith('overlap') and action != 'sqloverlap':
            # the client's re-send (after a timeout) arrives while the first copy is still being served: at the k-th time the
            # first copy asks the pool for a connection (never inside one of its open transactions) the second copy is served
            # to completion, then the first copy carries on; the client reads the first copy's answer
            import aiomysql

            k, st = int(action[len('overlap'):]), {'n': 0, 'ran': False}

            async def delay(site):
                if site != 'connect' or st['ran']:
                    return
                st['n'] += 1
                if st['n'] == k:
                    st['ran'] = True
                    aiomysql.HOOKS.pop('delay', None)
                    self.fired.append((idx, kind, action))
                    try:
                        await deliver()
                    except Exception:  # the overtaking copy's own failure is an answer nobody reads
                        pass
            aiomysql.HOOKS['delay'] = delay
            try:
                r = await deliver()
            finally:
                if aiomysql.HOOKS.get('delay') is delay:
                    aiomysql.HOOKS.pop('delay', None)
        elif action == 'sqloverlap':
            # the re-sent copy's stored-procedure CALL runs to completion while the first copy's CALL is between the
            # statements it executes before its START TRANSACTION (autocommit, no locks held) and the transaction itself
            # (minimysql preemption point; a procedure that opens its transaction first is not affected)
            eng = self.fe.w.engine
            st = {'ran': False}

            def preempt(conn, routine):
                if st['ran'] or getattr(conn, 'preempt_point', None) != 'start-transaction':
                    return
                st['ran'] = True
                self.fired.append((idx, kind, action))
                sql, args = conn.top_statement
                c2 = eng.connect()
                try:
                    c2.execute(sql, args)
                except Exception:  # the overtaking copy's own failure is an answer nobody reads
                    c2.rollback()
            eng.preempt_hook = preempt
            try:
                r = await deliver()
            finally:
                eng.preempt_hook = None
        elif action == 'ackloss':
            # the connection to the database drops after the server applied a COMMIT of this request but before the
            # acknowledgement arrives (pymysql 2013): gear.database.retry_transient_mysql_errors re-runs the transaction function
            import aiomysql
            import pymysql

            st = {'done': False}

            def fault_after(site, conn, sql):
                if site == 'commit' and not st['done']:
                    st['done'] = True
                    self.fired.append((idx, kind, action))
                    return pymysql.err.OperationalError(2013, 'Lost connection to MySQL server during query (injected after COMMIT)')
                return None
            prev = aiomysql.HOOKS.get('fault_after')
            aiomysql.HOOKS['fault_after'] = fault_after
            try:
                r = await deliver()
            finally:
                if prev is None:
                    aiomysql.HOOKS.pop('fault_after', None)
                else:
                    aiomysql.HOOKS['fault_after'] = prev
        else:
            r = await deliver()
        if action == 'dup':
            self.fired.append((idx, kind, action))
            r = await deliver()
        if action == 'lost':
            self.fired.append((idx, kind, action))
            raise error(503, 'injected: response lost after the handler ran')
        if r.status is None or r.status >= 400:
            raise error(r.status or 500, (r.text_ or '')[:200])
        return FakeClientResponse(r.status, r.text_, r.headers)

    def get(self, url, **kw):
        return self.request('GET', url, **kw)

    def post(self, url, **kw):
        return self.request('POST', url, **kw)

    def patch(self, url, **kw):
        return self.request('PATCH', url, **kw)

    def delete(self, url, **kw):
        return self.request('DELETE', url, **kw)

    async def close(self):
        pass


def gen_submission(rng):
    """list of updates; each: groups (parent index or None) and jobs (parents as (update_idx, job_idx))"""
    ups = []
    for u in range(rng.choice([1, 1, 2, 3])):
        ng = rng.choice([0, 0, 1, 2, 3])
        nj = rng.choice([0, 1, 2, 3, 5, 7]) if (u > 0 or rng.random() < 0.9) else 0
        if u > 0 and nj == 0 and ng == 0:
            nj = 1
        groups = [{'parent': rng.choice([None] + list(range(k))) if k else None} for k in range(ng)]
        jobs = []
        for i in range(nj):
            ps = []
            if i and rng.random() < 0.5:
                ps += [(u, x) for x in rng.sample(range(i), rng.randint(1, min(2, i)))]
            prior = [(pu, pj) for pu in range(u) for pj in range(len(ups[pu]['jobs']))]
            if prior and rng.random() < 0.4:
                ps += rng.sample(prior, 1)
            jobs.append({'parents': ps, 'group': rng.choice([None] + list(range(ng))) if ng else None, 'always_run': rng.random() < 0.2})
        ups.append({'groups': groups, 'jobs': jobs, 'max_bunch_size': rng.choice([1, 2, 3, 1024, 1024])})
    return ups


async def run_submission(w, fe, sub, plan, ctx=None):
    from hailtop.aiocloud.common import Session
    from hailtop.batch_client.aioclient import BatchClient, HailExplicitTokenCredentials

    state = {'foreign': 0}

    async def interleave():
        # another client (same owner, a second session) pushes a one-job update into the same batch
        v = View(w.engine)
        if not v.batches:
            return
        bid = max(v.batches)
        state['foreign'] += 1
        # half of the foreign updates bring job groups of their own (the other submitter's group bunch can then arrive while
        # this client's update has reserved its group ids but not sent them yet)
        ng = state['foreign'] % 3 if state['foreign'] % 2 else 0
        body = {'update': {'token': f'foreign-{state["foreign"]}', 'n_jobs': 1, 'n_job_groups': ng}, 'bunch': [
            {'job_id': 1, 'process': {'type': 'docker', 'command': ['true'], 'image': 'u'}, 'resources': {'cpu': '1', 'memory': 'standard', 'storage': '1Gi'},
             'attributes': {'uid': f'foreign-{state["foreign"]}'}}],
                'job_groups': [{'job_group_id': g, 'absolute_parent_id': 0, 'attributes': {'gid': f'foreign-{state["foreign"]}-{g}'}} for g in range(1, ng + 1)]}
        if ng and ctx is not None:
            ctx.count('foreign_updates_with_job_groups_interleaved')
        r = await fe.request('POST', f'/api/v1alpha/batches/{bid}/update-fast', token='tok-alice', json=body)
        if ctx is not None:
            ctx.seen('foreign_update_answers', f'{"with" if ng else "without"}-groups:{r.status}')
    tr = Transport(fe, plan, 'tok-alice', interleave)
    bc = BatchClient('bp-a', 'http://batch.hail.invalid', Session(credentials=HailExplicitTokenCredentials('tok-alice'), http_session=tr), {})
    b = bc.create_batch(attributes={'name': 'c09'})
    jobs_by_uid = {}
    objs = []
    error = None
    try:
        for ui, up in enumerate(sub):
            gobjs = []
            for k, g in enumerate(up['groups']):
                parent = gobjs[g['parent']] if g['parent'] is not None else b
                gobjs.append(parent.create_job_group(attributes={'gid': f'u{ui}g{k}'}))
            uobjs = []
            for i, j in enumerate(up['jobs']):
                parents = [objs[pu][pj] for pu, pj in j['parents'] if pu < ui] + [uobjs[pj] for pu, pj in j['parents'] if pu == ui]
                target = gobjs[j['group']] if j['group'] is not None else b
                uid = f'u{ui}j{i}'
                job = target.create_job('ubuntu:22.04', ['true'], parents=parents, attributes={'uid': uid}, always_run=j['always_run'],
                                        resources={'cpu': '1', 'memory': 'standard', 'storage': '1Gi'})
                uobjs.append(job)
                jobs_by_uid[uid] = job
            objs.append(uobjs)
            await b.submit(max_bunch_size=up['max_bunch_size'], disable_progress_bar=True)
    except Exception as e:  # noqa: BLE001
        error = e
    return tr, b, jobs_by_uid, error


def summarize(w):
    v = View(w.engine)
    T = w.engine.tables
    uid_to_job = {}
    for r in T['job_attributes'].rows:
        if r['key'] == 'uid' and not str(r['value']).startswith('foreign'):
            uid_to_job.setdefault(r['value'], []).append((r['batch_id'], r['job_id']))
    own_jobs = {k for ks in uid_to_job.values() for k in ks}
    counters = {}
    for r in T['user_inst_coll_resources'].rows:
        c = counters.setdefault((r['user'], r['inst_coll']), {})
        for col in oracles.UICR_COLS:
            c[col] = c.get(col, 0) + r[col]
    return {
        'n_batches': len(v.batches), 'n_groups': len(v.groups), 'uid_to_job': uid_to_job,
        'n_parents_own': sum(1 for r in T['job_parents'].rows if (r['batch_id'], r['job_id']) in own_jobs),
        'parents_own': sorted((r['job_id'], r['parent_id']) for r in T['job_parents'].rows if (r['batch_id'], r['job_id']) in own_jobs),
        'n_jobs_own': len(own_jobs),
        'updates': sorted((u['batch_id'], u['update_id'], u['start_job_id'], u['n_jobs'], u['start_job_group_id'], u['n_job_groups'], u['committed'], str(u['token']).startswith('foreign'))
                          for u in T['batch_updates'].rows),
        'batch_n_jobs': {b: bt['n_jobs'] for b, bt in v.batches.items()},
        'counters': counters,
        'view': v,
    }


def run(ctx):
    logging.disable(logging.CRITICAL)
    N = ctx.pick(40, 300)
    for i, rng in ctx.cases(N):
        sub = gen_submission(rng)
        seed = rng.getrandbits(32)
        # 1. fault-free twin, which also tells us which requests the client sends
        twin = play(ctx, seed, sub, {})
        if twin is None:
            continue
        tr0, sum0, err0, ids0 = twin
        kinds = [k for _, k, _ in tr0.log]
        for k in kinds:
            ctx.seen('request_kinds', k)
        if 'create-fast' in kinds or 'update-fast' in kinds:
            ctx.count('fast_path_submissions')
        if 'job-bunch' in kinds:
            ctx.count('multi_bunch_submissions')
        if len(sub) > 1:
            ctx.count('later_updates')
        if err0 is not None:
            # the generator produced something the service legitimately refuses (e.g. too deeply nested groups): not a retry question
            ctx.count('submissions_refused_without_faults')
            ctx.seen('fault_free_refusals', str(err0)[:90])
            continue
        # the fault-free run itself is judged against the submission the client built (not only used as the twin)
        n_sub_jobs = sum(len(u['jobs']) for u in sub)
        n_sub_groups = sum(len(u['groups']) for u in sub)
        desc0 = {'submission': sub, 'requests': kinds, 'plan': {}, 'fired': []}
        ctx.count('fault_free_runs_judged')
        if sum0['n_jobs_own'] != n_sub_jobs or any(len(v) != 1 for v in sum0['uid_to_job'].values()) or len(sum0['uid_to_job']) != n_sub_jobs:
            ctx.violation('fault-free/jobs-lost-or-duplicated', f'the client created {n_sub_jobs} jobs in {len(sub)} submit() calls, the server holds {sum0["n_jobs_own"]} rows for {len(sum0["uid_to_job"])} of them', desc0)
        if sum0['n_groups'] != n_sub_groups + sum0['n_batches']:
            ctx.violation('fault-free/job-groups-lost-or-duplicated', f'the client created {n_sub_groups} job groups, the server holds {sum0["n_groups"] - sum0["n_batches"]} besides the root', desc0)
        if sum(sum0['batch_n_jobs'].values()) != n_sub_jobs:
            ctx.violation('fault-free/batch-n_jobs-differs', f'batches.n_jobs sums to {sum(sum0["batch_n_jobs"].values())} for {n_sub_jobs} submitted jobs', desc0)
        for uid, jid in ids0.items():
            rows = sum0['uid_to_job'].get(uid, [])
            ctx.count('job_id_agreements_checked')
            if len(rows) == 1 and rows[0][1] != jid:
                ctx.violation('client-job-id-differs-from-server', f'job {uid}: client computed id {jid}, server row has {rows[0][1]} (no faults)', desc0)
        if len(sub) >= 3 and kinds.count('update-fast') >= 2:
            ctx.count('consecutive_fast_path_updates_from_one_batch_object')
        nreq = len(kinds)
        plans = [{k: a} for k in range(nreq) for a in ACTIONS]
        m = ctx.pick(6, 25)
        for _ in range(m):
            size = rng.choice([2, 2, 3]) if not ctx.quick else 2
            ks = rng.sample(range(nreq), min(size, nreq))
            plans.append({k: rng.choice(ACTIONS) for k in ks})
        if ctx.quick and len(plans) > 45:
            plans = rng.sample(plans, 45)
        for plan in plans:
            res = play(ctx, seed, sub, plan)
            if res is None:
                continue
            tr, s, err, ids = res
            fired = tr.fired
            desc = {'submission': sub, 'requests': kinds, 'plan': {str(k): v for k, v in plan.items()}, 'fired': fired}
            ctx.case(sample={'requests': kinds, 'plan': desc['plan']}, key=(str(sub), str(sorted(plan.items()))), nontrivial=bool(fired))
            ctx.count('faults_fired', len(fired))
            for f in fired:
                ctx.count('fault_fired:' + ('overlapping-calls-inside-a-procedure' if f[2] == 'sqloverlap' else 'overlapping-copies' if f[2].startswith('overlap') else f[2]))
                ctx.seen('fault_sites', f'{f[1]}:{f[2]}')
            n_foreign = sum(u[3] for u in s['updates'] if u[7] and u[6])  # jobs of foreign updates that were really committed
            n_foreign_groups = sum(u[5] for u in s['updates'] if u[7] and u[6])
            abandoned_with_groups = [u for u in s['updates'] if u[7] and not u[6] and u[5] > 0]
            if err is not None and abandoned_with_groups and 'job group specs were not submitted in order' in str(err):
                # the other client's update reserved job-group ids and was refused / abandoned before inserting them: the hole
                # makes the service refuse this client's next job-group bunch.  The statement promises nothing about another
                # client's abandoned update; nothing of this submission may have been duplicated, which is all that is judged.
                ctx.count('own_submission_refused_behind_a_foreign_abandoned_update')
                if s['n_batches'] != sum0['n_batches']:
                    ctx.violation('duplicate-batch', f'{s["n_batches"]} batches instead of {sum0["n_batches"]}', desc)
                if any(len(v) != 1 for v in s['uid_to_job'].values()):
                    ctx.violation('duplicate-or-lost-jobs', 'a job of the refused submission exists twice', desc)
                continue
            if err is not None:
                ctx.violation('submission-fails-under-retry/' + type(err).__name__, f'{type(err).__name__}: {str(err)[:200]} with faults {fired}', desc)
                continue
            if s['n_batches'] != sum0['n_batches']:
                ctx.violation('duplicate-batch', f'{s["n_batches"]} batches instead of {sum0["n_batches"]}', desc)
            own_updates = [u for u in s['updates'] if not u[7]]
            own_updates0 = [u for u in sum0['updates'] if not u[7]]
            if len(own_updates) != len(own_updates0):
                ctx.violation('duplicate-update', f'{len(own_updates)} updates of the client instead of {len(own_updates0)}', desc)
            if s['n_jobs_own'] != sum0['n_jobs_own'] or any(len(v) != 1 for v in s['uid_to_job'].values()):
                ctx.violation('duplicate-or-lost-jobs', f'{s["n_jobs_own"]} job rows for {len(s["uid_to_job"])} distinct jobs (twin: {sum0["n_jobs_own"]})', desc)
            if s['n_groups'] != sum0['n_groups'] + n_foreign_groups:
                ctx.violation('duplicate-or-lost-job-groups', f'{s["n_groups"]} groups instead of {sum0["n_groups"]} + {n_foreign_groups} of the other client', desc)
            if s['n_parents_own'] != sum0['n_parents_own']:
                ctx.violation('duplicate-or-lost-dependencies', f'{s["n_parents_own"]} dependency rows instead of {sum0["n_parents_own"]}', desc)
            # ranges contiguous, disjoint, increasing in update id
            for bid in s['batch_n_jobs']:
                ups = sorted(u for u in s['updates'] if u[0] == bid)
                nextj, nextg = 1, 1
                for (_, uid, sj, nj, sg, ng, committed, foreign) in ups:
                    if sj != nextj or sg != nextg:
                        ctx.violation('update-ranges-not-contiguous', f'update {uid} of batch {bid} starts at job {sj}/group {sg}, expected {nextj}/{nextg}', desc)
                        break
                    nextj, nextg = sj + nj, sg + ng
            # counters: recount oracle (C01) on the final state, and job totals equal to the twin plus the foreign jobs
            for key, what, wit in oracles.c01(s['view']):
                ctx.violation('counters/' + key.split('/')[0], what + f' after faults {fired}', desc)
            tot = sum(s['batch_n_jobs'].values())
            tot0 = sum(sum0['batch_n_jobs'].values())
            if tot != tot0 + n_foreign:
                ctx.violation('double-counted-jobs', f'batches.n_jobs sums to {tot}, twin {tot0} + {n_foreign} foreign', desc)
            # client-computed absolute ids == server ids
            for uid, jid in ids.items():
                rows = s['uid_to_job'].get(uid, [])
                ctx.count('job_id_agreements_checked')
                if len(rows) == 1 and rows[0][1] != jid:
                    ctx.violation('client-job-id-differs-from-server', f'job {uid}: client computed id {jid}, server row has {rows[0][1]} (faults {fired})', desc)
            if not any(u[7] for u in s['updates']) and s['parents_own'] != sum0['parents_own']:  # (a foreign update shifts the ids)
                ctx.violation('dependencies-differ-from-twin', f'dependency edges differ from the fault-free run', desc)


def play(ctx, seed, sub, plan):
    out = {}

    async def main(loop):
        w = World(seed=seed, loop=loop, n_tokens=2)
        await w.boot()
        Fuzzer(w, random.Random(1), {})
        fe = FrontEnd(w)
        fe.auth_service.add('tok-alice', userdata('alice'))
        try:
            tr, b, jobs_by_uid, err = await run_submission(w, fe, sub, plan, ctx)
            ids = {}
            for uid, j in jobs_by_uid.items():
                try:
                    ids[uid] = j.job_id
                except Exception:
                    pass
            out['res'] = (tr, summarize(w), err, ids)
        finally:
            await w.shutdown()
    try:
        run_virtual(main, max_steps=3_000_000)
    except Unsupported as e:
        raise Inconclusive('minimysql unsupported: ' + str(e))
    except (Deadlock, StepLimit) as e:
        ctx.inconclusive_because(f'virtual loop {type(e).__name__}: {e}')
        return None
    return out.get('res')
