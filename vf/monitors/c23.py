"""C23 Ranged reads return exactly the requested bytes.

Real code: AsyncFS.open_from / read_from / read_range (fs.py) over
  local : LocalAsyncFS._open_from + TruncatedReadableBinaryIO on real files in a mkdtemp scratch dir
  gcs   : GoogleStorageAsyncFS._open_from -> GoogleStorageClient.get_object -> Session -> hailtop.httpx.ClientSession
          -> fake aiohttp session speaking the GCS JSON API (vf/sim/fsfakes.FakeGCSHttp, RFC 9110 Range parser,
          body through a real aiohttp.StreamReader)
  s3    : S3AsyncFS._open_from -> fake boto3 client get_object(Range=) / head_object / list_objects_v2
  azure : AzureAsyncFS._open_from / AzureReadableStream -> fake BlobClient.download_blob(offset=, length=)
and the same four again through RouterAsyncFS dispatch.

Oracle (data = object bytes, avail = data[start:start+length] or data[start:] when length is None):
  * open_from(start, length).read()                       == avail
  * open_from(start, length) + read(k) until b''         concatenates to avail ("read at most n bytes")
  * open_from(start, length).readexactly(m)               == avail[:m] if m <= len(avail) else UnexpectedEOFError
  * read_from(start)                                      == data[start:]
  * read_range(start, end, end_inclusive)                 n = end-start+inclusive; == data[start:start+n] if start+n <= size
                                                          else UnexpectedEOFError; n == 0 -> b''
  * length == 0: existing file -> empty stream; missing -> FileNotFoundError; directory -> IsADirectoryError;
                 (object stores) file and directory -> FileAndDirectoryError
  Tolerance (deliberate behaviour of the code under test, see 416 -> UnexpectedEOFError in storage_client.py /
  InvalidRange in aioaws/fs.py and the repo test test_read_range_end_inclusive_empty_file_should_error): when
  start >= size and length != 0 an *empty* expected result may instead be signalled as UnexpectedEOFError (at open
  or at read).  Any other exception type is a violation.
"""
import asyncio
import os
import shutil
import tempfile

PID = 'C23'
LEVEL = 'exploration'
RULE = (
    'phase enum: every (size <= S, start <= size+1, length in {None, 0..size+2}) with S = 9 quick / 12 thorough, for each of the 4 '
    'backends x {direct, via RouterAsyncFS} x 2 fake chunkings, each with the op set {read(), read(k)* for k in 1,2,size+3, '
    'readexactly(m) for m around the available span, read_from, read_range inclusive/exclusive, read(1)+read()}; '
    'phase len0: length=0 rules on file / missing / directory / directory-with-slash / file-and-directory urls; '
    'phase random: seeded sizes up to 5000 (sizes and offsets clustered at 0, 1, last byte, size, size+1), random chunkings. '
    'A probe is non-trivial when the object is non-empty or the expected outcome is an error; distinct by '
    '(backend, routed, size, start, length, op).'
)
ASSUMPTIONS = [
    'vf/sim/fsfakes.py implements the published range semantics of GCS (RFC 9110 byte ranges, 206/416/404), S3 GetObject Range '
    '(InvalidRange 416, NoSuchKey) and azure-storage-blob download_blob(offset, length) (416 InvalidRange when a given offset >= size, '
    'ValueError for length without offset); real cloud services are not contacted',
    'the GCS fake answers at aiohttp.ClientSession._request; hailtop.httpx.ClientSession, Session, GoogleStorageClient above it are real',
    'start >= size with an empty expected result may be reported as UnexpectedEOFError (deliberate 416 mapping of the code under test)',
]
TRUSTED_BASE = ['vf/sim/fsfakes.py (protocol fakes)', 'aiohttp.StreamReader', 'local filesystem of the sandbox']
SHARDS = {'quick': 2, 'thorough': 16}
TIMEOUT = {'quick': 900, 'thorough': 1800}
FLOORS = {
    'backends_covered': 4,
    'probes_local': 2000, 'probes_gcs': 2000, 'probes_s3': 2000, 'probes_azure': 2000,
    'eof_signalled': 200, 'nonempty_results': 2000, 'len0_probes': 40,
    'gcs_http_206': 100, 'gcs_http_416': 10, 's3_InvalidRange': 10, 'azure_416': 10,
}

BACKENDS = ('local', 'gcs', 's3', 'azure')


class _Outcome:
    __slots__ = ('kind', 'data', 'exc')

    def __init__(self, kind, data=None, exc=None):
        self.kind = kind  # 'bytes' | 'eof' | 'exc'
        self.data = data
        self.exc = exc

    def show(self):
        if self.kind == 'bytes':
            return {'bytes': self.data if len(self.data) <= 64 else self.data[:64], 'len': len(self.data)}
        if self.kind == 'eof':
            return 'UnexpectedEOFError'
        return f'{type(self.exc).__name__}: {self.exc}'[:200]


def _mech(backend, op, length, exp, got, data, start):
    """mechanism key for a disagreement (exp/got are _Outcome-like tuples)"""
    opc = op[0]
    if got.kind == 'exc':
        name = type(got.exc).__name__
        if backend == 'azure' and name == 'HttpResponseError' and getattr(got.exc, 'status_code', None) == 416 and opc in ('read_all', 'read_from', 'mixed'):
            return 'azure/range-not-satisfiable-unmapped-in-read-all'
        return f'{backend}/{opc}/raises-{name}'
    if backend == 'azure' and length is not None and length >= 1 and opc in ('read_n', 'readexactly', 'mixed') and got.kind == 'bytes':
        tail = data[start:]
        if exp.kind == 'eof' or (exp.kind == 'bytes' and len(got.data) > len(exp.data) and tail.startswith(got.data)):
            return 'azure/length-ignored-by-sized-read'
    if exp.kind == 'eof' and got.kind == 'bytes':
        return f'{backend}/{opc}/eof-not-signalled'
    if exp.kind == 'bytes' and got.kind == 'eof':
        return f'{backend}/{opc}/spurious-eof'
    if exp.kind == 'bytes' and got.kind == 'bytes':
        e, g = exp.data, got.data
        if len(g) == len(e) + 1 and g.startswith(e):
            return f'{backend}/{opc}/range-end-off-by-one-long'
        if len(g) == len(e) - 1 and e.startswith(g):
            return f'{backend}/{opc}/range-end-off-by-one-short'
        if g.startswith(e):
            return f'{backend}/{opc}/over-read'
        if e.startswith(g):
            return f'{backend}/{opc}/short-read'
        if len(g) == len(e) and len(e) > 0 and (data[start + 1 : start + 1 + len(e)] == g or data[max(0, start - 1) : max(0, start - 1) + len(e)] == g):
            return f'{backend}/{opc}/offset-off-by-one'
        return f'{backend}/{opc}/wrong-bytes'
    return f'{backend}/{opc}/mismatch'


def run(ctx):
    from concurrent.futures import ThreadPoolExecutor

    from hailtop.aiotools.fs import FileAndDirectoryError, UnexpectedEOFError
    from hailtop.aiotools.local_fs import LocalAsyncFS
    from hailtop.aiotools.router_fs import RouterAsyncFS

    from vf.sim import fsfakes as F

    _selftest_range_parser(F)
    tmp_parent = '/dev/shm' if os.path.isdir('/dev/shm') and os.access('/dev/shm', os.W_OK) else None
    scratch = tempfile.mkdtemp(prefix='verif-c23-', dir=tmp_parent)
    pool = ThreadPoolExecutor(max_workers=4)
    try:
        asyncio.run(_main(ctx, scratch, pool, F, LocalAsyncFS, RouterAsyncFS, UnexpectedEOFError, FileAndDirectoryError))
    finally:
        pool.shutdown(wait=True)
        shutil.rmtree(scratch, ignore_errors=True)


def _selftest_range_parser(F):
    """the fakes' Range parser against the worked examples of RFC 9110 section 14.1.2 (10000-byte representation)"""
    from vf.harness import Inconclusive

    table = [
        ('bytes=0-499', 10000, ('ok', 0, 499)), ('bytes=500-999', 10000, ('ok', 500, 999)), ('bytes=-500', 10000, ('ok', 9500, 9999)),
        ('bytes=9500-', 10000, ('ok', 9500, 9999)), ('bytes=0-0', 10000, ('ok', 0, 0)), ('bytes=9999-20000', 10000, ('ok', 9999, 9999)),
        ('bytes=10000-', 10000, ('unsatisfiable',)), ('bytes=10000-10001', 10000, ('unsatisfiable',)), ('bytes=0-', 0, ('unsatisfiable',)),
        ('bytes=-0', 10000, ('unsatisfiable',)), ('bytes=5-2', 10000, ('invalid',)), ('bytes=a-b', 10000, ('invalid',)),
        ('bytes=--1', 10000, ('invalid',)), ('bytes=1--2', 10000, ('invalid',)), ('octets=0-1', 10000, ('invalid',)), ('bytes 0-1', 10000, ('invalid',)),
        ('BYTES=1-2', 10000, ('ok', 1, 2)), (None, 10000, ('none',)), ('bytes=0-0,-1', 10000, ('multi', [(0, 0), (9999, 9999)])),
    ]
    for header, size, want in table:
        got = F.parse_range(header, size)
        if tuple(got) != tuple(want):
            raise Inconclusive(f'fake Range parser disagrees with RFC 9110 on {header!r} / {size}: {got} != {want}')


class _World:
    """the four backends (direct and routed) over one object store / scratch dir, with one fake-chunking choice"""

    def __init__(self, ctx, scratch, pool, F, LocalAsyncFS, RouterAsyncFS, chunk):
        self.ctx = ctx
        self.scratch = scratch
        self.store = F.ObjectStore()
        self.fs = {}
        self.base = {}
        self.fakes = {}
        self.n_obj = 0
        self.local_dir = tempfile.mkdtemp(prefix='w-', dir=scratch)
        builders = {
            'local': lambda: (LocalAsyncFS(pool), None),
            'gcs': lambda: F.make_gcs_fs(self.store, body_chunk=chunk),
            's3': lambda: F.make_s3_fs(self.store, pool, max_read=chunk),
            'azure': lambda: F.make_azure_fs(self.store, 'verifacct', 'cont', chunk=chunk),
        }
        self.store.buckets.setdefault('bk', {})
        for b in BACKENDS:
            try:
                self.fs[b], self.fakes[b] = builders[b]()
                ctx.seen('backends_covered', b)
            except Exception as e:  # cannot be constructed over the stubs => not covered
                ctx.seen('backends_not_covered', b)
                ctx.inconclusive_because(f'backend {b} could not be constructed over the stubs: {e!r}')
        self.base = {
            'local': self.local_dir + '/', 'gcs': 'gs://bk/', 's3': 's3://bk/',
            'azure': 'https://verifacct.blob.core.windows.net/cont/',
        }
        router = RouterAsyncFS(local_kwargs={'thread_pool': pool}, gcs_bucket_allow_list=[])
        router._local_fs = self.fs.get('local')
        router._google_fs = self.fs.get('gcs')
        router._s3_fs = self.fs.get('s3')
        router._azure_fs = self.fs.get('azure')
        self.router = router

    def put(self, key, data):
        """the same object in every backend"""
        p = os.path.join(self.local_dir, key)
        os.makedirs(os.path.dirname(p), exist_ok=True)
        with open(p, 'wb') as f:
            f.write(data)
        self.store.put('bk', key, data)
        self.store.put('verifacct/cont', key, data)

    def url(self, backend, key):
        return self.base[backend] + key

    def harvest(self):
        ctx = self.ctx
        g = self.fakes.get('gcs')
        if g is not None:
            for st, n in g.statuses.items():
                ctx.count(f'gcs_http_{st}', n)
            g.statuses.clear()
        s = self.fakes.get('s3')
        if s is not None:
            for code, n in s.codes.items():
                ctx.count(f's3_{code}', n)
            s.codes.clear()
        a = self.fakes.get('azure')
        if a is not None:
            ctx.count('azure_416', a.n_416)
            ctx.count('azure_downloads', a.n_downloads)
            a.n_416 = 0
            a.n_downloads = 0
        self.store.requests.clear()


async def _main(ctx, scratch, pool, F, LocalAsyncFS, RouterAsyncFS, UnexpectedEOFError, FileAndDirectoryError):
    async def attempt(coro_fn):
        try:
            r = await coro_fn()
            return _Outcome('bytes', bytes(r))
        except UnexpectedEOFError:
            return _Outcome('eof')
        except Exception as e:  # noqa: BLE001 - every other exception type is data for the oracle
            return _Outcome('exc', exc=e)

    async def do_op(fs, url, start, length, op):
        kind = op[0]
        if kind == 'read_all':
            async def f():
                async with await fs.open_from(url, start, length=length) as s:
                    return await s.read()
        elif kind == 'read_n':
            k = op[1]

            async def f():
                out = []
                async with await fs.open_from(url, start, length=length) as s:
                    for _ in range(100_000):
                        b = await s.read(k)
                        if not b:
                            break
                        if len(b) > k:
                            raise AssertionError(f'read({k}) returned {len(b)} bytes')
                        out.append(b)
                return b''.join(out)
        elif kind == 'readexactly':
            m = op[1]

            async def f():
                async with await fs.open_from(url, start, length=length) as s:
                    return await s.readexactly(m)
        elif kind == 'read_from':
            async def f():
                return await fs.read_from(url, start)
        elif kind == 'read_range':
            incl = op[1]
            n = length
            end = start + n - 1 if incl else start + n

            async def f():
                return await fs.read_range(url, start, end, end_inclusive=incl)
        elif kind == 'mixed':
            k = op[1]

            async def f():
                async with await fs.open_from(url, start, length=length) as s:
                    a = await s.read(k)
                    b = await s.read()
                    return a + b
        else:
            raise ValueError(op)
        return await attempt(f)

    def expected(data, start, length, op):
        """-> (_Outcome, tolerant_eof: bool)"""
        size = len(data)
        kind = op[0]
        if kind == 'read_range':
            n = length
            if n == 0:
                return _Outcome('bytes', b''), False
            if start + n <= size:
                return _Outcome('bytes', data[start : start + n]), False
            return _Outcome('eof'), False
        avail = data[start:] if (length is None or kind == 'read_from') else data[start : start + length]
        tolerant = start >= size and length != 0
        if kind == 'readexactly':
            m = op[1]
            if m <= len(avail):
                return _Outcome('bytes', avail[:m]), tolerant and m == 0
            return _Outcome('eof'), False
        return _Outcome('bytes', avail), tolerant

    def ops_for(size, start, length, full):
        avail_len = max(0, size - start) if length is None else max(0, min(length, size - start))
        ops = [('read_all',), ('read_n', 1), ('read_n', size + 3), ('mixed', 1)]
        if full:
            ops.append(('read_n', 2))
        for m in sorted({0, 1, avail_len, avail_len + 1, max(0, avail_len - 1)}):
            ops.append(('readexactly', m))
        if length is None:
            ops.append(('read_from',))
        else:
            ops.append(('read_range', True))
            ops.append(('read_range', False))
        return ops

    def judge(world, backend, routed, data, start, length, op, got):
        exp, tolerant = expected(data, start, length, op)
        ctx.count(f'probes_{backend}')
        ok = False
        if got.kind == exp.kind and (got.kind != 'bytes' or got.data == exp.data):
            ok = True
        elif tolerant and got.kind == 'eof':
            ok = True
            ctx.seen('start_ge_size_signalled_as_eof', f'{backend}:{op[0]}')
        if got.kind == 'eof':
            ctx.count('eof_signalled')
        elif got.kind == 'bytes' and got.data:
            ctx.count('nonempty_results')
        size = len(data)
        nontrivial = size > 0 or exp.kind == 'eof'
        ctx.case(
            sample={'backend': backend, 'routed': routed, 'size': size, 'start': start, 'length': length, 'op': list(op)},
            key=(backend, routed, size, start, length, op), nontrivial=nontrivial,
        )
        if not ok:
            key = _mech(backend, op, length, exp, got, data, start)
            ctx.violation(
                key,
                f'{backend}{"(router)" if routed else ""} size={size} open_from/read start={start} length={length} op={op}: '
                f'expected {exp.show()} got {got.show()}',
                {'backend': backend, 'routed': routed, 'size': size, 'data': data if size <= 64 else data[:64], 'start': start,
                 'length': length, 'op': list(op), 'expected': exp.show(), 'got': got.show(),
                 'requests_seen_by_fake': [list(map(str, r)) for r in world.store.requests[-4:]]},
            )
        world.store.requests.clear()

    # ---------------------------------------------------------------------------------------------
    run_enum = ctx.replay is None or ctx.replay.get('case_index') is None

    # ---- phase enum ---------------------------------------------------------------------------
    if run_enum:
        S = ctx.pick(9, 12)
        n = 0
        for chunk in (None, 2):
            world = _World(ctx, scratch, pool, F, LocalAsyncFS, RouterAsyncFS, chunk)
            datas = {}
            for size in range(S + 1):
                datas[size] = bytes(range(65, 65 + size))
                world.put(f'enum/o{size}', datas[size])
            for size in range(S + 1):
                for start in range(size + 2):
                    for length in [None] + list(range(0, size + 3)):
                        for backend in BACKENDS:
                            if backend not in world.fs:
                                continue
                            n += 1
                            if n % ctx.n_shards != ctx.shard:
                                continue
                            for routed in (False, True):
                                fs = world.router if routed else world.fs[backend]
                                url = world.url(backend, f'enum/o{size}')
                                for op in ops_for(size, start, length, full=not routed):
                                    got = await do_op(fs, url, start, length, op)
                                    judge(world, backend, routed, datas[size], start, length, op, got)
            world.harvest()
        ctx.count('enum_triples_x_backends', n)

        # ---- phase len0: the documented length=0 rules ------------------------------------------
        world = _World(ctx, scratch, pool, F, LocalAsyncFS, RouterAsyncFS, None)
        world.put('z/file', b'hello')
        world.put('z/empty', b'')
        world.put('z/dir/child', b'x')
        # file-and-directory exists only in object stores
        world.store.put('bk', 'z/fd', b'f')
        world.store.put('bk', 'z/fd/child', b'c')
        world.store.put('verifacct/cont', 'z/fd', b'f')
        world.store.put('verifacct/cont', 'z/fd/child', b'c')
        targets = [
            ('z/file', 'empty-stream'), ('z/empty', 'empty-stream'), ('z/missing', 'FileNotFoundError'),
            ('z/dir', 'IsADirectoryError'), ('z/dir/', 'IsADirectoryError'), ('z/fd', 'FileAndDirectoryError'),
        ]
        for backend in BACKENDS:
            if backend not in world.fs:
                continue
            for routed in (False, True):
                fs = world.router if routed else world.fs[backend]
                for key, want in targets:
                    if want == 'FileAndDirectoryError' and backend == 'local':
                        ctx.seen('len0_not_expressible', 'local:file-and-directory')
                        continue
                    for start in (0, 1, 5, 6):
                        url = world.url(backend, key)
                        try:
                            async with await fs.open_from(url, start, length=0) as s:
                                a = await s.read()
                                b = await s.readexactly(0)
                                try:
                                    await s.readexactly(1)
                                    c = 'no-eof'
                                except UnexpectedEOFError:
                                    c = 'eof'
                            got = 'empty-stream' if (a == b'' and b == b'' and c == 'eof') else f'stream:{a!r},{b!r},{c}'
                        except Exception as e:  # noqa: BLE001
                            got = type(e).__name__
                        ctx.count('len0_probes')
                        ctx.count(f'probes_{backend}')
                        ctx.seen('len0_outcomes', f'{backend}:{want}')
                        ctx.case(sample={'backend': backend, 'routed': routed, 'len0': key, 'start': start}, key=('len0', backend, routed, key, start))
                        if got != want:
                            ctx.violation(
                                f'{backend}/length0/{want}-expected',
                                f'{backend}{"(router)" if routed else ""} open_from({key!r}, {start}, length=0): expected {want}, got {got}',
                                {'backend': backend, 'routed': routed, 'key': key, 'start': start, 'expected': want, 'got': got},
                            )
        world.harvest()

    # ---- phase random ---------------------------------------------------------------------------
    N = ctx.pick(130, 1200)  # per shard
    world = None
    for i, rng in ctx.cases(N, 'random'):
        if world is None or i % 50 == 0 or ctx.replay is not None:
            if world is not None:
                world.harvest()
            chunk = rng.choice([None, 1, 2, 3, 7, 64, 1000])
            world = _World(ctx, scratch, pool, F, LocalAsyncFS, RouterAsyncFS, chunk)
        size = rng.choice([0, 1, 2, 10, 63, 64, 65, 255, 256, 257, 1000, 4096, rng.randrange(0, 5000), rng.randrange(0, 300)])
        data = rng.randbytes(size)
        key = f'r/{i}/obj'
        world.put(key, data)

        def pos():
            return max(0, rng.choice([0, 1, size - 1, size, size + 1, size // 2, rng.randrange(0, size + 2), rng.randrange(0, size + 2)]))

        for _ in range(4):
            start = pos()
            length = rng.choice([None, None, 0, 1, 2, max(0, size - start), max(0, size - start) + 1, max(0, size - start - 1), rng.randrange(0, size + 3), rng.randrange(0, size + 3)])
            avail_len = max(0, size - start) if length is None else max(0, min(length, size - start))
            ops = [('read_all',), ('read_n', rng.choice([1, 2, 3, 7, 100, size + 1])), ('mixed', rng.choice([1, 2, 5, 100])),
                   ('readexactly', rng.choice([0, 1, avail_len, avail_len + 1, max(0, avail_len - 1), rng.randrange(0, avail_len + 2)]))]
            if size > 2000:
                ops = [o for o in ops if not (o[0] == 'read_n' and o[1] < 7)]
            ops.append(('read_from',) if length is None else ('read_range', rng.random() < 0.5))
            for backend in BACKENDS:
                if backend not in world.fs:
                    continue
                routed = rng.random() < 0.5
                fs = world.router if routed else world.fs[backend]
                url = world.url(backend, key)
                for op in ops:
                    got = await do_op(fs, url, start, length, op)
                    judge(world, backend, routed, data, start, length, op, got)
    if world is not None:
        world.harvest()


# --------------------------------------------------------------------------------------------------
# Validation record (scratch worktree /tmp/scratch-fs at HEAD 78296c9bd, quick tier, seed 0; removed afterwards)
#
# Unchanged tree: fires in both tiers for every seed 0..4 with exactly two mechanism keys, both genuine defects of
# AzureReadableStream.read (hail/python/hailtop/aiocloud/aioazure/fs.py); local, gcs and s3 are silent.
#   azure/length-ignored-by-sized-read
#       read(n >= 0) opens its download with download_blob(offset=self._offset) and drops self._length, so a stream from
#       open_from(url, start, length=L) hands out bytes past start+L through read(n), and readexactly(m > L) succeeds instead
#       of raising UnexpectedEOFError.  Witness: blob b'AB', open_from(url, 0, length=1), read(1) until b'' -> b'AB'.
#       Proposed fix: /verif/proposed_fixes/C23-azure-length-ignored-by-sized-read.diff
#   azure/range-not-satisfiable-unmapped-in-read-all
#       read() (n == -1) catches only ResourceNotFoundError; the service's 416 InvalidRange for an offset at/after the end
#       (also offset 0 of an empty blob, also read(k) to the exact end followed by read()) escapes as a raw
#       azure.core.exceptions.HttpResponseError, while the sized branch of the same method maps it to UnexpectedEOFError and
#       local returns b''.  Witness: empty blob, read_from(url, 0) -> HttpResponseError(416).
#       Proposed fix: /verif/proposed_fixes/C23-azure-range-not-satisfiable-unmapped-in-read-all.diff
# With both diffs applied in the scratch worktree the check is HELD (exit 0); that tree was the baseline for the breaks:
#
#  1. aioaws/fs.py           range end start+length instead of start+length-1 (DESIGN)        -> exit 1  s3/*/range-end-off-by-one-long, s3/readexactly/eof-not-signalled
#  2. storage_client.py      same in GoogleStorageAsyncFS._open_from (DESIGN)                  -> exit 1  gcs/*/range-end-off-by-one-long, gcs/readexactly/eof-not-signalled
#  3. local_fs.py            TruncatedReadableBinaryIO.read stops advancing self.offset (own, subtle: only chunked reads over-read)
#                                                                                             -> exit 1  local/read_n/over-read, local/mixed/over-read, local/readexactly/eof-not-signalled
#  4. fs.py                  read_range: n = end - start + 1 regardless of end_inclusive (own) -> exit 1  */read_range/range-end-off-by-one-long, */read_range/spurious-eof (all 4 backends)
#  5. fs.py                  open_from(length=0) on a missing object returns an empty stream   -> exit 1  */length0/FileNotFoundError-expected (all 4 backends)
#  6. storage_client.py      GetObjectStream.readexactly returns e.partial at EOF (own)        -> exit 1  gcs/readexactly/eof-not-signalled, gcs/read_range/eof-not-signalled
#  7. local_fs.py            TruncatedReadableBinaryIO(bio, start + length) (own, subtle: wrong only when start > 0)
#                                                                                             -> exit 1  local/*/over-read, local/*/range-end-off-by-one-long
#  8. aioaws/fs.py           range end omitted when length == 1 (own, subtle: only one-byte ranges)
#                                                                                             -> exit 1  s3/*/over-read, s3/*/range-end-off-by-one-long
#  9. aioazure/fs.py         offset=start or None (own, subtle: only start == 0)               -> exit 1  azure/*/raises-ValueError
# 10. aioaws/fs.py           InvalidRange no longer mapped to UnexpectedEOFError               -> exit 1  s3/*/raises-ClientError
# All caught in the quick tier.
#
# Recorded, tolerated behaviour (see module docstring): for start >= size gcs and s3 raise UnexpectedEOFError where local
# returns b'' (evidence: observed_sets['start_ge_size_signalled_as_eof']).
# --------------------------------------------------------------------------------------------------
