"""C28 Usernames and credential secret names are validated exactly.

Oracle: hand-written recognisers (character loops, no regex) of the two languages in the property
statement.  Workload: every string over a 7-symbol hostile alphabet up to a length bound
(exhaustive) + seeded random Unicode/control-character strings + the repo's own tests re-run with
icontract post-conditions installed on the two functions.

Acceptance path (phases accept / routes): the property is about what the auth *service* accepts, so the
real auth/auth/auth.py is imported over the shims and check_valid_new_user / insert_new_user and the three
routes that reach them (REST create, the /users form, OAuth signup) are driven against an in-memory
`users` table.  Judged: the outcome of the call/request AND the row that ends up stored (username and
hail_credentials_secret_name as inserted) against the same two recognisers.  Workload: valid names, and for
each valid name its "normalisable" neighbours - strings outside the language that some standard
normalisation (lower, casefold, NFKC, strip, drop controls / marks, unquote, ...) maps back into it.
"""
import itertools
import os
import subprocess
import sys

PID = 'C28'
LEVEL = 'exploration'
RULE = (
    'phase enum: all strings over the alphabet {a,z,0,-,.,A,\\n,e-acute} with length <= L (L=6 quick, 7 thorough), exhaustive; '
    'phase random: seeded strings mixing valid fragments with control characters, trailing newlines, Unicode digits/lowercase, '
    'non-str values; phase contracts: the repository\'s own pytest cases executed with icontract post-conditions on. '
    'A case is non-trivial when it is non-empty; distinct by (function, string). '
    'phase accept: seeded calls of the real check_valid_new_user / insert_new_user (auth/auth/auth.py) on a fresh in-memory users table '
    '(6 pre-existing users) with a username / credentials secret name drawn from: valid names; normalisable neighbours of valid names '
    '(one or two mutations: case variants, every non-ASCII code point that lower/casefold/NFKC/mark-stripping maps to an allowed ASCII '
    'character, whitespace / control / zero-width wrapping or insertion, percent-encoding, separator variants); the junk strings of phase '
    'random; other arguments mostly well-formed (user / developer / service account), sometimes ill-formed or colliding with an existing row; '
    'names are at most 255 characters (column width). phase routes: the same inputs through the live route table (POST '
    '/api/v1alpha/users/{user}/create as a developer, with and without test-deployment mode; POST /users form; GET /oauth2callback signup). '
    'Distinct by (entry point, username, secret name, identity-argument shape).'
)
ASSUMPTIONS = [
    'the two hand-written recognisers below are the languages stated in the property',
    'acceptance path: vf/shims (import of auth.auth, aiohttp_session shim), the in-memory users/sessions table of this file (exact, case- and '
    'accent-sensitive string equality as under the utf8mb4_0900_as_cs collation of migration 007; UNIQUE username / login_id; rollback on error), '
    'a fake OAuth flow client, requests built with aiohttp make_mocked_request and resolved through the real router (middlewares not mounted)',
]
SHARDS = {'quick': 1, 'thorough': 8}
FLOORS = {
    'accepted_username': 50, 'rejected_username': 1000, 'accepted_secret': 50, 'rejected_secret': 1000, 'contract_evaluations': 63,
    # acceptance path (about half of the minimum observed over quick seeds 0..4)
    'accept_calls_insert_new_user': 4700, 'accept_calls_check_valid_new_user': 1100, 'accept_outcome_created': 850, 'acceptance_rejected': 6800,
    'stored_rows_judged': 1700, 'normalisable_username_inputs': 3300, 'normalisable_secret_inputs': 1200,
    'case_variant_username_inputs': 800, 'case_variant_secret_inputs': 300,
    'non_ascii_normalisable_username_inputs': 1400, 'non_ascii_normalisable_secret_inputs': 550, 'case_mapped_non_ascii_username_inputs': 150,
    'case_mapped_non_ascii_secret_inputs': 70,
    'normalisers_username': 12, 'normalisers_secret': 12,
    'route_requests_rest': 1400, 'route_requests_form': 700, 'route_requests_oauth': 750, 'route_outcome_accepted': 650, 'route_outcome_created': 190,
    'rest_with_secret_test_deployment': 500,
}

LOWER = 'abcdefghijklmnopqrstuvwxyz'
DIGITS = '0123456789'


def model_label_char(c):
    return c in LOWER or c in DIGITS


def model_username(s) -> bool:
    # [a-z0-9]+(-[a-z0-9]+)*
    if not isinstance(s, str) or s == '':
        return False
    prev_hyphen = True  # start: a hyphen is not allowed
    for c in s:
        if c == '-':
            if prev_hyphen:
                return False
            prev_hyphen = True
        elif model_label_char(c):
            prev_hyphen = False
        else:
            return False
    return not prev_hyphen


def model_secret_name(s) -> bool:
    # label([.-]label)*, label = [a-z0-9]+ ; None means "no secret name given" and is accepted
    if s is None:
        return True
    if not isinstance(s, str) or s == '':
        return False
    prev_sep = True
    for c in s:
        if c in '.-':
            if prev_sep:
                return False
            prev_sep = True
        elif model_label_char(c):
            prev_sep = False
        else:
            return False
    return not prev_sep


FRAG = ['a', 'abc', 'x9', '0', '42', '-', '--', '.', '..', '.-', '-.', 'A', 'Z', '\n', '\r', '\t', '\x00', '\x0b', '\x0c', '\x1f',
        '\x7f', '\x85', ' ', ' ', ' ', ' ', '²', '¹', '١', '１', 'ａ', 'ǆ', 'ß', 'ı',
        'α', 'а', '\U0001d41a', '́', '_', '!', '/', '%0a', '\\n', '\U0001f600']


def _classify(fn, s, impl_accepts):
    """mechanism key for a disagreement"""
    kind = 'accepts-invalid' if impl_accepts else 'rejects-valid'
    if isinstance(s, str) and impl_accepts:
        if s.endswith('\n') and (model_username if fn.endswith('username') else model_secret_name)(s[:-1]):
            return f'{fn}/trailing-newline-accepted'
        if any(ord(c) > 127 for c in s):
            return f'{fn}/non-ascii-accepted'
        if any(ord(c) < 32 or ord(c) == 127 for c in s):
            return f'{fn}/control-char-accepted'
        if any(c.isupper() for c in s):
            return f'{fn}/uppercase-accepted'
    return f'{fn}/{kind}'


def run(ctx):
    from auth.auth_utils import is_valid_username, validate_credentials_secret_name_input
    from auth.exceptions import AuthUserError

    def impl_secret(s):
        try:
            validate_credentials_secret_name_input(s)
            return True
        except AuthUserError:
            return False

    def check(s):
        try:
            got_u = bool(is_valid_username(s))
        except Exception as e:  # the property speaks about strings; a crash on a str is a defect
            if isinstance(s, str):
                ctx.violation('username/raises', f'is_valid_username({s!r}) raised {e!r}', {'input': s})
            got_u = None
        if got_u is not None and isinstance(s, str):
            want = model_username(s)
            ctx.count('accepted_username' if got_u else 'rejected_username')
            if got_u != want:
                ctx.violation(_classify('username', s, got_u), f'is_valid_username({s!r}) = {got_u}, language says {want}', {'input': s})
        try:
            got_s = impl_secret(s)
        except Exception as e:
            if isinstance(s, str):
                ctx.violation('secret/raises', f'validate_credentials_secret_name_input({s!r}) raised {e!r}', {'input': s})
            got_s = None
        if got_s is not None and (isinstance(s, str) or s is None):
            want = model_secret_name(s)
            ctx.count('accepted_secret' if got_s else 'rejected_secret')
            if got_s != want:
                ctx.violation(_classify('secret', s, got_s), f'validate_credentials_secret_name_input({s!r}) accepted={got_s}, language says {want}', {'input': s})
        ctx.case(sample={'input': s}, key=s, nontrivial=bool(s))

    # ---- phase enum (exhaustive; sharded by first symbol index) ------------------------------
    alphabet = ['a', 'z', '0', '-', '.', 'A', '\n', 'é']
    L = ctx.pick(6, 7)
    if ctx.replay is None:
        n = 0
        for length in range(0, L + 1):
            for tup in itertools.product(alphabet, repeat=length):
                n += 1
                if n % ctx.n_shards != ctx.shard:
                    continue
                check(''.join(tup))
        ctx.exhaustive = False  # the random phase below is not exhaustive; the enum phase is (see rule)
        ctx.count('enum_strings', n // ctx.n_shards)

    # ---- phase random -------------------------------------------------------------------
    frag = FRAG
    N = ctx.pick(60_000, 400_000)
    for i, rng in ctx.cases(N, 'random'):
        k = rng.choice([1, 2, 2, 3, 3, 4, 5, 8, 40])
        s = ''.join(rng.choice(frag) for _ in range(k))
        mode = rng.random()
        if mode < 0.25:  # valid core + hostile tail
            core = rng.choice(['abc', 'a-b', 'a.b-c', 'x', '0', 'a3a.3a'])
            s = core + rng.choice(['\n', '\r\n', '\n\n', '\x00', ' ', ' ', '\x85', '.', '-', '\n-', '\na'])
        elif mode < 0.3:
            s = rng.choice(['\n', '\r', ' ', '']) + rng.choice(['abc', 'a-b', 'a'])
        elif mode < 0.32:
            s = rng.choice([None, 0, 1, b'abc', ['a'], 3.5])
        check(s)

    # ---- phases accept / routes: the acceptance path of the service (see the section below run) -------
    acceptance_phases(ctx)

    # ---- phase contracts: the repo's own tests with icontract post-conditions ---------------
    if ctx.shard == 0 and ctx.replay is None:
        env = dict(os.environ)
        env['PYTHONPATH'] = os.pathsep.join([os.path.dirname(os.path.dirname(os.path.dirname(os.path.abspath(__file__)))), env.get('PYTHONPATH', '')])
        env['VERIF_C28_CONTRACT_LOG'] = os.path.join(os.path.dirname(__file__), '..', '..', 'evidence', 'replays', f'.c28-contracts-{os.getpid()}.log')
        os.makedirs(os.path.dirname(env['VERIF_C28_CONTRACT_LOG']), exist_ok=True)
        repo = os.environ.get('VERIF_REPO', '/repo')
        try:
            p = subprocess.run(
                [sys.executable, '-m', 'pytest', '-q', '-p', 'no:cacheprovider', '-p', 'vf.monitors.c28_plugin', os.path.join(repo, 'auth', 'test', 'test_auth_utils.py')],
                cwd=repo, env=env, capture_output=True, text=True, timeout=300,
            )
            out = p.stdout + p.stderr
            n_eval = 0
            try:
                with open(env['VERIF_C28_CONTRACT_LOG']) as f:
                    for line in f:
                        n_eval += 1
                        if line.startswith('BROKEN '):
                            ctx.violation('contract-in-repo-tests', 'icontract post-condition broke while running the repo tests: ' + line.strip(), {'line': line})
                os.unlink(env['VERIF_C28_CONTRACT_LOG'])
            except FileNotFoundError:
                pass
            ctx.count('contract_evaluations', n_eval)
            ctx.count('repo_tests_exit_code_nonzero', 1 if p.returncode != 0 else 0)
            if p.returncode != 0 and n_eval == 0:
                ctx.inconclusive_because('repo tests with contracts did not run: ' + out[-400:])
        except subprocess.TimeoutExpired:
            ctx.inconclusive_because('repo tests with contracts timed out')
    elif ctx.replay is None:
        ctx.count('contract_evaluations', 0)


# =====================================================================================================
# Acceptance path: what the auth service lets through and what it stores.
#
# The two validators above are only half of the statement: "the auth service accepts a username exactly
# when ...".  The service accepts a name when check_valid_new_user / insert_new_user (auth/auth/auth.py) let
# it through and the INSERT INTO users carries it.  Everything below drives that real code (direct calls and
# the three routes that reach it) against an in-memory users table and judges the outcome and the stored row.
# =====================================================================================================

MAX_NAME = 255  # users.username / hail_credentials_secret_name are varchar(255); longer names are not generated here


class UnsupportedSQL(Exception):
    pass


def _sql_args(args):
    if args is None:
        return ()
    if isinstance(args, (tuple, list)):
        return tuple(args)
    return (args,)


class _Tx:
    def __init__(self, db):
        self.db = db

    async def __aenter__(self):
        self.snapshot = ([dict(u) for u in self.db.users], self.db.next_id)
        return self.db

    async def __aexit__(self, et, ev, tb):
        if et is not None:
            self.db.users, self.db.next_id = self.snapshot
            self.db.rollbacks += 1
        else:
            self.db.commits += 1
        return False


class FakeUsersDB:
    """users (+ sessions) of the auth database in memory.  String comparison is exact (utf8mb4_0900_as_cs since
    migration 007, no padding); UNIQUE KEY username, UNIQUE KEY login_id (NULLs repeat); varchar(255) in strict mode.
    Answers exactly the statements the driven code issues; anything else raises UnsupportedSQL (=> inconclusive)."""

    COLUMNS = ('id', 'state', 'username', 'login_id', 'display_name', 'is_developer', 'is_service_account', 'hail_identity', 'hail_identity_uid',
               'hail_credentials_secret_name', 'tokens_secret_name', 'namespace_name', 'trial_bp_name', 'last_activated')
    VARCHAR = ('state', 'username', 'login_id', 'display_name', 'hail_identity', 'hail_credentials_secret_name', 'tokens_secret_name', 'namespace_name')

    def __init__(self):
        self.users = []
        self.next_id = 1
        self.sessions = {}
        self.commits = 0
        self.rollbacks = 0
        self.unsupported = []
        self.inserted_args = []  # argument tuples of INSERT INTO users as received from the code under test

    def add_user(self, username, state, login_id=None, is_developer=0, is_service_account=0, secret=None):
        u = dict.fromkeys(self.COLUMNS)
        u.update(id=self.next_id, state=state, username=username, login_id=login_id, is_developer=is_developer, is_service_account=is_service_account,
                 hail_identity=f'{username}@verif.iam.invalid', hail_credentials_secret_name=secret, last_activated=0)
        self.next_id += 1
        self.users.append(u)
        return u

    def _insert_user(self, cols, a):
        import pymysql

        row = dict.fromkeys(self.COLUMNS)
        row.update(is_developer=0, is_service_account=0, last_activated=0)
        for c, v in zip(cols, a):
            if c not in self.COLUMNS or c == 'id':
                raise UnsupportedSQL(f'INSERT INTO users: column {c}')
            if isinstance(v, bool):
                v = int(v)
            if c in self.VARCHAR and isinstance(v, str) and len(v) > MAX_NAME:
                raise pymysql.err.DataError(1406, f"Data too long for column '{c}' at row 1")
            row[c] = v
        if row['state'] is None or row['username'] is None:
            raise pymysql.err.IntegrityError(1048, "Column cannot be null")
        for u in self.users:
            if u['username'] == row['username']:
                raise pymysql.err.IntegrityError(1062, f"Duplicate entry {row['username']!r} for key 'users.username'")
            if row['login_id'] is not None and u['login_id'] == row['login_id']:
                raise pymysql.err.IntegrityError(1062, f"Duplicate entry {row['login_id']!r} for key 'users.login_id'")
        row['id'] = self.next_id
        self.next_id += 1
        self.users.append(row)
        self.inserted_args.append(tuple(a))
        return row['id']

    def _run(self, sql, args):
        import re

        q = re.sub(r'\s+', ' ', sql).strip().rstrip(';').strip()
        a = _sql_args(args)
        if q.count('%s') != len(a):
            raise UnsupportedSQL(f'{len(a)} arguments for {q[:80]!r}')
        U = self.users
        m = re.fullmatch(r'SELECT \* FROM users WHERE username = %s( OR login_id = %s)? LOCK IN SHARE MODE', q)
        if m:
            return [dict(u) for u in U if u['username'] == a[0] or (m.group(1) and u['login_id'] is not None and u['login_id'] == a[1])]
        m = re.fullmatch(r'INSERT INTO users \(([a-z_, ]+)\) VALUES \(((?:%s, ?)*%s)\)', q)
        if m:
            cols = [c.strip() for c in m.group(1).split(',')]
            if len(cols) != len(a):
                raise UnsupportedSQL(q[:120])
            return self._insert_user(cols, a)
        if re.fullmatch(r'SELECT \* FROM users WHERE login_id = %s', q):
            return [dict(u) for u in U if u['login_id'] is not None and u['login_id'] == a[0]]
        if re.fullmatch(r"SELECT users\.\* FROM users INNER JOIN sessions ON users\.id = sessions\.user_id WHERE users\.state = 'active' AND "
                        r"sessions\.session_id = %s AND \(ISNULL\(sessions\.max_age_secs\) OR "
                        r"\(NOW\(\) < TIMESTAMPADD\(SECOND, sessions\.max_age_secs, sessions\.created\)\)\)", q):
            uid = self.sessions.get(a[0])
            return [dict(u) for u in U if u['id'] == uid and u['state'] == 'active']
        if re.fullmatch(r'UPDATE users SET last_activated = CURRENT_TIMESTAMP\(3\) WHERE id = %s', q):
            return sum(1 for u in U if u['id'] == a[0])
        if re.fullmatch(r'UPDATE sessions SET created = NOW\(\) WHERE session_id = %s', q):
            return int(a[0] in self.sessions)
        self.unsupported.append(q[:160])
        raise UnsupportedSQL(q[:200])

    async def select_and_fetchall(self, sql, args=None, query_name=None):
        for r in self._run(sql, args):
            yield r

    execute_and_fetchall = select_and_fetchall

    async def select_and_fetchone(self, sql, args=None, query_name=None):
        rows = self._run(sql, args)
        return rows[0] if rows else None

    execute_and_fetchone = select_and_fetchone

    async def just_execute(self, sql, args=None):
        self._run(sql, args)

    async def execute_update(self, sql, args=None):
        return self._run(sql, args)

    async def execute_insertone(self, sql, args=None, **kw):
        return self._run(sql, args)

    def start(self, read_only=False):
        return _Tx(self)


SID_DEV = 'D' * 43 + '='
BASE_USERS = (  # (username, state, login_id, is_developer, is_service_account)
    ('dev', 'active', 'dev@hail.invalid', 1, 0),
    ('alice', 'active', 'alice@hail.invalid', 0, 0),
    ('abc', 'active', 'abc@hail.invalid', 0, 0),
    ('carol', 'creating', 'carol@hail.invalid', 0, 0),
    ('dora', 'deleted', 'dora@hail.invalid', 0, 0),
    ('svc-ci', 'active', None, 0, 1),
)


def make_users_world():
    db = FakeUsersDB()
    for name, state, login, dev, sa in BASE_USERS:
        u = db.add_user(name, state, login, dev, sa, secret=f'{name}-gsa-key')
        if name == 'dev':
            db.sessions[SID_DEV] = u['id']
    return db


# ---- generators ---------------------------------------------------------------------------------------

REAL_USERNAMES = ('john', 'johnsmith', 'kelvin', 'mkl', 'strasse', 'test-dev', 'ci', 'a-b-c', 'x9', 'k8s-user', 'u0', 'a', 'k', 's', '0', '42',
                  'batch', 'grafana', 'sam-k', 'alice2', 'abc')  # 'abc' collides with an existing row
REAL_SECRETS = ('john-gsa-key', 'a.b-c', 'x', 'gsa-key.v2', '0', 'a3a.3a', 'test-gsa-key', 'k.s', 'kelvin-gsa-key', 'ci-gsa-key')
WRAPPERS = ('\n', '\r\n', '\r', ' ', '\t', '\x00', '\x0b', '\x0c', '\x1f', '\x7f', '\x85', '\xa0', '\u2028', '\u2029', '\u200b', '\u200d', '\ufeff', '\xad',
            '\u3000', '\u180e', '\u2060')  # line ends, C0/C1 controls, NBSP, line/paragraph separator, zero-width, BOM, soft hyphen, ideographic space
_CONFUSABLE = None


def confusables():
    """allowed ASCII character -> every non-ASCII code point (BMP + mathematical alphanumerics + enclosed alphanumerics supplement) that one of the
    standard normalisations lower / casefold / upper().lower() / NFKC / NFKC+casefold / NFKD-without-marks maps to exactly that character"""
    global _CONFUSABLE
    if _CONFUSABLE is None:
        import unicodedata as ud

        allowed = set(LOWER + DIGITS + '-.')
        table = {c: [] for c in allowed}
        ranges = (range(0x80, 0xD800), range(0xE000, 0x10000), range(0x1D400, 0x1D800), range(0x1F100, 0x1F200))
        for r in ranges:
            for cp in r:
                ch = chr(cp)
                nfkc = ud.normalize('NFKC', ch)
                forms = {ch.lower(), ch.casefold(), ch.upper().lower(), nfkc, nfkc.casefold(),
                         ''.join(x for x in ud.normalize('NFKD', ch) if not ud.combining(x))}
                for f in forms:
                    if len(f) == 1 and f in allowed:
                        table[f].append(ch)
                        break
        _CONFUSABLE = {k: v for k, v in table.items() if v}
    return _CONFUSABLE


def normal_forms(s):
    """(name, normalised string) for the normalisations a service plausibly applies before validating"""
    import unicodedata as ud
    from urllib.parse import unquote

    nfkc = ud.normalize('NFKC', s)
    yield 'lower', s.lower()
    yield 'casefold', s.casefold()
    yield 'nfkc', nfkc
    yield 'nfkc-casefold', nfkc.casefold()
    yield 'strip', s.strip()
    yield 'strip-lower', s.strip().lower()
    yield 'drop-marks', ''.join(x for x in ud.normalize('NFKD', s) if not ud.combining(x))
    yield 'ascii-ignore', s.encode('ascii', 'ignore').decode()
    yield 'drop-nonprintable', ''.join(x for x in s if x.isprintable() and not x.isspace())
    yield 'drop-format', ''.join(x for x in s if ud.category(x) not in ('Cf', 'Cc', 'Zs', 'Zl', 'Zp'))
    yield 'unquote', unquote(s)
    yield 'until-nul', s.split('\x00')[0]
    yield 'first-line', s.splitlines()[0] if s.splitlines() else s
    yield 'strip-separators', s.strip('-._')
    yield 'collapse-hyphens', '-'.join(x for x in s.split('-') if x)
    yield 'underscore-to-hyphen', s.replace('_', '-')


def normalisers_reaching(s, model):
    if not isinstance(s, str) or model(s):
        return []
    out = []
    for name, t in normal_forms(s):
        try:
            if model(t):
                out.append(name)
        except Exception:
            pass
    return out


def rand_valid_username(rng):
    if rng.random() < 0.4:
        return rng.choice(REAL_USERNAMES)
    labels = [''.join(rng.choice(LOWER + LOWER + DIGITS) for _ in range(rng.choice([1, 2, 3, 5, 8]))) for _ in range(rng.choice([1, 1, 1, 2, 3]))]
    return '-'.join(labels)


def rand_valid_secret(rng):
    if rng.random() < 0.4:
        return rng.choice(REAL_SECRETS)
    labels = [''.join(rng.choice(LOWER + LOWER + DIGITS) for _ in range(rng.choice([1, 2, 3, 5]))) for _ in range(rng.choice([1, 2, 2, 3, 4]))]
    s = labels[0]
    for lab in labels[1:]:
        s += rng.choice('.-') + lab
    return s


def mutate(rng, core, kind):
    """one step from a string towards a normalisable neighbour; returns (string, mutation name)"""
    conf = confusables()
    letters = [i for i, c in enumerate(core) if c in LOWER]
    m = rng.choice(['upper-one', 'upper-one', 'title', 'upper-all', 'confusable', 'confusable', 'confusable-case', 'confusable-case', 'wrap', 'wrap', 'insert', 'percent',
                    'separator', 'edge-separator', 'combining'])
    if m in ('upper-one', 'title', 'upper-all', 'combining') and not letters:
        m = 'confusable'
    if m == 'upper-one':
        i = rng.choice(letters)
        return core[:i] + core[i].upper() + core[i + 1:], m
    if m == 'title':
        return core.title(), m
    if m == 'upper-all':
        return core.upper(), m
    if m in ('confusable', 'confusable-case'):
        idx = [i for i, c in enumerate(core) if c in conf]
        if m == 'confusable-case':  # only the code points whose *case* mapping is ASCII (KELVIN SIGN, LONG S, ...)
            idx = [i for i in idx if any(x.lower() == core[i] or x.casefold() == core[i] for x in conf[core[i]])]
        if not idx:
            return core + '\n', 'wrap'
        i = rng.choice(idx)
        pool = conf[core[i]]
        if m == 'confusable-case':
            pool = [x for x in pool if x.lower() == core[i] or x.casefold() == core[i]]
        return core[:i] + rng.choice(pool) + core[i + 1:], m
    if m == 'wrap':
        w = rng.choice(WRAPPERS)
        return (w + core if rng.random() < 0.35 else core + w), m
    if m == 'insert':
        i = rng.randrange(len(core) + 1)
        return core[:i] + rng.choice(WRAPPERS) + core[i:], m
    if m == 'percent':
        i = rng.randrange(len(core))
        return core[:i] + rng.choice(['%%%02x', '%%%02X']) % ord(core[i]) + core[i + 1:], m
    if m == 'separator':
        seps = [i for i, c in enumerate(core) if c in '-.']
        if not seps:
            i = rng.randrange(len(core) + 1)
            return core[:i] + rng.choice(['_', '--', '.', ' ', '+'] if kind == 'username' else ['_', '..', '.-', '--', ' ']) + core[i:], m
        i = rng.choice(seps)
        return core[:i] + rng.choice(['_', '--', '.', '\u2010', '\u2011', '\uff0d', '\ufe63', '\u2212'] if kind == 'username'
                                     else ['_', '..', '.-', '-.', '--', '\uff0e', '\uff0d', '\u2024']) + core[i + 1:], m
    if m == 'edge-separator':
        sep = rng.choice('-.' if kind == 'secret' else '-')
        return (sep + core if rng.random() < 0.5 else core + sep), m
    i = rng.choice(letters)  # combining
    return core[:i + 1] + rng.choice(['\u0301', '\u0308', '\u0327', '\u200d']) + core[i + 1:], m


def junk(rng):
    k = rng.choice([1, 2, 2, 3, 3, 4, 5, 8, 40])
    return ''.join(rng.choice(FRAG) for _ in range(k))


def gen_name(rng, kind):
    """-> (string, class) with class in valid / neighbour / junk / empty"""
    valid = rand_valid_username if kind == 'username' else rand_valid_secret
    r = rng.random()
    if r < 0.34:
        return valid(rng), 'valid'
    if r < 0.84:
        s, _ = mutate(rng, valid(rng), kind)
        if rng.random() < 0.25:
            s2, _ = mutate(rng, s, kind) if s else (s, None)
            s = s2
        return s[:MAX_NAME], 'neighbour'
    if r < 0.86:
        return '', 'empty'
    return junk(rng)[:MAX_NAME], 'junk'


def gen_identity(rng, n):
    """the other arguments of insert_new_user -> (login_id, is_developer, is_service_account, shape)"""
    fresh = f'new{n}@hail.invalid'
    r = rng.random()
    if r < 0.5:
        return fresh, False, False, 'user'
    if r < 0.62:
        return fresh, True, False, 'developer'
    if r < 0.72:
        return None, False, True, 'service-account'
    if r < 0.78:
        return fresh, False, True, 'service-account-with-login'
    if r < 0.84:
        return rng.choice(['alice@hail.invalid', 'carol@hail.invalid', 'dora@hail.invalid']), False, False, 'login-id-taken'
    if r < 0.88:
        return rng.choice(['', None]), False, False, 'no-login-id'
    if r < 0.91:
        return fresh, True, True, 'both-types'
    if r < 0.94:
        return rng.choice([5, ['x'], b'x']), False, False, 'login-id-not-str'
    if r < 0.97:
        return fresh, rng.choice([1, 'true', None]), False, 'developer-not-bool'
    return fresh, False, rng.choice([0, 'false', None]), 'service-account-not-bool'


WELL_FORMED = ('user', 'developer', 'service-account', 'service-account-with-login')


def conflict_of(db_users, username, login_id):
    """none / same-user (same username and login id, not deleted: the call is an idempotent no-op) / other"""
    hits = [u for u in db_users if u['username'] == username or (login_id is not None and u['login_id'] == login_id)]
    if not hits:
        return 'none'
    if len(hits) == 1 and hits[0]['username'] == username and hits[0]['login_id'] == login_id and hits[0]['state'] not in ('deleting', 'deleted'):
        return 'same-user'
    return 'other'


# ---- oracle ---------------------------------------------------------------------------------------------


def judge_acceptance(ctx, where, username, secret, secret_judged, shape, before, db, outcome, detail):
    """outcome: created / existing / accepted (accepted, created-or-existing not distinguishable) / rejected / crashed.
    `before` is the users table before the call; the rows added since are what the service stored."""
    known_ids = {u['id'] for u in before}
    new_rows = [u for u in db.users if u['id'] not in known_ids]
    u_ok = model_username(username)
    s_ok = model_secret_name(secret)
    accepted = outcome in ('created', 'existing', 'accepted')
    w = {'entry': where, 'username': username, 'secret_name': secret, 'identity_shape': shape, 'outcome': outcome, 'detail': detail,
         'stored': [{'username': r['username'], 'hail_credentials_secret_name': r['hail_credentials_secret_name'], 'login_id': r['login_id']} for r in new_rows]}
    ctx.count('acceptance_' + ('accepted' if accepted else 'rejected'))
    ctx.count('stored_rows_judged', len(new_rows))
    flagged = set()
    if accepted and not u_ok:
        flagged.add(('u', username))
        ctx.violation(_classify('acceptance/username', username, True), f'{where}: username {username!r} was accepted ({outcome}), language says no', w)
    if accepted and new_rows and secret_judged and not s_ok:
        flagged.add(('s', secret))
        ctx.violation(_classify('acceptance/secret', secret, True), f'{where}: credentials secret name {secret!r} was accepted ({outcome}), language says no', w)
    conflict = conflict_of(before, username, detail.get('login_id'))
    if not accepted and u_ok and s_ok and shape in WELL_FORMED and conflict == 'none' and detail.get('must_accept', True):
        ctx.violation('acceptance/rejects-valid', f'{where}: username {username!r} / secret name {secret!r} with well-formed arguments and no colliding row was {outcome}', w)
    for r in new_rows:
        su, ss = r['username'], r['hail_credentials_secret_name']
        if not model_username(su) and ('u', su) not in flagged:
            ctx.violation(_classify('stored/username', su, True), f'{where}: a users row with username {su!r} was stored (input {username!r})', w)
        if not model_secret_name(ss) and ('s', ss) not in flagged:
            ctx.violation(_classify('stored/secret', ss, True), f'{where}: a users row with hail_credentials_secret_name {ss!r} was stored (input {secret!r})', w)
        if su != username and model_username(su):
            ctx.violation('stored/username-differs-from-input', f'{where}: input username {username!r}, stored {su!r}', w)
        if secret_judged and ss != secret and model_secret_name(ss):
            ctx.violation('stored/secret-differs-from-input', f'{where}: input secret name {secret!r}, stored {ss!r}', w)
    if not accepted and new_rows:
        ctx.violation('stored/row-after-rejection', f'{where}: the request was {outcome} but a users row {new_rows[0]["username"]!r} was stored', w)
    if outcome == 'created' and len(new_rows) != 1:
        ctx.violation('acceptance/created-without-row', f'{where}: reported created, {len(new_rows)} rows stored', w)
    if len(new_rows) > 1:
        ctx.violation('stored/several-rows', f'{where}: {len(new_rows)} rows stored by one request', w)
    return new_rows


# ---- drivers ---------------------------------------------------------------------------------------------


class _FlowResult:
    def __init__(self, login_id, email, org):
        self.login_id = login_id
        self.unverified_email = email
        self.organization_id = org
        self.token = {}


class FakeFlow:
    ORG = 'hail.invalid'

    def __init__(self):
        self.identity = None

    def organization_id(self):
        return self.ORG

    def receive_callback(self, request, flow_dict):
        if self.identity is None or request.query.get('state') != flow_dict.get('state'):
            raise ValueError('state mismatch')
        return _FlowResult(*self.identity)

    async def get_identity_uid_from_access_token(self, session, access_token, *, oauth2_client):
        return None


class AuthRoutes:
    """auth.auth's live route table on a real aiohttp router (all decorators in effect), socket-less"""

    def __init__(self, A):
        import warnings

        import aiohttp_session
        from aiohttp import web

        warnings.filterwarnings('ignore')
        self.A, self.web, self.S = A, web, aiohttp_session
        self.app = web.Application()
        self.app.add_routes(A.routes)

    def install(self, db, flow):
        K = self.A.AppKeys
        self.app[K.DB] = db
        self.app[K.FLOW_CLIENT] = flow
        self.app[K.CLIENT_SESSION] = object()
        self.app[K.HAILCTL_CLIENT_CONFIG] = {'installed': {'client_id': 'verif'}}

    async def request(self, method, path_qs, *, cookie=None, headers=None, body=None, content_type=None):
        from aiohttp.test_utils import make_mocked_request
        from multidict import CIMultiDict, CIMultiDictProxy

        web, S = self.web, self.S
        h = CIMultiDict({'Host': 'auth.hail.invalid', 'X-Forwarded-Proto': 'https', 'X-Forwarded-Host': 'auth.hail.invalid'})
        h.update(headers or {})
        if body is not None:
            h['Content-Type'] = content_type
        out = {'status': None, 'location': None, 'error': None, 'session': None}
        try:
            req = make_mocked_request(method, path_qs, headers=CIMultiDictProxy(h), app=self.app)
        except Exception as e:  # noqa: BLE001  the request line is not acceptable to aiohttp: the server answers 400
            out['status'], out['error'] = 400, 'request-not-constructible:' + type(e).__name__
            return out
        req._read_bytes = body if body is not None else b''
        if cookie is not None:
            req[S.SESSION_KEY] = S.Session(data=dict(cookie), new=False)
        resp = None
        try:
            mi = await self.app.router.resolve(req)
            req._match_info = mi
            mi.add_app(self.app)
            resp = await mi.handler(req)
        except web.HTTPException as e:
            resp = e
        except UnsupportedSQL:
            raise
        except Exception as e:  # noqa: BLE001  aiohttp answers 500
            out['error'] = f'{type(e).__name__}: {str(e)[:120]}'
        sess = req.get(S.SESSION_KEY)
        out['session'] = dict(sess) if sess is not None else None
        if resp is not None:
            out['status'] = getattr(resp, 'status', None)
            hdrs = getattr(resp, 'headers', None)
            if hdrs is not None and 'Location' in hdrs:
                out['location'] = hdrs['Location']
        else:
            out['status'] = 500
        return out


def _note_input_class(ctx, kind, s, cls):
    ctx.count(f'{kind}_inputs_{cls}')
    reach = normalisers_reaching(s, model_username if kind == 'username' else model_secret_name)
    if reach:
        ctx.count(f'normalisable_{kind}_inputs')
        for r in reach:
            ctx.seen(f'normalisers_{kind}', r)
        if isinstance(s, str) and any(c.isupper() for c in s) and 'lower' in reach:
            ctx.count(f'case_variant_{kind}_inputs')
        if isinstance(s, str) and any(ord(c) > 127 for c in s):
            ctx.count(f'non_ascii_normalisable_{kind}_inputs')
            if 'lower' in reach or 'casefold' in reach:  # e.g. KELVIN SIGN, LONG S: not ASCII, but the case mapping is
                ctx.count(f'case_mapped_non_ascii_{kind}_inputs')
    return reach


def acceptance_phases(ctx):
    import asyncio
    import json
    import logging
    from urllib.parse import quote, urlencode

    import vf.bootstrap

    try:
        vf.bootstrap.seed_global_config()
        import auth.auth as A
        from auth.exceptions import AuthUserError
    except Exception as e:  # noqa: BLE001
        ctx.inconclusive_because(f'auth.auth could not be imported for the acceptance path: {type(e).__name__}: {e}')
        return
    logging.getLogger('auth').setLevel(logging.CRITICAL)
    logging.getLogger('aiohttp').setLevel(logging.CRITICAL)
    loop = asyncio.new_event_loop()
    confusables()
    ctx.count('confusable_code_points', sum(len(v) for v in confusables().values()))

    def gen_case(rng, i, want_secret_p):
        username, ucls = gen_name(rng, 'username')
        if rng.random() < want_secret_p:
            secret, scls = gen_name(rng, 'secret')
        else:
            secret, scls = None, 'none'
        if ucls != 'valid' and scls not in ('none', 'valid') and rng.random() < 0.7:
            username, ucls = rand_valid_username(rng), 'valid'  # isolate the hostile secret name behind a good username
        login_id, is_dev, is_sa, shape = gen_identity(rng, i)
        return username, ucls, secret, scls, login_id, is_dev, is_sa, shape

    # ---- phase accept: the real functions ---------------------------------------------------------------
    async def call_insert(db, username, login_id, is_dev, is_sa, hail_identity, secret):
        try:
            r = await A.insert_new_user(db, username, login_id, is_dev, is_sa, hail_identity=hail_identity, hail_credentials_secret_name=secret)
        except AuthUserError as e:
            return 'rejected', type(e).__name__
        except UnsupportedSQL:
            raise
        except Exception as e:  # noqa: BLE001
            return 'crashed', f'{type(e).__name__}: {str(e)[:100]}'
        if r is True:
            return 'created', 'True'
        if r is False:
            return 'existing', 'False'
        return 'accepted', repr(r)[:60]

    async def call_check(db, username, login_id, is_dev, is_sa):
        try:
            async with db.start() as tx:
                r = await A.check_valid_new_user(tx, username, login_id, is_dev, is_sa)
        except AuthUserError as e:
            return 'rejected', type(e).__name__
        except UnsupportedSQL:
            raise
        except Exception as e:  # noqa: BLE001
            return 'crashed', f'{type(e).__name__}: {str(e)[:100]}'
        return ('accepted' if r is None else 'existing'), ('None' if r is None else 'existing row ' + repr(r.get('username')))

    N = ctx.pick(12_000, 60_000)
    for i, rng in ctx.cases(N, 'accept'):
        direct_check = rng.random() < 0.2
        username, ucls, secret, scls, login_id, is_dev, is_sa, shape = gen_case(rng, i, 0.0 if direct_check else 0.45)
        hail_identity = None if secret is None or rng.random() < 0.3 else f'{i}@verif.iam.invalid'
        db = make_users_world()
        before = [dict(u) for u in db.users]
        _note_input_class(ctx, 'username', username, ucls)
        if secret is not None:
            _note_input_class(ctx, 'secret', secret, scls)
        try:
            if direct_check:
                where = 'check_valid_new_user'
                outcome, info = loop.run_until_complete(call_check(db, username, login_id, is_dev, is_sa))
            else:
                where = 'insert_new_user'
                outcome, info = loop.run_until_complete(call_insert(db, username, login_id, is_dev, is_sa, hail_identity, secret))
        except UnsupportedSQL as e:
            ctx.inconclusive_because(f'acceptance path issued a statement the in-memory users table does not know: {e}')
            break
        ctx.count('accept_calls_' + where)
        ctx.count(f'accept_outcome_{outcome}')
        ctx.seen('accept_results', f'{where}:{outcome}:{info if outcome == "rejected" else ""}')
        if outcome == 'crashed':
            ctx.seen('accept_crashes', info[:60])
        detail = {'login_id': login_id, 'is_developer': is_dev, 'is_service_account': is_sa, 'result': info}
        judge_acceptance(ctx, where, username, secret, True, shape, before, db, outcome, detail)
        if direct_check and len(db.users) != len(before):
            ctx.violation('stored/row-after-check-only', 'check_valid_new_user changed the users table', {'username': username})
        ctx.case(sample={'entry': where, 'username': username, 'secret_name': secret, 'shape': shape, 'outcome': outcome},
                 key=(where, username, secret, shape), nontrivial=bool(username))

    # ---- phase routes: the routes that reach insert_new_user -------------------------------------------
    svc = AuthRoutes(A)
    auth_root = A.deploy_config.external_url('auth', '')
    creating_url = A.deploy_config.external_url('auth', '/creating')
    users_url = A.deploy_config.external_url('auth', '/users')
    saved_test_deployment = A.is_test_deployment
    N = ctx.pick(6_000, 30_000)
    try:
        for i, rng in ctx.cases(N, 'routes'):
            route = rng.choice(['rest', 'rest', 'form', 'oauth'])
            username, ucls, secret, scls, login_id, is_dev, is_sa, shape = gen_case(rng, i, 0.45 if route == 'rest' else 0.0)
            db, flow = make_users_world(), FakeFlow()
            svc.install(db, flow)
            before = [dict(u) for u in db.users]
            _note_input_class(ctx, 'username', username, ucls)
            if secret is not None:
                _note_input_class(ctx, 'secret', secret, scls)
            must_accept = True
            A.is_test_deployment = saved_test_deployment
            try:
                if route == 'rest':
                    where = 'POST /api/v1alpha/users/{user}/create'
                    body = {'login_id': login_id, 'is_developer': is_dev, 'is_service_account': is_sa}
                    if isinstance(login_id, bytes):
                        body['login_id'], shape = 7, 'login-id-not-str'
                    hail_identity = None
                    if secret is not None:
                        body['hail_credentials_secret_name'] = secret
                        if rng.random() < 0.7:
                            hail_identity = body['hail_identity'] = f'{i}@verif.iam.invalid'
                    if secret is not None or hail_identity is not None:
                        A.is_test_deployment = rng.random() < 0.8  # an existing identity may only be named in a test deployment
                        must_accept = A.is_test_deployment
                        ctx.count('rest_with_secret_test_deployment' if A.is_test_deployment else 'rest_with_secret_default_deployment')
                    r = loop.run_until_complete(svc.request(
                        'POST', '/api/v1alpha/users/' + quote(username, safe='') + '/create', headers={'Authorization': 'Bearer ' + SID_DEV},
                        body=json.dumps(body).encode(), content_type='application/json'))
                    outcome = 'accepted' if r['status'] == 200 else 'crashed' if r['status'] == 500 else 'rejected'
                    if '/' in username or username in ('', '.', '..'):
                        must_accept = False  # not expressible as one path segment (and not in the language anyway)
                elif route == 'form':
                    where = 'POST /users'
                    if not (login_id is None or isinstance(login_id, str)):
                        login_id, shape = None, 'no-login-id'
                    if not isinstance(is_dev, bool) or not isinstance(is_sa, bool):
                        is_dev, is_sa, shape = False, False, ('user' if login_id else 'no-login-id')
                    form = {'username': username}
                    if login_id is not None:
                        form['login_id'] = login_id
                    if is_dev:
                        form['is_developer'] = '1'
                    if is_sa:
                        form['is_service_account'] = '1'
                    if login_id is None and is_sa:
                        shape = 'service-account'
                    r = loop.run_until_complete(svc.request('POST', '/users', cookie={'session_id': SID_DEV}, body=urlencode(form).encode(),
                                                            content_type='application/x-www-form-urlencoded'))
                    msg = (r['session'] or {}).get('message') or {}
                    if r['status'] == 500:
                        outcome = 'crashed'
                    elif r['status'] == 302 and r['location'] == users_url and msg.get('type') == 'info':
                        outcome = 'created' if str(msg.get('text', '')).startswith('Created user') else 'existing'
                    else:
                        outcome = 'rejected'
                    r['message'] = msg
                else:
                    where = 'GET /oauth2callback (signup)'
                    # the e-mail local part is what the identity provider vouches for; the service derives the username from it
                    login_id, is_dev, is_sa, shape = f'new{i}@hail.invalid', False, False, 'user'
                    flow.identity = (login_id, username + '@hail.invalid', FakeFlow.ORG)
                    cookie = {'flow': {'state': 'st1', 'authorization_url': 'https://accounts.idp.invalid/', 'redirect_uri': 'x'}, 'caller': 'signup'}
                    r = loop.run_until_complete(svc.request('GET', '/oauth2callback?state=st1', cookie=cookie))
                    sess = r['session'] or {}
                    if r['status'] == 500:
                        outcome = 'crashed'
                    elif r['status'] == 302 and r['location'] == creating_url and sess.get('pending'):
                        outcome = 'accepted'
                    else:
                        outcome = 'rejected'
                    # only a local part that is already a hyphen-free username is certainly meant to be taken over unchanged
                    must_accept = model_username(username) and '-' not in username
            except UnsupportedSQL as e:
                ctx.inconclusive_because(f'acceptance path issued a statement the in-memory users table does not know: {e}')
                break
            finally:
                A.is_test_deployment = saved_test_deployment
            ctx.count('route_requests')
            ctx.count('route_requests_' + route)
            ctx.count(f'route_outcome_{outcome}')
            ctx.seen('route_statuses', f'{route}:{r["status"]}')
            if r.get('error'):
                ctx.seen('route_errors', f'{route}:{r["error"][:60]}')
            if r['status'] == 401:
                ctx.count('route_unauthorized')
            detail = {'login_id': login_id, 'is_developer': is_dev, 'is_service_account': is_sa, 'status': r['status'], 'location': r['location'],
                      'error': r.get('error'), 'message': r.get('message'), 'must_accept': must_accept}
            if route == 'oauth':
                # the service stores a name it derived itself: judge the stored row, and the outcome against the derived (stored) name
                known = {u['id'] for u in before}
                stored = [u for u in db.users if u['id'] not in known]
                judged_name = stored[0]['username'] if stored else username
                if not stored and not must_accept:
                    ctx.count('acceptance_rejected')
                else:
                    if stored and not model_username(username):
                        detail['local_part'] = username
                    judge_acceptance(ctx, where, judged_name, None, False, shape, before, db, outcome, detail)
            else:
                judge_acceptance(ctx, where, username, secret, route == 'rest', shape, before, db, outcome, detail)
            ctx.case(sample={'entry': where, 'username': username, 'secret_name': secret, 'shape': shape, 'outcome': outcome, 'status': r['status']},
                     key=(where, username, secret, shape), nontrivial=bool(username))
        if ctx.counters.get('route_unauthorized'):
            ctx.inconclusive_because('the developer session of the route phase was not recognised (401)')
    finally:
        A.is_test_deployment = saved_test_deployment
        loop.close()


# ---------------------------------------------------------------------------------------------------
# Validation of the acceptance-path phases (scratch worktree of /repo, one change at a time, quick tier, seed 0):
#   seeded C28-agent6: check_valid_new_user validates username.lower(), the INSERT stores the original
#       -> exit 1  acceptance/username/uppercase-accepted, acceptance/username/non-ascii-accepted (KELVIN SIGN)
#   B1 insert_new_user validates hail_credentials_secret_name.strip(), stores the raw value
#       -> exit 1  acceptance/secret/{trailing-newline,control-char,non-ascii}-accepted, acceptance/secret/accepts-invalid
#   B2 check_valid_new_user skips is_valid_username for service accounts
#       -> exit 1  acceptance/username/{uppercase,non-ascii,control-char,trailing-newline}-accepted, .../accepts-invalid
#   B3 POST /users: username = str(post['username']).strip()
#       -> exit 1  acceptance/username/{trailing-newline,control-char,non-ascii}-accepted, stored/username-differs-from-input
#   B4 POST /api/v1alpha/users/{user}/create: match_info['user'].lower()
#       -> exit 1  acceptance/username/uppercase-accepted, stored/username-differs-from-input
#   B6 insert_new_user validates the secret name only when hail_identity is given
#       -> exit 1  acceptance/secret/{uppercase,non-ascii,control-char,trailing-newline}-accepted
#   B7 check_valid_new_user validates unicodedata.normalize('NFKC', username)
#       -> exit 1  acceptance/username/non-ascii-accepted
#   B5 (not a break of the property, stays silent as it should): the OAuth signup lower-cases the name it *derives* from the e-mail local
#       part before insert_new_user; the stored name is in the language -> exit 0
# Not generated on purpose: names longer than 255 characters (in the language, accepted by both validators, but the varchar(255) column
# refuses them in strict mode).  Observed on the unchanged tree and not a verdict: POST /api/v1alpha/users/{user}/create answers 500
# (ValueError "Reason cannot contain \r or \n" from web.HTTPBadRequest(reason=...)) instead of 400 when the rejected username contains a
# line break - still a rejection, nothing is stored.
