"""C28 Usernames and credential secret names are validated exactly.

Oracle: hand-written recognisers (character loops, no regex) of the two languages in the property
statement.  Workload: every string over a 7-symbol hostile alphabet up to a length bound
(exhaustive) + seeded random Unicode/control-character strings + the repo's own tests re-run with
icontract post-conditions installed on the two functions.
"""
import itertools
import os
import subprocess
import sys

PID = 'C28'
LEVEL = 'exploration'
RULE = (
    'phase enum: all strings over the alphabet {a,z,0,-,.,A,\\n,e-acute} with length <= L (L=6 quick, 7 thorough), exhaustive; '
    'phase random: seeded strings mixing valid fragments with control characters, trailing newlines, Unicode digits/lowercase, '
    'non-str values; phase contracts: the repository\'s own pytest cases executed with icontract post-conditions on. '
    'A case is non-trivial when it is non-empty; distinct by (function, string).'
)
ASSUMPTIONS = ['the two hand-written recognisers below are the languages stated in the property']
SHARDS = {'quick': 1, 'thorough': 8}
FLOORS = {'accepted_username': 50, 'rejected_username': 1000, 'accepted_secret': 50, 'rejected_secret': 1000, 'contract_evaluations': 63}

LOWER = 'abcdefghijklmnopqrstuvwxyz'
DIGITS = '0123456789'


def model_label_char(c):
    return c in LOWER or c in DIGITS


def model_username(s) -> bool:
    # [a-z0-9]+(-[a-z0-9]+)*
    if not isinstance(s, str) or s == '':
        return False
    prev_hyphen = True  # start: a hyphen is not allowed
    for c in s:
        if c == '-':
            if prev_hyphen:
                return False
            prev_hyphen = True
        elif model_label_char(c):
            prev_hyphen = False
        else:
            return False
    return not prev_hyphen


def model_secret_name(s) -> bool:
    # label([.-]label)*, label = [a-z0-9]+ ; None means "no secret name given" and is accepted
    if s is None:
        return True
    if not isinstance(s, str) or s == '':
        return False
    prev_sep = True
    for c in s:
        if c in '.-':
            if prev_sep:
                return False
            prev_sep = True
        elif model_label_char(c):
            prev_sep = False
        else:
            return False
    return not prev_sep


def _classify(fn, s, impl_accepts):
    """mechanism key for a disagreement"""
    kind = 'accepts-invalid' if impl_accepts else 'rejects-valid'
    if isinstance(s, str) and impl_accepts:
        if s.endswith('\n') and (model_username if fn == 'username' else model_secret_name)(s[:-1]):
            return f'{fn}/trailing-newline-accepted'
        if any(ord(c) > 127 for c in s):
            return f'{fn}/non-ascii-accepted'
        if any(ord(c) < 32 or ord(c) == 127 for c in s):
            return f'{fn}/control-char-accepted'
        if any(c.isupper() for c in s):
            return f'{fn}/uppercase-accepted'
    return f'{fn}/{kind}'


def run(ctx):
    from auth.auth_utils import is_valid_username, validate_credentials_secret_name_input
    from auth.exceptions import AuthUserError

    def impl_secret(s):
        try:
            validate_credentials_secret_name_input(s)
            return True
        except AuthUserError:
            return False

    def check(s):
        try:
            got_u = bool(is_valid_username(s))
        except Exception as e:  # the property speaks about strings; a crash on a str is a defect
            if isinstance(s, str):
                ctx.violation('username/raises', f'is_valid_username({s!r}) raised {e!r}', {'input': s})
            got_u = None
        if got_u is not None and isinstance(s, str):
            want = model_username(s)
            ctx.count('accepted_username' if got_u else 'rejected_username')
            if got_u != want:
                ctx.violation(_classify('username', s, got_u), f'is_valid_username({s!r}) = {got_u}, language says {want}', {'input': s})
        try:
            got_s = impl_secret(s)
        except Exception as e:
            if isinstance(s, str):
                ctx.violation('secret/raises', f'validate_credentials_secret_name_input({s!r}) raised {e!r}', {'input': s})
            got_s = None
        if got_s is not None and (isinstance(s, str) or s is None):
            want = model_secret_name(s)
            ctx.count('accepted_secret' if got_s else 'rejected_secret')
            if got_s != want:
                ctx.violation(_classify('secret', s, got_s), f'validate_credentials_secret_name_input({s!r}) accepted={got_s}, language says {want}', {'input': s})
        ctx.case(sample={'input': s}, key=s, nontrivial=bool(s))

    # ---- phase enum (exhaustive; sharded by first symbol index) ------------------------------
    alphabet = ['a', 'z', '0', '-', '.', 'A', '\n', 'é']
    L = ctx.pick(6, 7)
    if ctx.replay is None:
        n = 0
        for length in range(0, L + 1):
            for tup in itertools.product(alphabet, repeat=length):
                n += 1
                if n % ctx.n_shards != ctx.shard:
                    continue
                check(''.join(tup))
        ctx.exhaustive = False  # the random phase below is not exhaustive; the enum phase is (see rule)
        ctx.count('enum_strings', n // ctx.n_shards)

    # ---- phase random -------------------------------------------------------------------
    frag = ['a', 'abc', 'x9', '0', '42', '-', '--', '.', '..', '.-', '-.', 'A', 'Z', '\n', '\r', '\t', '\x00', '\x0b', '\x0c', '\x1f',
            '\x7f', '\x85', ' ', ' ', ' ', ' ', '²', '¹', '١', '１', 'ａ', 'ǆ', 'ß', 'ı',
            'α', 'а', '\U0001d41a', '́', '_', '!', '/', '%0a', '\\n', '\U0001f600']
    N = ctx.pick(60_000, 400_000)
    for i, rng in ctx.cases(N, 'random'):
        k = rng.choice([1, 2, 2, 3, 3, 4, 5, 8, 40])
        s = ''.join(rng.choice(frag) for _ in range(k))
        mode = rng.random()
        if mode < 0.25:  # valid core + hostile tail
            core = rng.choice(['abc', 'a-b', 'a.b-c', 'x', '0', 'a3a.3a'])
            s = core + rng.choice(['\n', '\r\n', '\n\n', '\x00', ' ', ' ', '\x85', '.', '-', '\n-', '\na'])
        elif mode < 0.3:
            s = rng.choice(['\n', '\r', ' ', '']) + rng.choice(['abc', 'a-b', 'a'])
        elif mode < 0.32:
            s = rng.choice([None, 0, 1, b'abc', ['a'], 3.5])
        check(s)

    # ---- phase contracts: the repo's own tests with icontract post-conditions ---------------
    if ctx.shard == 0 and ctx.replay is None:
        env = dict(os.environ)
        env['PYTHONPATH'] = os.pathsep.join([os.path.dirname(os.path.dirname(os.path.dirname(os.path.abspath(__file__)))), env.get('PYTHONPATH', '')])
        env['VERIF_C28_CONTRACT_LOG'] = os.path.join(os.path.dirname(__file__), '..', '..', 'evidence', 'replays', f'.c28-contracts-{os.getpid()}.log')
        os.makedirs(os.path.dirname(env['VERIF_C28_CONTRACT_LOG']), exist_ok=True)
        repo = os.environ.get('VERIF_REPO', '/repo')
        try:
            p = subprocess.run(
                [sys.executable, '-m', 'pytest', '-q', '-p', 'no:cacheprovider', '-p', 'vf.monitors.c28_plugin', os.path.join(repo, 'auth', 'test', 'test_auth_utils.py')],
                cwd=repo, env=env, capture_output=True, text=True, timeout=300,
            )
            out = p.stdout + p.stderr
            n_eval = 0
            try:
                with open(env['VERIF_C28_CONTRACT_LOG']) as f:
                    for line in f:
                        n_eval += 1
                        if line.startswith('BROKEN '):
                            ctx.violation('contract-in-repo-tests', 'icontract post-condition broke while running the repo tests: ' + line.strip(), {'line': line})
                os.unlink(env['VERIF_C28_CONTRACT_LOG'])
            except FileNotFoundError:
                pass
            ctx.count('contract_evaluations', n_eval)
            ctx.count('repo_tests_exit_code_nonzero', 1 if p.returncode != 0 else 0)
            if p.returncode != 0 and n_eval == 0:
                ctx.inconclusive_because('repo tests with contracts did not run: ' + out[-400:])
        except subprocess.TimeoutExpired:
            ctx.inconclusive_because('repo tests with contracts timed out')
    elif ctx.replay is None:
        ctx.count('contract_evaluations', 0)
